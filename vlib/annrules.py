"""C01 applicability / expectation table for parameter and return-value annotations.

The table is DATA: an ordered list of rows (first match wins).  A row says, for an
annotation placed on one value (a parameter or a return value) of a given *site*,
whether the documentation decides that the annotation is applicable there, and which
GIR attributes the documentation promises.  A site that no row matches is UNDECIDED:
the check executes it but asserts nothing.

Every row carries a provenance string:
  S  = statement of property C01 in properties.jsonl
  D  = docs/website/annotations/giannotations.rst   (section named in the string)
  W  = tests/warn/<file>.h (EXPECT lines)
  R  = docs/gir-1.2.rnc (schema of the output format; used only for the shape of an
       attribute, never for applicability)
The table is grown from those sources only, never from observing giscanner.

Site (built by checks/c01.py):
  pos       'param' | 'return'
  callable  'function' | 'method' | 'callback' | 'signal' | 'vfunc'
  cat       type category (see CATS)
  dir       'in' | 'out' | 'inout' | 'unknown' (parameters) ; 'return' (return values)
  nb        set of neighbouring annotation keys on the same value, e.g. {'array', 'type',
            'element-type', 'not:nullable', 'not:optional', 'destroy', 'scope', 'transfer', 'out'}
  facts     set of extra symbolic facts about this annotation instance, e.g.
            'target:untyped'  the parameter named by closure/destroy/length has that category
            'target:missing'  the named parameter does not exist
            'nargs:1'         number of options of element-type
            'elem:pointer' / 'elem:byte' / 'elem:resolvable' / 'type:resolvable'
            'sole'            the only annotation on this value (and the value has no other text)
            'later-destroy'   a GDestroyNotify-typed parameter follows this callback parameter
            'later-data'      a gpointer parameter whose name ends in "data" follows this callback parameter

Expectation tokens (interpreted by checks/c01.py on the value's GIR element):
  ('attr', name, value)        attribute equals value; value '$0' = first option of the annotation
  ('attr-in', name, values)    attribute (None = absent) is one of values
  ('noattr', name)             attribute absent
  ('index', name, '$0')        attribute equals the position of the parameter named by option 0 among the
                               <parameter> elements (instance parameter and removed GError** not counted)
  ('selfindex', name)          attribute equals the value's own position
  ('array',)                   the type child is <array>
  ('array-opts',)              length index / fixed-size / effective zero-termination as stated by the options
  ('length-dir',)              the parameter named by length= has the array's direction
  ('elem',)                    element type children carry the canonical GIR names of the options
  ('type',)                    the type child is the canonical GIR rendering of option 0
  ('attributes',)              exactly one <attribute name value> child per key that has a value
"""

ANY = None

# ------------------------------------------------------------------ type categories
CATS = [
    'void',         # return only
    'basic',        # numeric / boolean / double / GType and typedef aliases of them, by value
    'enum',         # enum or flags by value
    'string',       # char* / const char* / gchararray
    'untyped',      # gpointer / gconstpointer
    'record',       # pointer to a plain C struct of the namespace
    'boxed',        # pointer to a registered boxed struct (own or GLib's, e.g. GDateTime)
    'union',        # pointer to a union
    'recpp',        # struct pointer-to-pointer
    'object',       # pointer to a class instance
    'iface',        # pointer to an interface instance
    'objpp',        # class pointer-to-pointer
    'variant',      # GVariant*
    'closure',      # GClosure*
    'list',         # GList* / GSList*
    'map',          # GHashTable*
    'garray',       # GArray*
    'gptrarray',    # GPtrArray*
    'gbytearray',   # GByteArray*
    'strv',         # char** / GStrv
    'basicptr',     # int* etc.
    'basicpp',      # int**
    'callback',     # callback typedef of the namespace
    'destroy',      # GDestroyNotify
    'asyncready',   # GAsyncReadyCallback
    'error',        # GError**
    'foreignptr',   # pointer to a type no scanned header or include describes
    'foreign',      # such a type by value
]

BASIC = frozenset(['basic'])
VALUE = frozenset(['basic', 'enum'])
STRUCTS = frozenset(['record', 'boxed', 'union', 'variant', 'closure'])
OBJECTS = frozenset(['object', 'iface'])
FLOATABLE = frozenset(['object', 'iface', 'variant', 'closure'])
CONTAINERS = frozenset(['list', 'map', 'garray', 'gptrarray', 'gbytearray'])
CALLBACKS = frozenset(['callback', 'destroy', 'asyncready'])
USER_CALLBACKS = frozenset(['callback', 'asyncready'])
POINTERS = frozenset(['string', 'untyped', 'strv', 'basicptr', 'basicpp', 'recpp', 'objpp', 'error', 'foreignptr']) \
    | STRUCTS | OBJECTS | CONTAINERS | CALLBACKS
# values that (array) turns into a C array of the pointed-to type
ARRAYABLE = frozenset(['string', 'strv', 'basicptr', 'basicpp', 'record', 'boxed', 'recpp', 'objpp'])
# known not to be containers
NON_CONTAINERS = frozenset(['basic', 'enum', 'string', 'record', 'boxed', 'union', 'object', 'iface', 'variant', 'closure',
                            'callback', 'destroy', 'asyncready', 'basicptr', 'recpp', 'objpp'])
NOT_FLOATABLE = frozenset(['basic', 'enum', 'string', 'record', 'boxed', 'union', 'list', 'map', 'garray', 'gptrarray',
                           'gbytearray', 'callback', 'destroy', 'asyncready', 'basicptr', 'strv'])
FUNCLIKE = frozenset(['function', 'method', 'vfunc'])
C_DECLARED = frozenset(['function', 'method', 'vfunc', 'callback'])     # C declaration: pointer depth is known

APPLICABLE = 'applicable'
INAPPLICABLE = 'inapplicable'
FATAL = 'fatal'
UNDECIDED = 'undecided'

# ------------------------------------------------------------------ canonical GIR names of user type strings
# D "Default Basic Types", "Reference to Object Instances" (Namespace.Name; names of the namespace being
# scanned are written without the prefix in its own GIR - R: <type name>).
# value: (name, [element names]) ; None = not resolvable in the test namespace (undecided)
TYPE_SPECS = {
    'utf8': ('utf8', []),
    'filename': ('filename', []),
    'gint': ('gint', []),
    'guint8': ('guint8', []),
    'gboolean': ('gboolean', []),
    'gdouble': ('gdouble', []),
    'gpointer': ('gpointer', []),
    'Foo.Rec': ('Rec', []),
    'Foo.Boxed': ('Boxed', []),
    'Foo.Obj': ('Obj', []),
    'Foo.Kind': ('Kind', []),
    'GObject.Object': ('GObject.Object', []),
    'GLib.Variant': ('GLib.Variant', []),
    'GLib.List(utf8)': ('GLib.List', ['utf8']),
    'GLib.HashTable(utf8,gint)': ('GLib.HashTable', ['utf8', 'gint']),
    'Foo.Missing': None,
    'Bar.Baz': None,
}
POINTER_ELEMENTS = frozenset(['utf8', 'filename', 'gpointer', 'Foo.Rec', 'Foo.Boxed', 'Foo.Obj', 'GObject.Object', 'GLib.Variant'])
BYTE_ELEMENTS = frozenset(['guint8'])

# attributes (of the value's element) that an annotation governs: compared between the run with the
# annotation and the baseline run without it when the annotation is inapplicable.  '#type' = the whole
# type child, '#attributes' = the <attribute> children.
GOVERNS = {
    'transfer': ['transfer-ownership'],
    'in': ['direction', 'caller-allocates'],
    'out': ['direction', 'caller-allocates'],
    'inout': ['direction', 'caller-allocates'],
    'nullable': ['nullable', 'allow-none'],
    'optional': ['optional', 'allow-none'],
    'allow-none': ['nullable', 'optional', 'allow-none'],
    'not': ['nullable', 'optional', 'allow-none'],
    'skip': ['skip'],
    'array': ['#type'],
    'element-type': ['#type'],
    'type': ['#type'],
    'scope': ['scope'],
    'closure': ['closure'],
    'destroy': ['destroy', 'scope'],
    'attributes': ['#attributes'],
}

TYPE_DEP = frozenset(['type'])                   # a (type) override changes the category: type-dependent rows step aside
TYPE_OR_ARRAY = frozenset(['type', 'array'])


def R(ann, verdict, prov, opts=ANY, pos=ANY, dirs=ANY, cats=ANY, callables=ANY, need=(), forbid=(), facts=(), nofacts=(),
      expect=()):
    return {'ann': ann, 'opts': None if opts is ANY else frozenset(opts), 'pos': pos,
            'dirs': None if dirs is ANY else frozenset(dirs), 'cats': None if cats is ANY else frozenset(cats),
            'callables': None if callables is ANY else frozenset(callables), 'need': frozenset(need),
            'forbid': frozenset(forbid), 'facts': frozenset(facts), 'nofacts': frozenset(nofacts),
            'verdict': verdict, 'expect': list(expect), 'prov': prov}


ROWS = []


def _add(*a, **k):
    ROWS.append(R(*a, **k))


# ---- 0. anything on the Returns: tag of a callable returning void
_add(ANY, INAPPLICABLE, 'W invalid-return.h ("invalid return annotation" for a Returns: tag on a void callable)',
     pos='return', cats=['void'], facts=['sole'], callables=C_DECLARED)

# ---- 1. transfer
_add('transfer', INAPPLICABLE,
     'S ("a transfer on a plain integer ... is reported as a warning"); W invalid-transfer.h (char, TestChar, GType, return char)',
     opts=['none', 'full'], dirs=['in', 'return'], cats=BASIC, forbid=TYPE_OR_ARRAY)
_add('transfer', APPLICABLE,
     'D "Transfer modes" none/full; W invalid-transfer.h (message: valid for array, struct, union, boxed, object and interface types)',
     opts=['none', 'full'], dirs=['in', 'return'], cats=frozenset(['string']) | STRUCTS | OBJECTS | CONTAINERS,
     forbid=TYPE_DEP, expect=[('attr', 'transfer-ownership', '$0')])
_add('transfer', APPLICABLE,
     'D "Default Annotations" ((inout) and (out) parameters carry a transfer mode); DESIGN appendix A',
     opts=['none', 'full'], pos='param', dirs=['out', 'inout'], cats=frozenset(CATS) - CALLBACKS - frozenset(['foreign', 'void']),
     forbid=TYPE_DEP, expect=[('attr', 'transfer-ownership', '$0')])
_add('transfer', APPLICABLE,
     'W invalid-transfer.h (message: valid for array ... types) with D "(array)"',
     opts=['none', 'full'], dirs=['in', 'return'], cats=ARRAYABLE, need=['array'], forbid=TYPE_DEP,
     expect=[('attr', 'transfer-ownership', '$0')])
_add('transfer', APPLICABLE,
     'D "Transfer modes" container: "the recipient owns the container, but not the elements"; examples with GSList/GList',
     opts=['container'], cats=CONTAINERS, forbid=TYPE_DEP, expect=[('attr', 'transfer-ownership', 'container')])
_add('transfer', APPLICABLE,
     'D "Transfer modes" container with D "(element-type) ... Can be used in combination with (array)" (an array is a container)',
     opts=['container'], cats=ARRAYABLE, need=['array'], forbid=TYPE_DEP, expect=[('attr', 'transfer-ownership', 'container')])
_add('transfer', INAPPLICABLE,
     'D "container ... (Only meaningful for container types.)"; W invalid-transfer.h (GObject*: only valid for container types)',
     opts=['container'], cats=NON_CONTAINERS, forbid=TYPE_OR_ARRAY)
_add('transfer', APPLICABLE,
     'S ("floating meaning none"); D "floating: alias for none, can be used for floating objects"; '
     'W invalid-transfer.h (message: valid for object, GVariant and GClosure types)',
     opts=['floating'], cats=FLOATABLE, forbid=TYPE_DEP, expect=[('attr', 'transfer-ownership', 'none')])
_add('transfer', INAPPLICABLE,
     'W invalid-transfer.h (GDateTime*: "only valid for object, GVariant and GClosure types"); S (plain integer)',
     opts=['floating'], cats=NOT_FLOATABLE, forbid=TYPE_DEP)

# ---- 2. direction
for _d in ('in', 'out', 'inout'):
    _add(_d, INAPPLICABLE, 'D "Type signature": (%s) applies to parameters (not to return values)' % _d, pos='return')
_add('in', APPLICABLE, 'D "(in) In parameter"; R direction defaults to in', pos='param', dirs=['in'],
     expect=[('attr-in', 'direction', [None, 'in'])])
_add('inout', APPLICABLE, 'D "(inout) In/out parameter"', pos='param', dirs=['inout'], expect=[('attr', 'direction', 'inout')])
_add('out', APPLICABLE, 'D "(out caller-allocates) ... the calling code must allocate storage"', pos='param',
     dirs=['out'], opts=['caller-allocates'], expect=[('attr', 'direction', 'out'), ('attr', 'caller-allocates', '1')])
_add('out', APPLICABLE, 'D "(out callee-allocates) ... the receiving function must allocate storage"', pos='param',
     dirs=['out'], opts=['callee-allocates'], expect=[('attr', 'direction', 'out'), ('attr', 'caller-allocates', '0')])
_add('out', APPLICABLE,
     'D "Out parameters": caller-allocates is inferred "from the fact that there\'s only a single indirection on a structure parameter"',
     pos='param', dirs=['out'], opts=[''], cats=['record', 'boxed', 'union'], callables=C_DECLARED, forbid=TYPE_OR_ARRAY,
     expect=[('attr', 'direction', 'out'), ('attr', 'caller-allocates', '1')])
_add('out', APPLICABLE,
     'D "Out parameters": callee-allocates is inferred from "a double indirection on a structure parameter"; D "Direction" (int *width)',
     pos='param', dirs=['out'], opts=[''], cats=['recpp', 'objpp', 'basicptr', 'basicpp', 'strv'], callables=C_DECLARED, forbid=TYPE_DEP,
     expect=[('attr', 'direction', 'out'), ('attr', 'caller-allocates', '0')])
_add('out', APPLICABLE, 'D "(out) Out parameter (automatically determine allocation)"', pos='param', dirs=['out'], opts=[''],
     expect=[('attr', 'direction', 'out')])

# ---- 3. nullable / not / optional / allow-none
_add('nullable', APPLICABLE, 'S ("with \'not\' overriding"); D "(not nullable)"', need=['not:nullable'], expect=[('noattr', 'nullable')])
_add('nullable', APPLICABLE, 'D "(nullable) ... NULL may be a valid value for a parameter (in, out, inout)"; R allow-none accompanies nullable unless out',
     pos='param', dirs=['out'], expect=[('attr', 'nullable', '1')])
_add('nullable', APPLICABLE, 'D "(nullable)"; R', pos='param', dirs=['inout'],
     expect=[('attr', 'nullable', '1'), ('attr', 'allow-none', '1')])
_add('nullable', APPLICABLE, 'D "(nullable)"; W invalid-nullable.h (message: valid for pointer types and out parameters); R',
     pos='param', dirs=['in'], cats=POINTERS, forbid=TYPE_DEP, expect=[('attr', 'nullable', '1'), ('attr', 'allow-none', '1')])
_add('nullable', APPLICABLE, 'D "(nullable) ... or return value"', pos='return', cats=POINTERS, forbid=TYPE_DEP,
     expect=[('attr', 'nullable', '1')])
_add('nullable', INAPPLICABLE, 'S ("nullable on a non-pointer"); W invalid-nullable.h (int, GType, return int)',
     dirs=['in', 'return'], cats=VALUE, forbid=TYPE_OR_ARRAY)

_add('not', APPLICABLE, 'D "(not nullable) ... use (not nullable) to override the convention" (section "Nullable parameters")',
     opts=['nullable'], expect=[('noattr', 'nullable')])
_add('not', APPLICABLE,
     'D "(not optional)" governs optional only; D "Nullable parameters": gpointer values are nullable unless annotated (type) or (not nullable)',
     opts=['optional'], cats=['untyped'], dirs=['in', 'return'], forbid=['type', 'element-type', 'array'],
     expect=[('noattr', 'optional'), ('attr', 'nullable', '1')])
_add('not', APPLICABLE, 'D "(not optional): For (out) or (inout) parameters ... the caller cannot pass NULL"', opts=['optional'],
     pos='param', dirs=['out', 'inout'], expect=[('noattr', 'optional')])

_add('optional', APPLICABLE, 'S ("nullable/optional (with \'not\' overriding)")', pos='param', dirs=['out', 'inout'],
     need=['not:optional'], expect=[('noattr', 'optional')])
_add('optional', APPLICABLE, 'D "(optional): For (out) or (inout) parameters"; R allow-none accompanies optional on out', pos='param',
     dirs=['out'], expect=[('attr', 'optional', '1'), ('attr', 'allow-none', '1')])
_add('optional', APPLICABLE, 'D "(optional): For (out) or (inout) parameters"', pos='param', dirs=['inout'],
     expect=[('attr', 'optional', '1')])
_add('optional', INAPPLICABLE, 'S ("optional on an in-parameter"); W invalid-optional.h (in parameters, explicit (in), return value)',
     dirs=['in', 'return'])

_add('allow-none', INAPPLICABLE, 'W invalid-allow-none.h (int, GType, return int)', dirs=['in', 'return'], cats=BASIC,
     forbid=TYPE_OR_ARRAY)
_add('allow-none', APPLICABLE, 'D "(allow-none) Replaced by (nullable) and (optional)"; W invalid-allow-none.h (valid for out parameters)',
     pos='param', dirs=['out'], forbid=['not:optional', 'not:nullable'], expect=[('attr', 'optional', '1'), ('attr', 'allow-none', '1')])
_add('allow-none', APPLICABLE, 'D "(allow-none) Replaced by (nullable) and (optional)"; W invalid-allow-none.h (valid for pointer types)',
     pos='param', dirs=['in'], cats=POINTERS, forbid=['type', 'not:nullable', 'not:optional'],
     expect=[('attr', 'nullable', '1'), ('attr', 'allow-none', '1')])
_add('allow-none', APPLICABLE, 'D "(allow-none) Replaced by (nullable) and (optional)"; W invalid-allow-none.h', pos='return',
     cats=POINTERS, forbid=['type', 'not:nullable', 'not:optional'], expect=[('attr', 'nullable', '1')])

# ---- 4. skip
_add('skip', APPLICABLE, 'D "Symbol visibility": (skip) on parameters, return value', expect=[('attr', 'skip', '1')])

# ---- 5. array
_add('array', FATAL, 'DESIGN 1.4a / message.fatal contract: length= naming a parameter that does not exist', facts=['target:missing'])
_add('array', APPLICABLE,
     'D "(array)", "(array fixed-size=N)", "(array length=PARAM)", "(array zero-terminated=1)"; S (length index, fixed size, '
     'zero-termination; the length parameter follows the array\'s direction)',
     cats=ARRAYABLE, callables=C_DECLARED, forbid=['type', 'element-type'],
     expect=[('array',), ('array-opts',), ('length-dir',)])
_add('array', APPLICABLE, 'D "(element-type) ... Can be used in combination with (array)"; D "(array ...)"',
     cats=ARRAYABLE | frozenset(['untyped']), callables=C_DECLARED, need=['element-type'], forbid=['type'],
     facts=['nb-elem:resolvable', 'nb-elem:nargs1'], expect=[('array',), ('array-opts',), ('length-dir',)])
_add('array', APPLICABLE, 'D "(array ...)" on a string array signal argument (GStrv)', cats=['strv'], callables=['signal'],
     forbid=['type', 'element-type'], expect=[('array',), ('array-opts',), ('length-dir',)])

# ---- 6. element-type
_add('element-type', APPLICABLE, 'D "(element-type TYPE) Specify the type of the element inside a container"; example GSList/GList',
     cats=['list', 'garray'], forbid=TYPE_OR_ARRAY, facts=['nargs:1', 'elem:resolvable'], expect=[('elem',)])
_add('element-type', APPLICABLE, 'D "(element-type TYPE)"; W invalid-element-type.h (GPtrArray elements must be pointers)',
     cats=['gptrarray'], forbid=TYPE_OR_ARRAY, facts=['nargs:1', 'elem:resolvable', 'elem:pointer'], expect=[('elem',)])
_add('element-type', APPLICABLE, 'D "(element-type TYPE)"; W invalid-element-type.h (GByteArray elements must be guint8, gint8 or gchar)',
     cats=['gbytearray'], forbid=TYPE_OR_ARRAY, facts=['nargs:1', 'elem:byte'], expect=[('elem',)])
_add('element-type', APPLICABLE, 'D "(element-type KTYPE VTYPE) ... dictionary-like container (eg, GHashTable)"',
     cats=['map'], forbid=TYPE_OR_ARRAY, facts=['nargs:2', 'elem:resolvable'], expect=[('elem',)])
_add('element-type', APPLICABLE, 'D "(element-type TYPE) ... Can be used in combination with (array)"',
     cats=ARRAYABLE | frozenset(['untyped']), callables=C_DECLARED, need=['array'], forbid=['type'],
     facts=['nargs:1', 'elem:resolvable'], expect=[('array',), ('elem',)])
_add('element-type', INAPPLICABLE,
     'W invalid-element-type.h ("for a list must have exactly one option, not 2 options")', cats=['list'], forbid=TYPE_OR_ARRAY,
     facts=['nargs:2'])
_add('element-type', INAPPLICABLE,
     'W invalid-element-type.h ("for a hash table must have exactly two options, not 1 option(s)")', cats=['map'],
     forbid=TYPE_OR_ARRAY, facts=['nargs:1'])
_add('element-type', INAPPLICABLE,
     'W invalid-element-type.h (const char*: "Unknown container ... for element-type annotation"); D (element inside a container)',
     cats=NON_CONTAINERS, forbid=TYPE_OR_ARRAY)

# ---- 7. type
_add('type', APPLICABLE, 'D "(type TYPE) parameters, return value: override the parsed C type with given type"; example (type GSList(NiceObj))',
     forbid=['array', 'element-type'], facts=['type:resolvable'], expect=[('type',)])

# ---- 8. scope / closure / destroy
for _a in ('scope', 'closure', 'destroy'):
    _add(_a, INAPPLICABLE, 'D "(%s)" applies to (function) parameters, not to return values' % _a, pos='return')
_add('closure', FATAL, 'DESIGN 1.4a / message.fatal contract: closure naming a parameter that does not exist',
     pos='param', cats=CALLBACKS, callables=FUNCLIKE, facts=['target:missing'], forbid=TYPE_DEP)
_add('destroy', FATAL, 'DESIGN 1.4a / message.fatal contract: destroy naming a parameter that does not exist',
     pos='param', cats=CALLBACKS, callables=FUNCLIKE, facts=['target:missing'], forbid=TYPE_DEP)

_add('scope', INAPPLICABLE, 'S ("scope on a non-callback"); W callback-invalid-scope.h (gpointer user_data (scope call))',
     pos='param', cats=frozenset(CATS) - CALLBACKS - frozenset(['foreign', 'foreignptr', 'void']), callables=FUNCLIKE, forbid=TYPE_DEP)
_add('scope', APPLICABLE, 'D "(scope TYPE): The parameter is a callback, the TYPE option indicates the lifetime of the call"',
     pos='param', cats=USER_CALLBACKS, callables=FUNCLIKE, forbid=['type', 'destroy'], nofacts=['later-destroy'],
     expect=[('attr', 'scope', '$0')])

_add('closure', INAPPLICABLE, 'W invalid-closure.h ((closure callback) on gpointer user_data: "only valid on callback parameters"); '
     'D "(closure) ... Note, not on a user data argument to a function"',
     pos='param', cats=frozenset(CATS) - CALLBACKS - frozenset(['foreign', 'foreignptr', 'void']), callables=FUNCLIKE, forbid=TYPE_DEP)
_add('closure', APPLICABLE, 'D "(closure PARAM_NAME) ... PARAM_NAME is the name of the parameter that is the user data for the callback"; '
     'D "These annotations are for cases that the autodetection can\'t handle"',
     pos='param', cats=['callback'], callables=FUNCLIKE, forbid=TYPE_DEP, facts=['nargs:1', 'target:untyped'],
     expect=[('index', 'closure', '$0')])
_add('closure', APPLICABLE, 'D "(closure) callback parameter: placed on a callback typedef\'s user data argument"; D "Callbacks" example',
     pos='param', cats=['untyped'], callables=['callback'], forbid=TYPE_DEP, facts=['nargs:0'], expect=[('selfindex', 'closure')])
_add('closure', INAPPLICABLE, 'W invalid-closure.h (TestInvalidCallbackClosure: "invalid closure annotation with argument on a callback type")',
     pos='param', callables=['callback'], facts=['nargs:1'])
_add('closure', INAPPLICABLE, 'S (invalid annotation: warning, attribute unchanged); W invalid-closure.h (TestInvalidCallbackClosure2: '
     '(closure) on int foo: "only valid on gpointer parameters")',
     pos='param', cats=VALUE, callables=['callback'], forbid=TYPE_DEP, facts=['nargs:0'])

_add('destroy', INAPPLICABLE, 'W callback-invalid-destroy.h ((destroy destroy) on gpointer user_data: "only valid on callback parameters")',
     pos='param', cats=frozenset(CATS) - CALLBACKS - frozenset(['foreign', 'foreignptr', 'void']), callables=FUNCLIKE, forbid=TYPE_DEP)
_add('destroy', APPLICABLE, 'D "(destroy PARAM_NAME) ... the name of the parameter that is the destroy function"; '
     'D "notified - valid until the GDestroyNotify argument is called"',
     pos='param', cats=['callback'], callables=FUNCLIKE, forbid=TYPE_DEP, facts=['target:destroy'],
     expect=[('index', 'destroy', '$0'), ('attr', 'scope', 'notified')])

# ---- 9. attributes
_add('attributes', APPLICABLE, 'D "(attributes my.key=val my.key2) ... Assigning values to keys is optional"; S (free-form attributes); '
     'R <attribute> requires both name and value', expect=[('attributes',)])


def _key_of(ann):
    """Neighbour key of an annotation list, e.g. ['not', 'nullable'] -> 'not:nullable'."""
    if ann[0] == 'not' and len(ann) > 1:
        return 'not:' + ann[1]
    return ann[0]


def neighbour_keys(anns, me):
    out = set()
    for i, a in enumerate(anns):
        if i != me:
            out.add(_key_of(a))
    return out


def form_of(ann):
    """Coarse annotation form used for coverage: name[:first option / option keys]."""
    n = ann[0]
    if n in ('transfer', 'scope', 'not'):
        return '%s:%s' % (n, ann[1] if len(ann) > 1 else '')
    if n == 'out':
        return 'out' if len(ann) == 1 else 'out:' + ann[1]
    if n == 'array':
        ks = sorted(set(o.split('=')[0] if not o.startswith('zero-terminated') else o for o in ann[1:]))
        return 'array' + (':' + '+'.join(ks) if ks else '')
    if n == 'element-type':
        return 'element-type:%d' % (len(ann) - 1)
    if n == 'closure':
        return 'closure' if len(ann) == 1 else 'closure:name'
    if n == 'attributes':
        return 'attributes' + (':novalue' if any('=' not in o for o in ann[1:]) else '')
    return n


def decide(site, ann, facts):
    """-> (verdict, expect tokens, provenance, row index) ; UNDECIDED when no row matches."""
    name = ann[0]
    opt0 = ann[1] if len(ann) > 1 else ''
    for i, r in enumerate(ROWS):
        if site['cat'] == 'void' and i != 0:
            break       # only the invalid-return row speaks about void callables
        if r['ann'] is not None and r['ann'] != name:
            continue
        if r['opts'] is not None and opt0 not in r['opts']:
            continue
        if r['pos'] is not None and r['pos'] != site['pos']:
            continue
        if r['dirs'] is not None and site['dir'] not in r['dirs']:
            continue
        if r['cats'] is not None and site['cat'] not in r['cats']:
            continue
        if r['callables'] is not None and site['callable'] not in r['callables']:
            continue
        if not r['need'] <= site['nb']:
            continue
        if r['forbid'] & site['nb']:
            continue
        if not r['facts'] <= facts:
            continue
        if r['nofacts'] & facts:
            continue
        return r['verdict'], r['expect'], r['prov'], i
    return UNDECIDED, [], '', -1


def provenance_summary():
    import re
    c = {'S': 0, 'D': 0, 'W': 0, 'R': 0, 'DESIGN': 0}
    for r in ROWS:
        for k in c:
            if re.search(r'(^|; )' + k + r'( |$|;)', r['prov']):
                c[k] += 1
    return c
