"""A small reader for docs/gir-1.2.rnc (RELAX NG compact), enough to check a GIR document
*structurally*: for every element which attributes are allowed / required and which child
elements are allowed.  Order, cardinality of children and datatypes are not checked.
No RELAX NG tool exists in the sandbox; this keeps hand-written fixtures and generated
documents honest against the schema the repository ships.

    schema = rnclite.load()                 # from runner.REPO/docs/gir-1.2.rnc
    problems = rnclite.check(schema, path_or_xml_text)   # [] when clean
"""
import os
import re
import xml.etree.ElementTree as ET

from . import runner

_TOKEN = re.compile(r'\s*(?:(#[^\n]*)|("[^"]*")|([A-Za-z_][\w.:\-]*)|([=|&,?*+(){}]))')
_DATATYPES = ('text', 'empty', 'xsd:string', 'xsd:integer')


def _tokens(text):
    pos, out = 0, []
    while True:
        m = _TOKEN.match(text, pos)
        if not m:
            if text[pos:].strip():
                raise ValueError('rnclite: cannot tokenise at %r' % text[pos:pos + 40])
            return out
        pos = m.end()
        if m.group(1) is None:
            out.append(m.group(2) or m.group(3) or m.group(4))


class _Parser(object):
    """pattern := term ((','|'&'|'|') term)* ; term := primary ('?'|'*'|'+')?"""

    def __init__(self, toks):
        self.t, self.i = toks, 0

    def peek(self, k=0):
        return self.t[self.i + k] if self.i + k < len(self.t) else None

    def eat(self, tok=None):
        cur = self.peek()
        if tok is not None and cur != tok:
            raise ValueError('rnclite: expected %r, got %r (token %d)' % (tok, cur, self.i))
        self.i += 1
        return cur

    def grammar(self):
        ns, defs = {}, {}
        while self.peek() is not None:
            if self.peek() == 'default':
                self.eat()
            if self.peek() == 'namespace':
                self.eat()
                name = self.eat()
                self.eat('=')
                ns[name] = self.eat().strip('"')
            else:
                name = self.eat()
                self.eat('=')
                defs[name] = self.pattern()
        return ns, defs

    def pattern(self):
        items, choice = [self.term()], False
        while self.peek() in (',', '&', '|'):
            choice = (self.eat() == '|') or choice
            items.append(self.term())
        return ('choice' if choice else 'group', items)

    def term(self):
        p = self.primary()
        if self.peek() in ('?', '*', '+'):
            return ('opt' if self.eat() != '+' else 'group', [p])
        return p

    def primary(self):
        tok = self.eat()
        if tok in ('element', 'attribute'):
            name = self.eat()
            self.eat('{')
            body = self.pattern()
            self.eat('}')
            return (tok, name, body)
        if tok == '(':
            p = self.pattern()
            self.eat(')')
            return p
        if tok in _DATATYPES or tok.startswith('"'):
            return ('leaf', [])
        return ('ref', tok)


def load(path=None):
    """-> {'ns': {uri: prefix}, 'elements': {qname: {'attrs': {qname: required}, 'children': set}}}"""
    path = path or os.path.join(runner.REPO, 'docs', 'gir-1.2.rnc')
    with open(path) as f:
        ns, defs = _Parser(_tokens(f.read())).grammar()
    elements = {}

    def walk(node, attrs, children, optional, seen):
        kind = node[0]
        if kind == 'element':
            children.add(node[1])
            if node[1] not in elements or id(node) not in seen:
                seen.add(id(node))
                e = elements.setdefault(node[1], {'attrs': {}, 'children': set()})
                a, c = {}, set()
                walk(node[2], a, c, False, seen)
                for k, req in a.items():
                    e['attrs'][k] = req and e['attrs'].get(k, True)
                e['children'] |= c
        elif kind == 'attribute':
            attrs[node[1]] = (not optional) and attrs.get(node[1], True)
        elif kind == 'ref':
            if node[1] not in defs:
                raise ValueError('rnclite: undefined pattern %s' % node[1])
            walk(defs[node[1]], attrs, children, optional, seen)
        elif kind in ('group', 'opt', 'choice'):
            for sub in node[1]:
                walk(sub, attrs, children, optional or kind != 'group', seen)

    walk(defs['start'], {}, set(), False, set())
    uri2prefix = {uri: ('' if name == 'core' else name) for name, uri in ns.items()}
    uri2prefix['http://www.w3.org/XML/1998/namespace'] = 'xml'
    return {'ns': uri2prefix, 'elements': elements}


def _qname(tag, schema):
    if tag.startswith('{'):
        uri, local = tag[1:].split('}')
        prefix = schema['ns'].get(uri)
        if prefix is None:
            return '{%s}%s' % (uri, local)
        return prefix + ':' + local if prefix else local
    return tag


def check(schema, doc, limit=50):
    """Structural problems of a GIR document (file path or XML text) against the schema."""
    try:
        root = ET.parse(doc).getroot() if os.path.exists(doc) else ET.fromstring(doc)
    except ET.ParseError as e:
        return ['not well-formed: %s' % e]
    problems = []
    if _qname(root.tag, schema) != 'repository':
        problems.append('root element is <%s>' % _qname(root.tag, schema))

    def visit(el, path):
        name = _qname(el.tag, schema)
        here = '%s/%s%s' % (path, name, '[%s]' % el.get('name') if el.get('name') else '')
        spec = schema['elements'].get(name)
        if spec is None:
            problems.append('%s: element not in schema' % here)
            return
        present = set(_qname(a, schema) for a in el.attrib)
        for a in sorted(present - set(spec['attrs'])):
            problems.append('%s: attribute %s not allowed' % (here, a))
        for a, required in sorted(spec['attrs'].items()):
            if required and a not in present:
                problems.append('%s: required attribute %s missing' % (here, a))
        for child in el:
            cname = _qname(child.tag, schema)
            if cname not in spec['children']:
                problems.append('%s: child <%s> not allowed' % (here, cname))
            else:
                visit(child, here)

    visit(root, '')
    return problems[:limit]
