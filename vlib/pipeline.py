"""Substrate P, part 3: drive the repository's scanner pipeline from a JSON-able case.

case := {
  'ns': {'name', 'version', 'id_prefixes': [..]|None, 'sym_prefixes': [..]|None, 'accept_unprefixed': bool},
  'includes': ['GObject-2.0', ...],
  'decls': [cmodel Decl...],
  'comments': [[text, filename, line], ...],
  'dump': '<dump xml>' | None,            # None = --header-only
  'c_includes': [...], 'packages': [...], 'shared_libraries': [...],
  'identifier_filter_cmd': [argv...], 'symbol_filter_cmd': [argv...], 'doc_format': str,   # optional
}
Everything after the C front end is the code under test, imported from REPO.
"""
import builtins
import io
import os
import shutil
import sys

from vlib import stubscanner, cmodel
from vlib.runner import VERIF, REPO, HarnessError

FIXTURES = os.path.join(VERIF, 'fixtures')

_DUMP_SH = 'a=${1#--introspect-dump=}; cp "${a%%,*}" "$0.functions" && cp "$0" "${a#*,}"'


class _InprocDump(object):
    """Stands in for the `subprocess` module inside giscanner.gdumpparser: does in-process exactly what the
    shell "introspection binary" below does (keep functions.txt, copy the prepared dump to the output path).
    Spawning /bin/sh costs up to ~200 ms per case on this VM. VERIF_SPAWN=1 (or run(spawn=True)) uses the real
    subprocess; C12 does so for part of its cases."""
    import subprocess as _sp
    CalledProcessError = _sp.CalledProcessError

    @staticmethod
    def check_call(args, stdout=None, stderr=None):
        spec = args[-1]
        if not spec.startswith('--introspect-dump=') or args[0] != '/bin/sh':
            raise AssertionError('unexpected dump command %r' % (args,))
        inp, outp = spec[len('--introspect-dump='):].split(',', 1)
        shutil.copyfile(inp, args[-2] + '.functions')
        shutil.copyfile(args[-2], outp)
        return 0


class Diag(object):
    __slots__ = ('level', 'text', 'positions', 'prefix', 'marker_pos', 'marker_line')

    def __init__(self, level, text, positions, prefix, marker_pos, marker_line):
        self.level = level
        self.text = str(text)
        self.positions = positions
        self.prefix = prefix
        self.marker_pos = marker_pos
        self.marker_line = marker_line

    def where(self):
        return sorted((p.filename, p.line) for p in self.positions)

    def as_json(self):
        return {'level': ['warning', 'error', 'fatal'][self.level], 'text': self.text,
                'at': [[f, l] for f, l in self.where()], 'prefix': self.prefix}

    def __repr__(self):
        return 'Diag(%s %r at %r)' % (['W', 'E', 'F'][self.level], self.text, self.where())


def _modules():
    stubscanner.install()
    if not hasattr(builtins, 'GIR_DIR'):
        builtins.__dict__['GIR_DIR'] = '/nonexistent/verif/gir-1.0'
        builtins.__dict__['DATADIR'] = '/nonexistent/verif/share'
    from giscanner import message, ast, utils
    from giscanner.transformer import Transformer
    from giscanner.maintransformer import MainTransformer
    from giscanner.introspectablepass import IntrospectablePass
    from giscanner.girwriter import GIRWriter
    from giscanner.annotationparser import GtkDocCommentBlockParser
    from giscanner.gdumpparser import GDumpParser, IntrospectionBinary
    return locals()


_M = None


def M():
    global _M
    if _M is None:
        _M = _modules()
    return _M


def make_logger(namespace, sink):
    message = M()['message']

    class CapturingLogger(message.MessageLogger):
        def log(self, log_type, text, positions=None, prefix=None, marker_pos=None, marker_line=None):
            pos = positions
            if isinstance(pos, set):
                pos = list(pos)
            elif isinstance(pos, message.Position):
                pos = [pos]
            sink.append(Diag(log_type, text, list(pos or []), prefix, marker_pos, marker_line))
            return message.MessageLogger.log(self, log_type, text, positions, prefix, marker_pos, marker_line)

    return CapturingLogger(namespace=namespace, output=io.StringIO())


class Result(object):
    def __init__(self):
        self.gir = None          # bytes
        self.diags = []
        self.fatal = None        # text of SystemExit from message.fatal / sys.exit
        self.namespace = None
        self.transformer = None
        self.blocks = None
        self.functions_txt = None
        self.stage = 'init'

    def warnings(self):
        return [d for d in self.diags if d.level == 0]


def _include_dirs(case, scratch):
    """Include search path of a case: the fixture directory plus case['include_paths']; case['shadow_includes'] adds
    directories holding an OLDER COPY of FooBar-1.0.gir (one definition fewer) before or after it, as happens with an
    uninstalled build tree next to an installed copy - the first directory on the list must win."""
    before, after = [], []
    for i, sh in enumerate(case.get('shadow_includes') or []):
        d = os.path.join(scratch, 'shadow-include-%d' % i)
        os.makedirs(d, exist_ok=True)
        src = open(os.path.join(FIXTURES, 'FooBar-1.0.gir')).read()
        if sh.get('drop') == 'Thing':
            a, b = src.index('    <record name="Thing"'), src.index('</record>') + len('</record>\n')
            src = src[:a] + src[b:]
        elif sh.get('drop') == 'Id':
            src = src.replace('<type name="guint32" c:type="guint32"/></alias>', '<type name="guint64" c:type="guint64"/></alias>', 1)
        with open(os.path.join(d, 'FooBar-1.0.gir'), 'w') as f:
            f.write(src)
        (before if sh.get('pos') == 'before' else after).append(d)
    return before + [FIXTURES] + list(case.get('include_paths', [])) + after


def run(case, scratch, cache=False, writer=True, passes=('main', 'introspectable'), warn_all=True,
        sources_roots=('/src',), spawn=None):
    """Run the pipeline. Exceptions other than SystemExit propagate (the caller decides
    whether a traceback is a violation)."""
    m = M()
    message, ast, utils = m['message'], m['ast'], m['utils']
    res = Result()
    # the Transformer constructor creates a CacheStore (and its directory) even when the cache is
    # disabled afterwards: keep that inside the scratch directory
    if not cache or 'XDG_CACHE_HOME' not in os.environ:
        os.environ['XDG_CACHE_HOME'] = os.path.join(scratch, 'xdg-cache')
    # reset module-level state of the code under test
    message.MessageLogger._instance = None
    utils._debugflags = None
    nsd = case['ns']
    namespace = ast.Namespace(nsd['name'], nsd.get('version', '1.0'),
                              identifier_prefixes=nsd.get('id_prefixes') or None,
                              symbol_prefixes=nsd.get('sym_prefixes') or None)
    logger = make_logger(namespace, res.diags)
    message.MessageLogger._instance = logger
    logger.enable_warnings(bool(warn_all))
    res.namespace = namespace
    try:
        try:
            tr = m['Transformer'](namespace, accept_unprefixed=bool(nsd.get('accept_unprefixed')),
                                  identifier_filter_cmd=case.get('identifier_filter_cmd') or None,
                                  symbol_filter_cmd=case.get('symbol_filter_cmd') or None)
            res.transformer = tr
            tr.set_include_paths(_include_dirs(case, scratch))
            if not cache:
                tr.disable_cache()
            res.stage = 'includes'
            for inc in case.get('includes', []):
                tr.register_include(ast.Include.from_string(inc))
            res.stage = 'comments'
            comments = [(c[0], c[1], c[2]) for c in case.get('comments', [])]
            blocks = m['GtkDocCommentBlockParser']().parse_comment_blocks(comments)
            res.blocks = blocks
            res.stage = 'parse'
            syms = cmodel.wrap_symbols(cmodel.to_symbols(case['decls']))
            tr.parse(syms)
            if case.get('dump') is not None:
                res.stage = 'dump'
                import subprocess as _real_subprocess
                gdp = sys.modules['giscanner.gdumpparser']
                if spawn is None:
                    spawn = bool(os.environ.get('VERIF_SPAWN'))
                if spawn is not False and spawn is not True:
                    spawn = bool(spawn)
                if getattr(gdp, '_verif_keep_subprocess', False):
                    pass            # the caller (C12) manages gdumpparser.subprocess itself
                else:
                    gdp.subprocess = _real_subprocess if spawn else _InprocDump
                gd = m['GDumpParser'](tr)
                gd.init_parse()
                os.makedirs(scratch, exist_ok=True)
                tmpdir = os.path.join(scratch, 'introspect')
                shutil.rmtree(tmpdir, ignore_errors=True)
                os.makedirs(tmpdir)
                xml_path = os.path.join(scratch, 'dump-in.xml')
                with open(xml_path, 'w', encoding='utf-8') as f:
                    f.write(case['dump'])
                binary = m['IntrospectionBinary'](['/bin/sh', '-c', _DUMP_SH, xml_path], tmpdir=tmpdir)
                gd.set_introspection_binary(binary)
                gd.parse()
                try:
                    with open(xml_path + '.functions') as f:
                        res.functions_txt = f.read()
                except IOError:
                    res.functions_txt = None
            namespace.shared_libraries = list(case.get('shared_libraries', []))
            if 'main' in passes:
                res.stage = 'main'
                m['MainTransformer'](tr, blocks).transform()
            if 'introspectable' in passes:
                res.stage = 'introspectable'
                m['IntrospectablePass'](tr, blocks).validate()
            namespace.c_includes = list(case.get('c_includes', []))
            namespace.exported_packages = list(case.get('packages', []))
            if case.get('doc_format'):
                namespace.doc_format = case['doc_format']
            if writer:
                res.stage = 'write'
                res.gir = m['GIRWriter'](namespace, list(sources_roots)).get_encoded_xml()
            res.stage = 'done'
        except SystemExit as e:
            res.fatal = str(e.code)
    finally:
        message.MessageLogger._instance = None
    return res


def parse_gir(path_or_bytes, scratch=None, types_only=False):
    """Parse a GIR with the repository's GIRParser; returns the parser."""
    M()
    from giscanner.girparser import GIRParser
    p = GIRParser(types_only=types_only)
    if isinstance(path_or_bytes, bytes):
        os.makedirs(scratch, exist_ok=True)
        fn = os.path.join(scratch, 'in.gir')
        with open(fn, 'wb') as f:
            f.write(path_or_bytes)
        p.parse(fn)
    else:
        p.parse(path_or_bytes)
    return p
