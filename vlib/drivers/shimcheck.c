/* Self-test of substrate C: (1) the shim's struct layouts agree with what the system
 * GLib/GObject actually does at run time, (2) a driver links against the repository's
 * libgirepository objects.  Prints one JSON line; exit 0 iff everything agrees. */
#include <glib.h>
#include <glib-object.h>
#include <gmodule.h>
#include "girepository.h"
#include "config.h"

static int n_checks, n_failed;
static GString *failed;

#define CHECK(expr) G_STMT_START { n_checks++; if (!(expr)) { n_failed++; \
  g_string_append_printf (failed, "%s\"%s:%d %s\"", failed->len ? "," : "", "shimcheck.c", __LINE__, #expr); } } G_STMT_END

typedef struct { GObject parent; gint64 x; } TObj;
typedef struct { GObjectClass parent_class; gpointer pad[3]; } TObjClass;

int
main (void)
{
  GTypeQuery q;
  failed = g_string_new ("");

  /* GString / GError / lists / arrays */
  GString *s = g_string_new ("abc");
  CHECK (s->len == 3 && strcmp (s->str, "abc") == 0 && s->allocated_len >= 4);
  g_string_append_printf (s, "%d", 42);
  CHECK (s->len == 5 && s->str[4] == '2');
  g_string_free (s, TRUE);
  GError *e = g_error_new_literal (g_quark_from_static_string ("shimcheck-quark"), 7, "msg");
  CHECK (e->code == 7 && strcmp (e->message, "msg") == 0 && e->domain == g_quark_try_string ("shimcheck-quark"));
  g_error_free (e);
  GList *l = g_list_append (g_list_append (NULL, (gpointer) 1), (gpointer) 2);
  CHECK (l->data == (gpointer) 1 && l->next->data == (gpointer) 2 && l->next->prev == l && l->prev == NULL);
  g_list_free (l);
  GSList *sl = g_slist_prepend (g_slist_prepend (NULL, (gpointer) 1), (gpointer) 2);
  CHECK (sl->data == (gpointer) 2 && sl->next->data == (gpointer) 1 && sl->next->next == NULL);
  g_slist_free (sl);
  GPtrArray *pa = g_ptr_array_new ();
  g_ptr_array_add (pa, (gpointer) 5); g_ptr_array_add (pa, (gpointer) 6);
  CHECK (pa->len == 2 && g_ptr_array_index (pa, 1) == (gpointer) 6);
  g_ptr_array_free (pa, TRUE);
  GByteArray *ba = g_byte_array_new ();
  g_byte_array_append (ba, (const guint8 *) "xyz", 3);
  CHECK (ba->len == 3 && ba->data[2] == 'z');
  g_byte_array_free (ba, TRUE);

  /* GHashTableIter lives on the stack: ASan reports it if the shim's struct is too small */
  GHashTable *ht = g_hash_table_new (g_str_hash, g_str_equal);
  g_hash_table_insert (ht, "a", "1"); g_hash_table_insert (ht, "b", "2");
  { GHashTableIter it; gpointer k, v; int n = 0;
    g_hash_table_iter_init (&it, ht);
    while (g_hash_table_iter_next (&it, &k, &v)) n++;
    CHECK (n == 2); }
  g_hash_table_destroy (ht);
  CHECK (sizeof (GHashTableIter) == 40);
  CHECK (g_ascii_isdigit ('7') && !g_ascii_isdigit ('x') && g_ascii_isspace (' ') && g_ascii_isupper ('Q'));

  /* GType machinery */
  g_type_query (G_TYPE_OBJECT, &q);
  CHECK (q.class_size == sizeof (GObjectClass));
  CHECK (q.instance_size == sizeof (GObject));
  CHECK (strcmp (q.type_name, "GObject") == 0 && q.type == G_TYPE_OBJECT);
  g_type_query (G_TYPE_PARAM, &q);
  CHECK (q.instance_size == sizeof (GParamSpec));
  g_type_query (G_TYPE_ENUM, &q);
  CHECK (q.class_size == sizeof (GEnumClass));
  g_type_query (G_TYPE_FLAGS, &q);
  CHECK (q.class_size == sizeof (GFlagsClass));
  CHECK (sizeof (GValue) == 24 && sizeof (GClosure) == 32 && sizeof (GCClosure) == 40);
  CHECK (sizeof (GTypeInterface) == 16 && sizeof (GOptionEntry) == 48 && sizeof (GMarkupParser) == 40);

  GTypeInfo info = { sizeof (TObjClass), NULL, NULL, NULL, NULL, NULL, sizeof (TObj), 0, NULL, NULL };
  GType t = g_type_register_static (G_TYPE_OBJECT, "ShimCheckObj", &info, G_TYPE_FLAG_NONE);
  g_type_query (t, &q);
  CHECK (q.class_size == sizeof (TObjClass) && q.instance_size == sizeof (TObj));
  CHECK (g_type_from_name ("ShimCheckObj") == t && g_type_parent (t) == G_TYPE_OBJECT && g_type_is_a (t, G_TYPE_OBJECT));
  TObj *o = g_object_new (t, NULL);
  CHECK (G_TYPE_FROM_INSTANCE (o) == t && ((GObject *) o)->ref_count == 1);
  CHECK (G_OBJECT_CLASS (((GTypeInstance *) o)->g_class)->g_type_class.g_type == t);
  g_object_ref (o);
  CHECK (((GObject *) o)->ref_count == 2);
  g_object_unref (o); g_object_unref (o);

  static const GEnumValue ev[] = { { 3, "SHIM_A", "a" }, { 9, "SHIM_B", "b" }, { 0, NULL, NULL } };
  GType et = g_enum_register_static ("ShimCheckEnum", ev);
  GEnumClass *ec = g_type_class_ref (et);
  CHECK (ec->n_values == 2 && ec->minimum == 3 && ec->maximum == 9 && strcmp (ec->values[1].value_name, "SHIM_B") == 0);
  g_type_class_unref (ec);
  static const GFlagsValue fv[] = { { 1, "SHIM_F1", "f1" }, { 4, "SHIM_F4", "f4" }, { 0, NULL, NULL } };
  GFlagsClass *fc = g_type_class_ref (g_flags_register_static ("ShimCheckFlags", fv));
  CHECK (fc->n_values == 2 && fc->mask == 5 && fc->values[1].value == 4);
  g_type_class_unref (fc);

  GValue v = G_VALUE_INIT;
  g_value_init (&v, G_TYPE_INT64);
  g_value_set_int64 (&v, G_GINT64_CONSTANT (0x1122334455667788));
  CHECK (G_VALUE_TYPE (&v) == G_TYPE_INT64 && v.data[0].v_int64 == G_GINT64_CONSTANT (0x1122334455667788));
  g_value_unset (&v);

  GParamSpec *ps = g_param_spec_ref_sink (g_param_spec_boolean ("shim-prop", "nick", "blurb", TRUE, G_PARAM_READWRITE | G_PARAM_CONSTRUCT));
  CHECK (strcmp (ps->name, "shim-prop") == 0 && ps->value_type == G_TYPE_BOOLEAN);
  CHECK ((ps->flags & (G_PARAM_READWRITE | G_PARAM_CONSTRUCT)) == (G_PARAM_READWRITE | G_PARAM_CONSTRUCT));
  CHECK (ps->ref_count == 1 && g_value_get_boolean (g_param_spec_get_default_value (ps)) == TRUE);
  g_param_spec_unref (ps);

  g_type_class_unref (g_type_class_ref (G_TYPE_OBJECT));
  guint n_ids = 0, *ids = g_signal_list_ids (G_TYPE_OBJECT, &n_ids);
  CHECK (n_ids == 1);
  if (n_ids == 1)
    {
      GSignalQuery sq;
      g_signal_query (ids[0], &sq);
      CHECK (strcmp (sq.signal_name, "notify") == 0 && sq.itype == G_TYPE_OBJECT && sq.return_type == G_TYPE_NONE);
      CHECK (sq.n_params == 1 && sq.param_types[0] == G_TYPE_PARAM && (sq.signal_flags & G_SIGNAL_DETAILED));
    }
  g_free (ids);

  /* the repository's own code, linked statically */
  CHECK (gi_get_major_version () == GI_MAJOR_VERSION && gi_get_minor_version () == GI_MINOR_VERSION);
  GIRepository *repo = g_irepository_get_default ();
  CHECK (repo != NULL && !g_irepository_is_registered (repo, "GLib", NULL));
  GSList *sp = g_irepository_get_search_path ();
  CHECK (sp != NULL && strcmp ((const char *) sp->data, GOBJECT_INTROSPECTION_LIBDIR "/girepository-1.0") == 0 && sp->next == NULL);
  CHECK (g_module_supported ());

  g_print ("{\"ok\": %s, \"checks\": %d, \"failed\": [%s]}\n", n_failed ? "false" : "true", n_checks, failed->str);
  return n_failed ? 1 : 0;
}
