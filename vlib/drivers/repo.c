/* C17 driver: the repository loader behind a line protocol.
 *
 * One command per input line, tokens separated by single spaces; the token "-" stands for
 * NULL and "@" for the empty string.  One JSON object per command on stdout (flushed, so the
 * driver can be used interactively through pipes).  One fresh process per history: the search
 * path and the default repository are process-global.
 *
 *   prepend <dir>
 *   searchpath
 *   require <ns> <version|-> <lazy 0|1>
 *   require_private <dir> <ns> <version|-> <lazy 0|1>
 *   load <file> <lazy 0|1> <mem|map>       g_typelib_new_from_memory / _from_mapped_file + g_irepository_load_typelib
 *   loaded | version <ns> | path <ns> | immediate <ns> | deps <ns> | versions <ns> | registered <ns> <version|->
 *
 * version/immediate/deps document "namespace must have been loaded" as a precondition; the driver
 * asks g_irepository_is_registered() first and answers {"unloaded":true} instead of violating it.
 */
#include <stdio.h>
#include <string.h>
#include <stdlib.h>
#include <glib.h>
#include "girepository.h"

static void
jstr (GString *o, const char *s)
{
  const unsigned char *p;
  if (s == NULL)
    {
      g_string_append (o, "null");
      return;
    }
  g_string_append_c (o, '"');
  for (p = (const unsigned char *) s; *p; p++)
    {
      if (*p == '"' || *p == '\\')
        g_string_append_printf (o, "\\%c", *p);
      else if (*p < 0x20 || *p >= 0x7f)
        g_string_append_printf (o, "\\u%04x", *p);
      else
        g_string_append_c (o, (char) *p);
    }
  g_string_append_c (o, '"');
}

static void
jstrv (GString *o, char **v)
{
  int i;
  if (v == NULL)
    {
      g_string_append (o, "null");
      return;
    }
  g_string_append_c (o, '[');
  for (i = 0; v[i]; i++)
    {
      if (i)
        g_string_append_c (o, ',');
      jstr (o, v[i]);
    }
  g_string_append_c (o, ']');
}

static const char *
tok (const char *t)
{
  if (t == NULL || strcmp (t, "-") == 0)
    return NULL;
  if (strcmp (t, "@") == 0)
    return "";
  return t;
}

static void
jerror (GString *o, GError *err)
{
  const char *cls = "other";
  g_string_append (o, "{\"ok\":false");
  if (err == NULL)
    {
      g_string_append (o, ",\"class\":\"no-error-set\"}");
      return;
    }
  if (err->domain == G_IREPOSITORY_ERROR)
    switch (err->code)
      {
      case G_IREPOSITORY_ERROR_TYPELIB_NOT_FOUND: cls = "not-found"; break;
      case G_IREPOSITORY_ERROR_NAMESPACE_MISMATCH: cls = "mismatch"; break;
      case G_IREPOSITORY_ERROR_NAMESPACE_VERSION_CONFLICT: cls = "conflict"; break;
      case G_IREPOSITORY_ERROR_LIBRARY_NOT_FOUND: cls = "library"; break;
      default: break;
      }
  g_string_append_printf (o, ",\"class\":\"%s\",\"domain\":", cls);
  jstr (o, g_quark_to_string (err->domain));
  g_string_append_printf (o, ",\"code\":%d,\"message\":", err->code);
  jstr (o, err->message);
  g_string_append_c (o, '}');
}

static void
jloaded_entry (GString *o, const char *ns)
{
  g_string_append (o, ",\"path\":");
  jstr (o, g_irepository_get_typelib_path (NULL, ns));
  g_string_append (o, ",\"version\":");
  jstr (o, g_irepository_is_registered (NULL, ns, NULL) ? g_irepository_get_version (NULL, ns) : NULL);
}

int
main (void)
{
  char line[8192];
  GString *o = g_string_new ("");

  /* what every client does first; also initialises the process-global search path */
  g_irepository_get_default ();

  while (fgets (line, sizeof line, stdin))
    {
      char **t;
      int n;
      size_t len = strlen (line);
      while (len && (line[len - 1] == '\n' || line[len - 1] == '\r'))
        line[--len] = 0;
      if (!len)
        continue;
      t = g_strsplit (line, " ", 0);
      for (n = 0; t[n]; n++)
        ;
      g_string_truncate (o, 0);

      if (strcmp (t[0], "prepend") == 0 && n == 2)
        {
          g_irepository_prepend_search_path (tok (t[1]));
          g_string_append (o, "{\"ok\":true}");
        }
      else if (strcmp (t[0], "searchpath") == 0 && n == 1)
        {
          GSList *l;
          g_string_append (o, "{\"list\":[");
          for (l = g_irepository_get_search_path (); l; l = l->next)
            {
              jstr (o, (const char *) l->data);
              if (l->next)
                g_string_append_c (o, ',');
            }
          g_string_append (o, "]}");
        }
      else if ((strcmp (t[0], "require") == 0 && n == 4) || (strcmp (t[0], "require_private") == 0 && n == 5))
        {
          gboolean priv = n == 5;
          const char *ns = tok (t[priv ? 2 : 1]);
          const char *ver = tok (t[priv ? 3 : 2]);
          GIRepositoryLoadFlags flags = atoi (t[priv ? 4 : 3]) ? G_IREPOSITORY_LOAD_FLAG_LAZY : 0;
          GError *err = NULL;
          GITypelib *tl;
          if (priv)
            tl = g_irepository_require_private (NULL, tok (t[1]), ns, ver, flags, &err);
          else
            tl = g_irepository_require (NULL, ns, ver, flags, &err);
          if (tl != NULL)
            {
              g_string_append (o, "{\"ok\":true,\"error_also_set\":");
              g_string_append (o, err ? "true" : "false");
              g_string_append (o, ",\"tl_ns\":");
              jstr (o, g_typelib_get_namespace (tl));
              jloaded_entry (o, ns);
              g_string_append_c (o, '}');
            }
          else
            jerror (o, err);
          g_clear_error (&err);
        }
      else if (strcmp (t[0], "load") == 0 && n == 4)
        {
          GError *err = NULL;
          GITypelib *tl = NULL;
          GIRepositoryLoadFlags flags = atoi (t[2]) ? G_IREPOSITORY_LOAD_FLAG_LAZY : 0;
          if (strcmp (t[3], "map") == 0)
            {
              GMappedFile *mf = g_mapped_file_new (t[1], FALSE, &err);
              if (mf != NULL)
                tl = g_typelib_new_from_mapped_file (mf, &err);
            }
          else
            {
              gchar *data = NULL;
              gsize dlen = 0;
              if (g_file_get_contents (t[1], &data, &dlen, &err))
                {
                  tl = g_typelib_new_from_memory ((guint8 *) data, dlen, &err);
                  if (tl == NULL)
                    g_free (data);
                }
            }
          if (tl == NULL)
            {
              g_string_append (o, "{\"ok\":false,\"class\":\"invalid-typelib\",\"message\":");
              jstr (o, err ? err->message : NULL);
              g_string_append_c (o, '}');
            }
          else
            {
              char *content_ns = g_strdup (g_typelib_get_namespace (tl));
              const char *ns = g_irepository_load_typelib (NULL, tl, flags, &err);
              if (ns != NULL)
                {
                  g_string_append (o, "{\"ok\":true,\"error_also_set\":");
                  g_string_append (o, err ? "true" : "false");
                  g_string_append (o, ",\"ns\":");
                  jstr (o, ns);
                  jloaded_entry (o, content_ns);
                  g_string_append_c (o, '}');
                }
              else
                {
                  jerror (o, err);
                  g_typelib_free (tl);      /* not registered: still ours */
                }
              g_free (content_ns);
            }
          g_clear_error (&err);
        }
      else if (strcmp (t[0], "loaded") == 0 && n == 1)
        {
          char **v = g_irepository_get_loaded_namespaces (NULL);
          g_string_append (o, "{\"list\":");
          jstrv (o, v);
          g_string_append_c (o, '}');
          g_strfreev (v);
        }
      else if (strcmp (t[0], "path") == 0 && n == 2)
        {
          g_string_append (o, "{\"value\":");
          jstr (o, g_irepository_get_typelib_path (NULL, tok (t[1])));
          g_string_append_c (o, '}');
        }
      else if ((strcmp (t[0], "version") == 0 || strcmp (t[0], "immediate") == 0 || strcmp (t[0], "deps") == 0) && n == 2)
        {
          const char *ns = tok (t[1]);
          if (!g_irepository_is_registered (NULL, ns, NULL))
            g_string_append (o, "{\"unloaded\":true}");
          else if (t[0][0] == 'v')
            {
              g_string_append (o, "{\"value\":");
              jstr (o, g_irepository_get_version (NULL, ns));
              g_string_append_c (o, '}');
            }
          else
            {
              char **v = t[0][0] == 'i' ? g_irepository_get_immediate_dependencies (NULL, ns)
                                        : g_irepository_get_dependencies (NULL, ns);
              g_string_append (o, "{\"list\":");
              jstrv (o, v);
              g_string_append_c (o, '}');
              g_strfreev (v);
            }
        }
      else if (strcmp (t[0], "versions") == 0 && n == 2)
        {
          GList *l, *v = g_irepository_enumerate_versions (NULL, tok (t[1]));
          g_string_append (o, "{\"list\":[");
          for (l = v; l; l = l->next)
            {
              jstr (o, (const char *) l->data);
              if (l->next)
                g_string_append_c (o, ',');
            }
          g_string_append (o, "]}");
          g_list_free_full (v, g_free);
        }
      else if (strcmp (t[0], "registered") == 0 && n == 3)
        {
          g_string_append_printf (o, "{\"value\":%s}",
                                  g_irepository_is_registered (NULL, tok (t[1]), tok (t[2])) ? "true" : "false");
        }
      else
        {
          g_string_append (o, "{\"error\":\"unknown command\",\"line\":");
          jstr (o, line);
          g_string_append_c (o, '}');
        }
      g_strfreev (t);
      fputs (o->str, stdout);
      fputc ('\n', stdout);
      fflush (stdout);
    }
  return 0;
}
