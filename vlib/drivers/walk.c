/* C09 driver: walk one namespace through the PUBLIC g_*_info_* API and print what it reports.
 *
 * Line-oriented script on stdin, one JSON line per command on stdout (strings are JSON-escaped
 * UTF-8; script arguments are hex-encoded, "-" is the empty string):
 *
 *   load <path>           read the file into an exact-size heap block (ASan sees every read past the
 *                         end), g_typelib_new_from_memory, g_irepository_load_typelib (default
 *                         repository, flags 0).  The script loads dependencies first, so no search
 *                         path is consulted (the configured one does not exist).
 *   keys <hex> ...        attribute keys asked BY NAME on every node (g_base_info_get_attribute,
 *                         g_callable_info_get_return_attribute): reported as "ga" / "ret_ga" arrays in
 *                         this order
 *   names <hex> ...       extra probe names for find_method/find_signal/find_vfunc/find_field and
 *                         g_irepository_find_by_name (on top of every name the container really has)
 *   walk <ns>             g_irepository_get_n_infos / get_info for every index, then every count and
 *                         i-th accessor of every info
 *
 * Only girepository.h is used: nothing here reads a blob.  g_registered_type_info_get_g_type,
 * the *_function_pointer getters and the invoke functions are not called (they would dlopen).
 * GLib diagnostics raised by the library are collected in the command's "log" array.
 */
#include <stdio.h>
#include <stdlib.h>
#include <string.h>
#include <glib.h>
#include <glib-object.h>
#include "girepository.h"

#define MAX_STR 64
#define MAX_DEPTH 512
#define MAX_TYPE_DEPTH 40

static GString *out;
static GString *logbuf;
static int first_[MAX_DEPTH];
static int depth;
static char *keys[MAX_STR];
static int n_keys;
static char *probes[MAX_STR];
static int n_probes;

typedef GIBaseInfo *(*GetNth) (GIBaseInfo *info, gint n);
typedef GIBaseInfo *(*FindFn) (GIBaseInfo *info, const gchar *name);

/* ---------------------------------------------------------------- JSON output */
static void
put_jstr (GString *s, const char *str)
{
  const unsigned char *p;
  if (str == NULL)
    {
      g_string_append (s, "null");
      return;
    }
  g_string_append_c (s, '"');
  for (p = (const unsigned char *) str; *p; p++)
    {
      if (*p == '"' || *p == '\\')
        {
          g_string_append_c (s, '\\');
          g_string_append_c (s, (char) *p);
        }
      else if (*p < 0x20 || *p == 0x7f)
        g_string_append_printf (s, "\\u%04x", *p);
      else
        g_string_append_c (s, (char) *p);
    }
  g_string_append_c (s, '"');
}

static void
sep (void)
{
  if (!first_[depth])
    g_string_append_c (out, ',');
  first_[depth] = 0;
}

static void
open_ (char c)
{
  sep ();
  g_string_append_c (out, c);
  if (depth + 1 >= MAX_DEPTH)
    {
      fprintf (stderr, "walk: output nesting too deep\n");
      exit (3);
    }
  first_[++depth] = 1;
}

static void
close_ (char c)
{
  g_string_append_c (out, c);
  depth--;
}

static void
key (const char *name)
{
  sep ();
  g_string_append_printf (out, "\"%s\":", name);
  first_[depth] = 1;            /* the value that follows needs no comma */
}

static void
v_str (const char *s)
{
  sep ();
  put_jstr (out, s);
}

static void
v_int (gint64 v)
{
  sep ();
  g_string_append_printf (out, "%" G_GINT64_FORMAT, v);
}

static void
v_uint (guint64 v)
{
  sep ();
  g_string_append_printf (out, "%" G_GUINT64_FORMAT, v);
}

static void
v_bool (gboolean b)
{
  sep ();
  /* anything but 0/1 from a gboolean accessor is reported as the number */
  if (b == 0 || b == 1)
    g_string_append (out, b ? "true" : "false");
  else
    g_string_append_printf (out, "%d", b);
}

static void
v_null (void)
{
  sep ();
  g_string_append (out, "null");
}

#define K_STR(k, v) do { key (k); v_str (v); } while (0)
#define K_INT(k, v) do { key (k); v_int (v); } while (0)
#define K_BOOL(k, v) do { key (k); v_bool (v); } while (0)

static void
log_collect (const gchar *domain, GLogLevelFlags level, const gchar *message, gpointer data)
{
  if (logbuf->len)
    g_string_append_c (logbuf, ',');
  put_jstr (logbuf, message ? message : "(null)");
  if (level & G_LOG_FLAG_FATAL)
    {
      fprintf (stderr, "fatal GLib message: %s\n", message ? message : "(null)");
      fflush (stderr);
    }
}

static int
hexval (int c)
{
  if (c >= '0' && c <= '9') return c - '0';
  if (c >= 'a' && c <= 'f') return c - 'a' + 10;
  if (c >= 'A' && c <= 'F') return c - 'A' + 10;
  return -1;
}

static char *
unhex (const char *h)
{
  size_t n = strlen (h), i;
  char *res;
  if (n == 1 && h[0] == '-')
    n = 0;
  if (n % 2)
    return NULL;
  res = g_malloc (n / 2 + 1);
  for (i = 0; i < n / 2; i++)
    {
      int a = hexval (h[2 * i]), b = hexval (h[2 * i + 1]);
      if (a < 0 || b < 0 || (a == 0 && b == 0))
        {
          g_free (res);
          return NULL;
        }
      res[i] = (char) (a * 16 + b);
    }
  res[n / 2] = 0;
  return res;
}

/* ---------------------------------------------------------------- dumps */
static void dump_callable (GICallableInfo *info);
static void dump_type (GITypeInfo *t, int level);

/* name, info type, deprecated, attributes by iteration and by name */
static void
dump_base (GIBaseInfo *info)
{
  GIAttributeIter iter = { 0, };
  char *name, *value;
  int i, guard = 0;

  K_STR ("name", g_base_info_get_name (info));
  K_INT ("type", g_base_info_get_type (info));
  K_BOOL ("dep", g_base_info_is_deprecated (info));
  key ("attrs");
  open_ ('[');
  while (g_base_info_iterate_attributes (info, &iter, &name, &value) && guard++ < 100000)
    {
      open_ ('[');
      v_str (name);
      v_str (value);
      close_ (']');
    }
  close_ (']');
  key ("ga");
  open_ ('[');
  for (i = 0; i < n_keys; i++)
    v_str (g_base_info_get_attribute (info, keys[i]));
  close_ (']');
}

/* a reference to another directory entry (possibly of another namespace, possibly unresolved) */
static void
dump_ref (GIBaseInfo *info)
{
  if (info == NULL)
    {
      v_null ();
      return;
    }
  open_ ('{');
  K_INT ("type", g_base_info_get_type (info));
  K_STR ("name", g_base_info_get_name (info));
  K_STR ("ns", g_base_info_get_namespace (info));
  close_ ('}');
  g_base_info_unref (info);
}

static void
dump_named (GIBaseInfo *info)      /* name of a sibling returned by an accessor, or null */
{
  if (info == NULL)
    {
      v_null ();
      return;
    }
  v_str (g_base_info_get_name (info));
  g_base_info_unref (info);
}

static void
dump_callback (GICallbackInfo *info)
{
  open_ ('{');
  dump_base (info);
  dump_callable (info);
  close_ ('}');
}

static void
dump_type (GITypeInfo *t, int level)
{
  GITypeTag tag;
  if (t == NULL)
    {
      v_null ();
      return;
    }
  open_ ('{');
  tag = g_type_info_get_tag (t);
  K_INT ("tag", tag);
  K_BOOL ("ptr", g_type_info_is_pointer (t));
  K_INT ("len", g_type_info_get_array_length (t));
  K_INT ("fixed", g_type_info_get_array_fixed_size (t));
  K_BOOL ("zt", g_type_info_is_zero_terminated (t));
  if (level > MAX_TYPE_DEPTH)
    K_BOOL ("too_deep", TRUE);
  else if (tag == GI_TYPE_TAG_ARRAY)
    {
      GITypeInfo *e = g_type_info_get_param_type (t, 0);
      K_INT ("atype", g_type_info_get_array_type (t));
      key ("elem");
      dump_type (e, level + 1);
      if (e)
        g_base_info_unref (e);
    }
  else if (tag == GI_TYPE_TAG_INTERFACE)
    {
      key ("iface");
      dump_ref (g_type_info_get_interface (t));
    }
  else if (tag == GI_TYPE_TAG_GLIST || tag == GI_TYPE_TAG_GSLIST || tag == GI_TYPE_TAG_GHASH)
    {
      int i, n = tag == GI_TYPE_TAG_GHASH ? 2 : 1;
      key ("params");
      open_ ('[');
      for (i = 0; i < n; i++)
        {
          GITypeInfo *e = g_type_info_get_param_type (t, i);
          dump_type (e, level + 1);
          if (e)
            g_base_info_unref (e);
        }
      close_ (']');
    }
  close_ ('}');
}

static void
dump_arg (GICallableInfo *callable, int i)
{
  GIArgInfo *arg = g_callable_info_get_arg (callable, i);
  GIArgInfo stack_arg;
  GITypeInfo *t, stack_type;

  open_ ('{');
  dump_base (arg);
  K_INT ("dir", g_arg_info_get_direction (arg));
  K_INT ("transfer", g_arg_info_get_ownership_transfer (arg));
  K_BOOL ("nullable", g_arg_info_may_be_null (arg));
  K_BOOL ("optional", g_arg_info_is_optional (arg));
  K_BOOL ("caller_allocates", g_arg_info_is_caller_allocates (arg));
  K_BOOL ("skip", g_arg_info_is_skip (arg));
  K_BOOL ("retval", g_arg_info_is_return_value (arg));
  K_INT ("scope", g_arg_info_get_scope (arg));
  K_INT ("closure", g_arg_info_get_closure (arg));
  K_INT ("destroy", g_arg_info_get_destroy (arg));
  t = g_arg_info_get_type (arg);
  key ("t");
  dump_type (t, 0);
  /* the stack-allocated variants must designate the same blobs */
  g_callable_info_load_arg (callable, i, &stack_arg);
  g_arg_info_load_type (&stack_arg, &stack_type);
  K_BOOL ("load_same", g_base_info_equal (arg, &stack_arg) && g_base_info_equal (t, &stack_type)
          && g_type_info_get_tag (&stack_type) == g_type_info_get_tag (t));
  g_base_info_unref (t);
  g_base_info_unref (arg);
  close_ ('}');
}

static void
dump_callable (GICallableInfo *info)
{
  GIAttributeIter iter = { 0, };
  char *name, *value;
  GITypeInfo *t, stack_type;
  int i, n, guard = 0;

  n = g_callable_info_get_n_args (info);
  K_INT ("n_args", n);
  key ("args");
  open_ ('[');
  for (i = 0; i < n; i++)
    dump_arg (info, i);
  close_ (']');
  t = g_callable_info_get_return_type (info);
  key ("ret");
  dump_type (t, 0);
  g_callable_info_load_return_type (info, &stack_type);
  K_BOOL ("ret_load_same", g_base_info_equal (t, &stack_type)
          && g_type_info_get_tag (&stack_type) == g_type_info_get_tag (t));
  g_base_info_unref (t);
  K_INT ("caller_owns", g_callable_info_get_caller_owns (info));
  K_BOOL ("may_return_null", g_callable_info_may_return_null (info));
  K_BOOL ("skip_return", g_callable_info_skip_return (info));
  K_BOOL ("throws", g_callable_info_can_throw_gerror (info));
  K_BOOL ("is_method", g_callable_info_is_method (info));
  K_INT ("inst_transfer", g_callable_info_get_instance_ownership_transfer (info));
  key ("ret_attrs");
  open_ ('[');
  while (g_callable_info_iterate_return_attributes (info, &iter, &name, &value) && guard++ < 100000)
    {
      open_ ('[');
      v_str (name);
      v_str (value);
      close_ (']');
    }
  close_ (']');
  key ("ret_ga");
  open_ ('[');
  for (i = 0; i < n_keys; i++)
    v_str (g_callable_info_get_return_attribute (info, keys[i]));
  close_ (']');
}

static void
dump_function (GIFunctionInfo *info)
{
  GIFunctionInfoFlags flags = g_function_info_get_flags (info);
  GIBaseInfo *container = g_base_info_get_container (info);
  GIInfoType ct = container ? g_base_info_get_type (container) : GI_INFO_TYPE_INVALID;

  open_ ('{');
  dump_base (info);
  K_STR ("symbol", g_function_info_get_symbol (info));
  K_INT ("flags", flags);
  key ("prop");
  if ((flags & (GI_FUNCTION_IS_GETTER | GI_FUNCTION_IS_SETTER)) && container != NULL)
    dump_named (g_function_info_get_property (info));
  else
    v_null ();
  key ("vfunc");
  if ((flags & GI_FUNCTION_WRAPS_VFUNC) && (ct == GI_INFO_TYPE_INTERFACE || ct == GI_INFO_TYPE_OBJECT))
    dump_named (g_function_info_get_vfunc (info));
  else
    v_null ();
  dump_callable (info);
  close_ ('}');
}

static void
dump_constant_body (GIConstantInfo *info)
{
  GITypeInfo *t = g_constant_info_get_type (info);
  GITypeTag tag = g_type_info_get_tag (t);
  gboolean ptr = g_type_info_is_pointer (t);
  GIArgument v;
  gint size;

  key ("t");
  dump_type (t, 0);
  memset (&v, 0, sizeof v);
  if (ptr || (tag >= GI_TYPE_TAG_BOOLEAN && tag <= GI_TYPE_TAG_DOUBLE))
    {
      size = g_constant_info_get_value (info, &v);
      K_INT ("size", size);
      key ("value");
      if (ptr)
        {
          if (tag == GI_TYPE_TAG_UTF8 || tag == GI_TYPE_TAG_FILENAME)
            {
              /* `size` bytes were copied; print them as a string only when they end in NUL */
              if (size > 0 && v.v_pointer != NULL && ((char *) v.v_pointer)[size - 1] == 0)
                v_str ((char *) v.v_pointer);
              else
                v_str ("<value not NUL-terminated>");
            }
          else
            v_str ("<pointer constant>");
          g_constant_info_free_value (info, &v);
        }
      else
        switch (tag)
          {
          case GI_TYPE_TAG_BOOLEAN: v_int (v.v_boolean); break;
          case GI_TYPE_TAG_INT8: v_int (v.v_int8); break;
          case GI_TYPE_TAG_UINT8: v_int (v.v_uint8); break;
          case GI_TYPE_TAG_INT16: v_int (v.v_int16); break;
          case GI_TYPE_TAG_UINT16: v_int (v.v_uint16); break;
          case GI_TYPE_TAG_INT32: v_int (v.v_int32); break;
          case GI_TYPE_TAG_UINT32: v_int (v.v_uint32); break;
          case GI_TYPE_TAG_INT64: v_int (v.v_int64); break;
          case GI_TYPE_TAG_UINT64: v_uint (v.v_uint64); break;
          case GI_TYPE_TAG_FLOAT:
            {
              char buf[64];
              g_snprintf (buf, sizeof buf, "%.17g", (double) v.v_float);
              v_str (buf);
            }
            break;
          case GI_TYPE_TAG_DOUBLE:
            {
              char buf[64];
              g_snprintf (buf, sizeof buf, "%.17g", v.v_double);
              v_str (buf);
            }
            break;
          default: v_null (); break;
          }
    }
  else
    {
      /* g_constant_info_get_value has no case for this tag (it would assert) */
      K_INT ("size", -1);
      key ("value");
      v_str ("<unsupported tag>");
    }
  g_base_info_unref (t);
}

static void
dump_constant (GIConstantInfo *info)
{
  open_ ('{');
  dump_base (info);
  dump_constant_body (info);
  close_ ('}');
}

static void
dump_field (GIFieldInfo *info)
{
  GITypeInfo *t = g_field_info_get_type (info);
  GIBaseInfo *iface;

  open_ ('{');
  dump_base (info);
  K_INT ("flags", g_field_info_get_flags (info));
  K_INT ("bits", g_field_info_get_size (info));
  K_INT ("offset", g_field_info_get_offset (info));
  /* an anonymous callback embedded after the FieldBlob is what g_type_info_get_interface returns
   * with the type info itself as container; a named callback type has no container */
  iface = g_type_info_get_tag (t) == GI_TYPE_TAG_INTERFACE ? g_type_info_get_interface (t) : NULL;
  if (iface != NULL && g_base_info_get_type (iface) == GI_INFO_TYPE_CALLBACK
      && g_base_info_get_container (iface) == (GIBaseInfo *) t)
    {
      key ("t");
      v_null ();
      key ("embedded");
      dump_callback (iface);
    }
  else
    {
      key ("t");
      dump_type (t, 0);
      key ("embedded");
      v_null ();
    }
  if (iface)
    g_base_info_unref (iface);
  g_base_info_unref (t);
  close_ ('}');
}

static void
dump_property (GIPropertyInfo *info)
{
  GITypeInfo *t = g_property_info_get_type (info);
  open_ ('{');
  dump_base (info);
  K_INT ("flags", g_property_info_get_flags (info));
  K_INT ("transfer", g_property_info_get_ownership_transfer (info));
  key ("t");
  dump_type (t, 0);
  g_base_info_unref (t);
  key ("setter");
  dump_named (g_property_info_get_setter (info));
  key ("getter");
  dump_named (g_property_info_get_getter (info));
  close_ ('}');
}

static void
dump_signal (GISignalInfo *info)
{
  open_ ('{');
  dump_base (info);
  K_INT ("flags", g_signal_info_get_flags (info));
  key ("class_closure");
  dump_named (g_signal_info_get_class_closure (info));
  K_BOOL ("true_stops_emit", g_signal_info_true_stops_emit (info));
  dump_callable (info);
  close_ ('}');
}

static void
dump_vfunc (GIVFuncInfo *info)
{
  open_ ('{');
  dump_base (info);
  K_INT ("flags", g_vfunc_info_get_flags (info));
  K_INT ("offset", g_vfunc_info_get_offset (info));
  key ("signal");
  dump_named (g_vfunc_info_get_signal (info));
  key ("invoker");
  dump_named (g_vfunc_info_get_invoker (info));
  dump_callable (info);
  close_ ('}');
}

static void
dump_value (GIValueInfo *info)
{
  open_ ('{');
  dump_base (info);
  K_INT ("value", g_value_info_get_value (info));
  close_ ('}');
}

typedef void (*DumpFn) (GIBaseInfo *info);

static void
dump_section (const char *count_key, const char *list_key, GIBaseInfo *cont, gint n, GetNth get, DumpFn dump)
{
  int i;
  K_INT (count_key, n);
  key (list_key);
  open_ ('[');
  for (i = 0; i < n; i++)
    {
      GIBaseInfo *m = get (cont, i);
      if (m == NULL)
        v_null ();
      else
        {
          dump (m);
          g_base_info_unref (m);
        }
    }
  close_ (']');
}

/* index (through the i-th accessor and g_base_info_equal) of what find(name) returns; -1 for NULL,
 * -2 for something that is none of the n members */
static int
found_index (GIBaseInfo *cont, gint n, GetNth get, FindFn find, const char *name)
{
  GIBaseInfo *r = find (cont, name);
  int i, res = -2;
  if (r == NULL)
    return -1;
  for (i = 0; i < n && res == -2; i++)
    {
      GIBaseInfo *m = get (cont, i);
      if (m != NULL && g_base_info_equal (m, r) && g_base_info_get_type (m) == g_base_info_get_type (r))
        res = i;
      if (m)
        g_base_info_unref (m);
    }
  g_base_info_unref (r);
  return res;
}

static void
dump_find (const char *label, GIBaseInfo *cont, gint n, GetNth get, FindFn find)
{
  int i;
  key (label);
  open_ ('[');
  for (i = 0; i < n; i++)
    {
      GIBaseInfo *m = get (cont, i);
      const char *name = m ? g_base_info_get_name (m) : NULL;
      if (name != NULL)
        {
          open_ ('[');
          v_str (name);
          v_int (found_index (cont, n, get, find, name));
          close_ (']');
        }
      if (m)
        g_base_info_unref (m);
    }
  for (i = 0; i < n_probes; i++)
    {
      open_ ('[');
      v_str (probes[i]);
      v_int (found_index (cont, n, get, find, probes[i]));
      close_ (']');
    }
  close_ (']');
}

static void
dump_registered (GIBaseInfo *info)
{
  K_STR ("gtype_name", g_registered_type_info_get_type_name (info));
  K_STR ("gtype_init", g_registered_type_info_get_type_init (info));
}

static void
dump_struct (GIStructInfo *info)
{
  gint nf = g_struct_info_get_n_fields (info), nm = g_struct_info_get_n_methods (info);
  dump_registered (info);
  K_INT ("size", (gint64) g_struct_info_get_size (info));
  K_INT ("align", (gint64) g_struct_info_get_alignment (info));
  K_BOOL ("gtype_struct", g_struct_info_is_gtype_struct (info));
  K_BOOL ("foreign", g_struct_info_is_foreign (info));
  K_STR ("copy", g_struct_info_get_copy_function (info));
  K_STR ("free", g_struct_info_get_free_function (info));
  dump_section ("n_fields", "fields", info, nf, (GetNth) g_struct_info_get_field, dump_field);
  dump_section ("n_methods", "methods", info, nm, (GetNth) g_struct_info_get_method, dump_function);
  dump_find ("find_field", info, nf, (GetNth) g_struct_info_get_field, (FindFn) g_struct_info_find_field);
  dump_find ("find_method", info, nm, (GetNth) g_struct_info_get_method, (FindFn) g_struct_info_find_method);
}

static void
dump_union (GIUnionInfo *info)
{
  gint nf = g_union_info_get_n_fields (info), nm = g_union_info_get_n_methods (info);
  gboolean disc = g_union_info_is_discriminated (info);
  GITypeInfo *dt;
  int i;

  dump_registered (info);
  K_INT ("size", (gint64) g_union_info_get_size (info));
  K_INT ("align", (gint64) g_union_info_get_alignment (info));
  K_STR ("copy", g_union_info_get_copy_function (info));
  K_STR ("free", g_union_info_get_free_function (info));
  dump_section ("n_fields", "fields", info, nf, (GetNth) g_union_info_get_field, dump_field);
  dump_section ("n_methods", "methods", info, nm, (GetNth) g_union_info_get_method, dump_function);
  dump_find ("find_method", info, nm, (GetNth) g_union_info_get_method, (FindFn) g_union_info_find_method);
  K_BOOL ("discriminated", disc);
  K_INT ("disc_offset", g_union_info_get_discriminator_offset (info));
  /* only tag and pointer flag: nothing below this type is followed */
  dt = g_union_info_get_discriminator_type (info);
  key ("disc_type");
  open_ ('{');
  K_INT ("tag", g_type_info_get_tag (dt));
  K_BOOL ("ptr", g_type_info_is_pointer (dt));
  close_ ('}');
  g_base_info_unref (dt);
  key ("discriminators");
  open_ ('[');
  for (i = 0; disc && i < nf; i++)
    {
      GIConstantInfo *c = g_union_info_get_discriminator (info, i);
      if (c == NULL)
        v_null ();
      else
        {
          dump_constant (c);
          g_base_info_unref (c);
        }
    }
  close_ (']');
}

static void
dump_enum (GIEnumInfo *info)
{
  dump_registered (info);
  K_STR ("domain", g_enum_info_get_error_domain (info));
  K_INT ("storage", g_enum_info_get_storage_type (info));
  dump_section ("n_values", "values", info, g_enum_info_get_n_values (info), (GetNth) g_enum_info_get_value, dump_value);
  dump_section ("n_methods", "methods", info, g_enum_info_get_n_methods (info), (GetNth) g_enum_info_get_method, dump_function);
}

static void
dump_refs (const char *count_key, const char *list_key, GIBaseInfo *cont, gint n, GetNth get)
{
  int i;
  K_INT (count_key, n);
  key (list_key);
  open_ ('[');
  for (i = 0; i < n; i++)
    dump_ref (get (cont, i));
  close_ (']');
}

static void
dump_object (GIObjectInfo *info)
{
  gint nm = g_object_info_get_n_methods (info), ns = g_object_info_get_n_signals (info),
       nv = g_object_info_get_n_vfuncs (info);
  dump_registered (info);
  K_STR ("o_type_name", g_object_info_get_type_name (info));
  K_STR ("o_type_init", g_object_info_get_type_init (info));
  key ("parent");
  dump_ref (g_object_info_get_parent (info));
  K_BOOL ("abstract", g_object_info_get_abstract (info));
  K_BOOL ("final", g_object_info_get_final (info));
  K_BOOL ("fundamental", g_object_info_get_fundamental (info));
  key ("class_struct");
  dump_ref (g_object_info_get_class_struct (info));
  K_STR ("ref", g_object_info_get_ref_function (info));
  K_STR ("unref", g_object_info_get_unref_function (info));
  K_STR ("setv", g_object_info_get_set_value_function (info));
  K_STR ("getv", g_object_info_get_get_value_function (info));
  dump_refs ("n_interfaces", "interfaces", info, g_object_info_get_n_interfaces (info), (GetNth) g_object_info_get_interface);
  dump_section ("n_fields", "fields", info, g_object_info_get_n_fields (info), (GetNth) g_object_info_get_field, dump_field);
  dump_section ("n_properties", "properties", info, g_object_info_get_n_properties (info), (GetNth) g_object_info_get_property, dump_property);
  dump_section ("n_methods", "methods", info, nm, (GetNth) g_object_info_get_method, dump_function);
  dump_section ("n_signals", "signals", info, ns, (GetNth) g_object_info_get_signal, dump_signal);
  dump_section ("n_vfuncs", "vfuncs", info, nv, (GetNth) g_object_info_get_vfunc, dump_vfunc);
  dump_section ("n_constants", "constants", info, g_object_info_get_n_constants (info), (GetNth) g_object_info_get_constant, dump_constant);
  dump_find ("find_method", info, nm, (GetNth) g_object_info_get_method, (FindFn) g_object_info_find_method);
  dump_find ("find_signal", info, ns, (GetNth) g_object_info_get_signal, (FindFn) g_object_info_find_signal);
  dump_find ("find_vfunc", info, nv, (GetNth) g_object_info_get_vfunc, (FindFn) g_object_info_find_vfunc);
}

static void
dump_interface (GIInterfaceInfo *info)
{
  gint nm = g_interface_info_get_n_methods (info), ns = g_interface_info_get_n_signals (info),
       nv = g_interface_info_get_n_vfuncs (info);
  dump_registered (info);
  key ("iface_struct");
  dump_ref (g_interface_info_get_iface_struct (info));
  dump_refs ("n_prerequisites", "prerequisites", info, g_interface_info_get_n_prerequisites (info), (GetNth) g_interface_info_get_prerequisite);
  dump_section ("n_properties", "properties", info, g_interface_info_get_n_properties (info), (GetNth) g_interface_info_get_property, dump_property);
  dump_section ("n_methods", "methods", info, nm, (GetNth) g_interface_info_get_method, dump_function);
  dump_section ("n_signals", "signals", info, ns, (GetNth) g_interface_info_get_signal, dump_signal);
  dump_section ("n_vfuncs", "vfuncs", info, nv, (GetNth) g_interface_info_get_vfunc, dump_vfunc);
  dump_section ("n_constants", "constants", info, g_interface_info_get_n_constants (info), (GetNth) g_interface_info_get_constant, dump_constant);
  dump_find ("find_method", info, nm, (GetNth) g_interface_info_get_method, (FindFn) g_interface_info_find_method);
  dump_find ("find_signal", info, ns, (GetNth) g_interface_info_get_signal, (FindFn) g_interface_info_find_signal);
  dump_find ("find_vfunc", info, nv, (GetNth) g_interface_info_get_vfunc, (FindFn) g_interface_info_find_vfunc);
}

static void
dump_entry (const char *ns, GIBaseInfo *info)
{
  GIInfoType t = g_base_info_get_type (info);
  GIBaseInfo *again;
  const char *name;

  open_ ('{');
  dump_base (info);
  K_STR ("ns", g_base_info_get_namespace (info));
  K_BOOL ("has_container", g_base_info_get_container (info) != NULL);
  name = g_base_info_get_name (info);
  again = name ? g_irepository_find_by_name (NULL, ns, name) : NULL;
  K_BOOL ("find_by_name_same", again != NULL && g_base_info_equal (again, info)
          && g_base_info_get_type (again) == t);
  if (again)
    g_base_info_unref (again);
  switch (t)
    {
    case GI_INFO_TYPE_FUNCTION:
      {
        GIFunctionInfoFlags flags = g_function_info_get_flags (info);
        K_STR ("symbol", g_function_info_get_symbol (info));
        K_INT ("flags", flags);
        key ("prop");
        v_null ();
        key ("vfunc");
        v_null ();
        dump_callable (info);
      }
      break;
    case GI_INFO_TYPE_CALLBACK:
      dump_callable (info);
      break;
    case GI_INFO_TYPE_STRUCT:
    case GI_INFO_TYPE_BOXED:
      dump_struct (info);
      break;
    case GI_INFO_TYPE_UNION:
      dump_union (info);
      break;
    case GI_INFO_TYPE_ENUM:
    case GI_INFO_TYPE_FLAGS:
      dump_enum (info);
      break;
    case GI_INFO_TYPE_OBJECT:
      dump_object (info);
      break;
    case GI_INFO_TYPE_INTERFACE:
      dump_interface (info);
      break;
    case GI_INFO_TYPE_CONSTANT:
      dump_constant_body (info);
      break;
    default:
      break;
    }
  close_ ('}');
}

static void
finish (void)
{
  g_string_append_printf (out, ",\"log\":[%s]}", logbuf->str);
  g_string_truncate (logbuf, 0);
  fputs (out->str, stdout);
  fputc ('\n', stdout);
  fflush (stdout);
  g_string_truncate (out, 0);
  depth = 0;
  first_[0] = 1;
}

static void
start (const char *cmd)
{
  depth = 0;
  first_[0] = 1;
  g_string_append_c (out, '{');
  first_[++depth] = 1;
  K_STR ("cmd", cmd);
}

static int
read_list (char **dest, char *save)
{
  int n = 0, i;
  char *tok;
  for (i = 0; i < MAX_STR && dest[i]; i++)
    {
      g_free (dest[i]);
      dest[i] = NULL;
    }
  while ((tok = strtok_r (NULL, " ", &save)) != NULL && n < MAX_STR)
    {
      char *s = unhex (tok);
      if (s == NULL)
        return -1;
      dest[n++] = s;
    }
  return n;
}

int
main (void)
{
  char *line = NULL;
  size_t cap = 0;
  ssize_t got;

  out = g_string_new ("");
  logbuf = g_string_new ("");
  g_log_set_default_handler (log_collect, NULL);

  while ((got = getline (&line, &cap, stdin)) > 0)
    {
      char *cmd, *save = NULL;
      if (line[got - 1] == '\n')
        line[got - 1] = 0;
      cmd = strtok_r (line, " ", &save);
      if (cmd == NULL)
        continue;
      start (cmd);

      if (strcmp (cmd, "load") == 0)
        {
          char *path = strtok_r (NULL, " ", &save);
          gchar *contents = NULL;
          gsize len = 0;
          GError *error = NULL;
          GITypelib *tl;
          const char *ns;
          guint8 *mem;
          if (path == NULL || !g_file_get_contents (path, &contents, &len, &error))
            {
              K_BOOL ("ok", FALSE);
              K_STR ("stage", "read");
              K_STR ("error", error ? error->message : "no path");
              finish ();
              continue;
            }
          mem = g_malloc (len);           /* exact size: no slack after the last byte */
          memcpy (mem, contents, len);
          g_free (contents);
          tl = g_typelib_new_from_memory (mem, len, &error);
          if (tl == NULL)
            {
              K_BOOL ("ok", FALSE);
              K_STR ("stage", "new");
              K_STR ("error", error ? error->message : "(no error set)");
              finish ();
              continue;
            }
          ns = g_irepository_load_typelib (NULL, tl, 0, &error);
          if (ns == NULL)
            {
              K_BOOL ("ok", FALSE);
              K_STR ("stage", "load");
              K_STR ("error", error ? error->message : "(no error set)");
              finish ();
              continue;
            }
          K_BOOL ("ok", TRUE);
          K_STR ("ns", ns);
          finish ();
          continue;
        }

      if (strcmp (cmd, "keys") == 0 || strcmp (cmd, "names") == 0)
        {
          int n = read_list (cmd[0] == 'k' ? keys : probes, save);
          if (cmd[0] == 'k')
            n_keys = n < 0 ? 0 : n;
          else
            n_probes = n < 0 ? 0 : n;
          K_INT ("n", n);
          finish ();
          continue;
        }

      if (strcmp (cmd, "walk") == 0)
        {
          char *ns = strtok_r (NULL, " ", &save);
          gint n, i;
          gchar **deps;
          if (ns == NULL || !g_irepository_is_registered (NULL, ns, NULL))
            {
              K_STR ("error", "namespace not loaded");
              finish ();
              continue;
            }
          K_STR ("ns", ns);
          K_STR ("version", g_irepository_get_version (NULL, ns));
          K_STR ("shlib", g_irepository_get_shared_library (NULL, ns));
          K_STR ("c_prefix", g_irepository_get_c_prefix (NULL, ns));
          deps = g_irepository_get_immediate_dependencies (NULL, ns);
          key ("deps");
          open_ ('[');
          for (i = 0; deps != NULL && deps[i] != NULL; i++)
            v_str (deps[i]);
          close_ (']');
          g_strfreev (deps);
          n = g_irepository_get_n_infos (NULL, ns);
          K_INT ("n_infos", n);
          key ("infos");
          open_ ('[');
          for (i = 0; i < n; i++)
            {
              GIBaseInfo *info = g_irepository_get_info (NULL, ns, i);
              if (info == NULL)
                v_null ();
              else
                {
                  dump_entry (ns, info);
                  g_base_info_unref (info);
                }
            }
          close_ (']');
          key ("find_by_name");
          open_ ('[');
          for (i = 0; i < n_probes; i++)
            {
              GIBaseInfo *r = probes[i][0] ? g_irepository_find_by_name (NULL, ns, probes[i]) : NULL;
              open_ ('[');
              v_str (probes[i]);
              if (r == NULL)
                v_null ();
              else
                {
                  v_str (g_base_info_get_name (r));
                  g_base_info_unref (r);
                }
              close_ (']');
            }
          close_ (']');
          finish ();
          continue;
        }

      K_STR ("error", "unknown command");
      finish ();
    }
  return 0;
}
