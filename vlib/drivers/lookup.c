/* C14 driver: directory lookups by name, GType name and error domain.
 *
 * Reads a line-oriented script on stdin and prints one JSON line per command.
 * Every string (keys in, names out) is hex-encoded so that any byte but NUL can be used.
 *
 * <r> selects a GIRepository instance: 0 is the default one (NULL), 1..3 are separate instances
 * created with g_object_new, so that one process can hold the same namespace twice (with and
 * without its directory-index section).
 *
 *   load <r> <path>            read the file into an exact-size heap block (so that ASan sees every
 *                              read past the end), g_typelib_new_from_memory, g_irepository_load_typelib
 *                              with flags 0 (G_IREPOSITORY_LOAD_FLAG_LAZY when an optional third argument is 1).
 *                              No search path is involved as long as the script loads dependencies first.
 *   premiss <r> <ns> <hexkey>  g_irepository_find_by_gtype for a (registered on the fly) boxed GType of that name,
 *                              meant to be issued BEFORE the namespace is loaded
 *   name <r> <ns> <hexkey>     g_typelib_get_dir_entry_by_name + g_irepository_find_by_name; also the
 *                              raw cmph value and _gi_typelib_hash_search's slot when the typelib has
 *                              a directory-index section
 *   gtype <r> <ns> <hexkey>    g_typelib_get_dir_entry_by_gtype_name + g_typelib_matches_gtype_name_prefix
 *                              + g_irepository_find_by_gtype (a boxed GType of that name is registered
 *                              on the fly when GLib accepts the name and no such type exists yet)
 *   domain <r> <ns> <hexkey>   g_typelib_get_dir_entry_by_error_domain + g_irepository_find_by_error_domain
 *
 * GLib diagnostics (g_warning, g_critical, ...) raised during a command are reported in the
 * command's "log" array, they do not go to stderr.
 */
#include <stdio.h>
#include <stdlib.h>
#include <string.h>
#include <glib.h>
#include <glib-object.h>
#include "girepository.h"
#include "gitypelib-internal.h"
#include "cmph.h"

#define MAX_LIBS 16
#define MAX_REPOS 4

static struct { int r; char *ns; GITypelib *tl; } libs[MAX_LIBS];
static int n_libs;
static GIRepository *repos[MAX_REPOS];
static GString *logbuf;

static void
put_hex (GString *out, const char *s)
{
  const unsigned char *p;
  g_string_append_c (out, '"');
  for (p = (const unsigned char *) s; *p; p++)
    g_string_append_printf (out, "%02x", *p);
  g_string_append_c (out, '"');
}

static void
log_collect (const gchar *domain, GLogLevelFlags level, const gchar *message, gpointer data)
{
  if (logbuf->len)
    g_string_append_c (logbuf, ',');
  put_hex (logbuf, message ? message : "(null)");
  if (level & G_LOG_FLAG_FATAL)
    {
      fprintf (stderr, "fatal GLib message: %s\n", message ? message : "(null)");
      fflush (stderr);
    }
}

static int
hexval (int c)
{
  if (c >= '0' && c <= '9') return c - '0';
  if (c >= 'a' && c <= 'f') return c - 'a' + 10;
  if (c >= 'A' && c <= 'F') return c - 'A' + 10;
  return -1;
}

/* returns a malloc'ed exact-size NUL-terminated copy, or NULL */
static char *
unhex (const char *h)
{
  size_t n = strlen (h), i;
  char *out;
  if (n == 1 && h[0] == '-')           /* "-" stands for the empty string */
    n = 0;
  if (n % 2)
    return NULL;
  out = g_malloc (n / 2 + 1);
  for (i = 0; i < n / 2; i++)
    {
      int a = hexval (h[2 * i]), b = hexval (h[2 * i + 1]);
      if (a < 0 || b < 0 || (a == 0 && b == 0))
        {
          g_free (out);
          return NULL;
        }
      out[i] = (char) (a * 16 + b);
    }
  out[n / 2] = 0;
  return out;
}

static GITypelib *
find_lib (int r, const char *ns)
{
  int i;
  for (i = 0; i < n_libs; i++)
    if (libs[i].r == r && strcmp (libs[i].ns, ns) == 0)
      return libs[i].tl;
  return NULL;
}

/* NULL for r == 0: the code under test then uses its default instance */
static GIRepository *
get_repo (int r)
{
  if (r > 0 && repos[r] == NULL)
    repos[r] = g_object_new (G_TYPE_IREPOSITORY, NULL);
  return repos[r];
}

static Section *
index_section (GITypelib *tl)
{
  Header *header = (Header *) tl->data;
  Section *s;
  if (header->sections == 0)
    return NULL;
  for (s = (Section *) &tl->data[header->sections]; s->id != GI_SECTION_END; s++)
    if (s->id == GI_SECTION_DIRECTORY_INDEX)
      return s;
  return NULL;
}

static void
put_entry (GString *out, GITypelib *tl, DirEntry *e)
{
  Header *header = (Header *) tl->data;
  gssize delta;
  if (e == NULL)
    {
      g_string_append (out, "null");
      return;
    }
  delta = (guint8 *) e - (tl->data + header->directory);
  if (delta < 0 || delta % header->entry_blob_size != 0 ||
      delta / header->entry_blob_size >= header->n_entries)
    {
      g_string_append_printf (out, "{\"index\": null, \"delta\": %ld}", (long) delta);
      return;
    }
  g_string_append_printf (out, "{\"index\": %ld, \"blob_type\": %u, \"local\": %u, \"name\": ",
                          (long) (delta / header->entry_blob_size) + 1, e->blob_type, e->local);
  put_hex (out, (const char *) &tl->data[e->name]);
  g_string_append_c (out, '}');
}

static void
put_info (GString *out, GIBaseInfo *info)
{
  GIInfoType t;
  if (info == NULL)
    {
      g_string_append (out, "null");
      return;
    }
  t = g_base_info_get_type (info);
  g_string_append_printf (out, "{\"type\": %d", (int) t);
  if (t >= GI_INFO_TYPE_FUNCTION && t <= GI_INFO_TYPE_UNION)
    {
      g_string_append (out, ", \"name\": ");
      put_hex (out, g_base_info_get_name (info));
      g_string_append (out, ", \"ns\": ");
      put_hex (out, g_base_info_get_namespace (info));
    }
  g_string_append_c (out, '}');
  g_base_info_unref (info);
}

static gpointer
boxed_copy (gpointer p)
{
  return p;
}

static void
boxed_free (gpointer p)
{
}

/* the rule of gtype.c:check_type_name_I */
static gboolean
registrable (const char *name)
{
  const char *p;
  if (!name[0] || !name[1] || !name[2])
    return FALSE;
  if (!(g_ascii_isalpha (name[0]) || name[0] == '_'))
    return FALSE;
  for (p = name + 1; *p; p++)
    if (!(g_ascii_isalnum (*p) || strchr ("-_+", *p)))
      return FALSE;
  return TRUE;
}

static void
finish (GString *out)
{
  g_string_append_printf (out, ", \"log\": [%s]}", logbuf->str);
  g_string_truncate (logbuf, 0);
  fputs (out->str, stdout);
  fputc ('\n', stdout);
  fflush (stdout);
  g_string_truncate (out, 0);
}

int
main (void)
{
  char *line = NULL;
  size_t cap = 0;
  ssize_t got;
  GString *out = g_string_new ("");

  logbuf = g_string_new ("");
  g_log_set_default_handler (log_collect, NULL);

  while ((got = getline (&line, &cap, stdin)) > 0)
    {
      char *cmd, *ar, *a1, *a2, *save = NULL;
      int r;
      GIRepository *repo;
      if (line[got - 1] == '\n')
        line[got - 1] = 0;
      cmd = strtok_r (line, " ", &save);
      ar = strtok_r (NULL, " ", &save);
      a1 = strtok_r (NULL, " ", &save);
      a2 = strtok_r (NULL, " ", &save);
      if (cmd == NULL)
        continue;
      g_string_append_printf (out, "{\"cmd\": \"%s\"", cmd);
      r = ar ? atoi (ar) : -1;
      if (r < 0 || r >= MAX_REPOS)
        {
          g_string_append (out, ", \"error\": \"bad repository number\"");
          finish (out);
          continue;
        }
      repo = get_repo (r);

      if (strcmp (cmd, "load") == 0 && a1 != NULL)
        {
          gchar *contents = NULL;
          gsize len = 0;
          GError *error = NULL;
          GITypelib *tl = NULL;
          const char *ns = NULL;
          if (!g_file_get_contents (a1, &contents, &len, &error))
            {
              g_string_append (out, ", \"ok\": false, \"stage\": \"read\", \"error\": ");
              put_hex (out, error->message);
              finish (out);
              continue;
            }
          {
            guint8 *mem = g_malloc (len);      /* exact size: no slack after the last byte */
            memcpy (mem, contents, len);
            g_free (contents);
            tl = g_typelib_new_from_memory (mem, len, &error);
          }
          if (tl == NULL)
            {
              g_string_append (out, ", \"ok\": false, \"stage\": \"new\", \"error\": ");
              put_hex (out, error->message);
              finish (out);
              continue;
            }
          ns = g_irepository_load_typelib (repo, tl, (a2 != NULL && atoi (a2) == 1) ? G_IREPOSITORY_LOAD_FLAG_LAZY : 0, &error);
          if (ns == NULL)
            {
              g_string_append (out, ", \"ok\": false, \"stage\": \"load\", \"error\": ");
              put_hex (out, error ? error->message : "(no error set)");
              finish (out);
              continue;
            }
          if (n_libs == MAX_LIBS)
            {
              g_string_append (out, ", \"ok\": false, \"stage\": \"driver-table-full\"");
              finish (out);
              continue;
            }
          libs[n_libs].r = r;
          libs[n_libs].ns = g_strdup (ns);
          libs[n_libs].tl = tl;
          n_libs++;
          {
            Header *header = (Header *) tl->data;
            g_string_append (out, ", \"ok\": true, \"ns\": ");
            put_hex (out, ns);
            g_string_append_printf (out, ", \"n_entries\": %u, \"n_local_entries\": %u, \"has_index\": %s",
                                    header->n_entries, header->n_local_entries,
                                    index_section (tl) ? "true" : "false");
          }
          finish (out);
          continue;
        }

      if (strcmp (cmd, "premiss") == 0 && a1 != NULL && a2 != NULL)
        {
          /* ask the repository for a GType BEFORE the namespace that defines it is loaded (the answer is
           * remembered by the repository as "unknown" until something is loaded) */
          char *key = unhex (a2);
          GType t = key ? g_type_from_name (key) : 0;
          if (key != NULL && t == 0 && registrable (key))
            t = g_boxed_type_register_static (key, boxed_copy, boxed_free);
          g_string_append (out, ", \"repo\": ");
          if (t != 0)
            put_info (out, g_irepository_find_by_gtype (repo, t));
          else
            g_string_append (out, "\"skipped\"");
          g_free (key);
          finish (out);
          continue;
        }

      if ((strcmp (cmd, "name") == 0 || strcmp (cmd, "gtype") == 0 || strcmp (cmd, "domain") == 0)
          && a1 != NULL && a2 != NULL)
        {
          GITypelib *tl = find_lib (r, a1);
          char *key = unhex (a2);
          Header *header;
          if (tl == NULL || key == NULL)
            {
              g_string_append (out, ", \"error\": \"bad namespace or key\"");
              finish (out);
              g_free (key);
              continue;
            }
          header = (Header *) tl->data;

          if (cmd[0] == 'n')
            {
              Section *sec = index_section (tl);
              if (sec != NULL)
                {
                  guint8 *hash = (guint8 *) &tl->data[sec->offset];
                  guint32 raw = cmph_search_packed (((guint32 *) hash) + 1, key, strlen (key));
                  g_string_append_printf (out, ", \"raw\": %u", raw);
                  /* The slot the documented section layout (gthash.c: guint32 dirmap_offset, packed cmph,
                   * guint16 table[n_local_entries]) assigns to the raw value; computed here instead of calling
                   * the internal _gi_typelib_hash_search so that the driver only depends on public entry points
                   * and on the file format (an internal signature change must not break the harness). */
                  {
                    guint32 clamped = raw >= header->n_local_entries ? 0 : raw;
                    guint32 dirmap_offset = *((guint32 *) hash);
                    guint16 *table = (guint16 *) (hash + dirmap_offset);
                    g_string_append_printf (out, ", \"slot\": %u", (guint) table[clamped]);
                  }
                }
              else
                g_string_append (out, ", \"raw\": null, \"slot\": null");
              g_string_append (out, ", \"entry\": ");
              put_entry (out, tl, g_typelib_get_dir_entry_by_name (tl, key));
              g_string_append (out, ", \"repo\": ");
              put_info (out, g_irepository_find_by_name (repo, a1, key));
            }
          else if (cmd[0] == 'g')
            {
              GType t;
              g_string_append (out, ", \"entry\": ");
              put_entry (out, tl, g_typelib_get_dir_entry_by_gtype_name (tl, key));
              g_string_append_printf (out, ", \"matches_prefix\": %s",
                                      g_typelib_matches_gtype_name_prefix (tl, key) ? "true" : "false");
              t = g_type_from_name (key);
              if (t != 0)
                g_string_append (out, ", \"gtype\": \"existing\"");
              else if (registrable (key))
                {
                  t = g_boxed_type_register_static (key, boxed_copy, boxed_free);
                  g_string_append (out, t ? ", \"gtype\": \"registered\"" : ", \"gtype\": \"refused\"");
                }
              else
                g_string_append (out, ", \"gtype\": \"unregistrable\"");
              g_string_append (out, ", \"repo\": ");
              if (t != 0)
                put_info (out, g_irepository_find_by_gtype (repo, t));
              else
                g_string_append (out, "\"skipped\"");
            }
          else
            {
              GQuark q = g_quark_from_string (key);
              g_string_append (out, ", \"entry\": ");
              put_entry (out, tl, g_typelib_get_dir_entry_by_error_domain (tl, q));
              g_string_append (out, ", \"repo\": ");
              put_info (out, (GIBaseInfo *) g_irepository_find_by_error_domain (repo, q));
            }
          g_free (key);
          finish (out);
          continue;
        }

      g_string_append (out, ", \"error\": \"unknown command\"");
      finish (out);
    }
  return 0;
}
