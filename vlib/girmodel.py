"""GIR document model (DESIGN 1.3): Hypothesis generator of VALID GIR documents as JSON-able
dicts, plus render_xml(doc) -> str.  The XML is rendered here (not through giscanner) so that the
C-side checks (C06, C08, C09, C14, C17) do not depend on Python-side code under test.

A *case* is {'docs': [doc, ...]}: the last document is the main namespace, the earlier ones are
generated sibling namespaces it may <include> (compile them first, in list order).  Every document
may also include the fixture namespaces GLib/GObject/Gio/GModule-2.0 (cbuild.FIXTURES).

Validity is by construction (docs/gir-1.2.rnc, restricted to what girparser.c reads):
  * every type name is a basic type, a visible local entry, an alias, or Ns.Name of a directly
    included namespace; parents are classes, <implements> are interfaces, prerequisites are
    interfaces or classes, glib:type-struct names a local record carrying glib:is-gtype-struct-for;
  * closure=/destroy=/length= indices are in range; invoker=/setter=/getter=/glib:set-property
    name visible siblings of the right kind;
  * fields are layout-computable (giroffsets.c): no void-valued field, records by value only
    towards entries planned earlier (acyclic), fixed-size arrays of sizeable elements;
  * <parameter>/<return-value>/<instance-parameter> always carry transfer-ownership (the RNC makes
    it optional, girparser.c rejects its absence for these three elements);
  * <member> always carries c:identifier (mandatory in the RNC).
Elements with introspectable="0" / shadowed-by are generated on purpose (they must not reach the
typelib) and visible elements never refer to them.

Document model (all values JSON-able; None = attribute absent)
  doc    {name, version, shlib, idp, symp, includes:[[ns,ver]..], entries:[entry..]}
  entry  k in function callback record union boxed enumeration bitfield class interface constant alias
  common keys: name, intro ('0'|'1'|None), dep ('0'|'1'|None), attrs [[name,value]..]
  callable {ret:{type,transfer,nullable,skip,attrs}, instance:{name,transfer,type}|None,
            params:[{name,type,direction,transfer,nullable,allow_none,optional,caller_allocates,
                     skip,scope,closure,destroy,attrs}], throws}
  types   {t:'basic'|'iface', name, ctype} | {t:'array', akind:'C'|'GLib.Array'|'GLib.PtrArray'|
          'GLib.ByteArray', elem, length, fixed, zt, ctype} | {t:'list', name:'GLib.List'|'GLib.SList',
          elem|None, ctype} | {t:'hash', kv:[K,V]|None, ctype} | {t:'error', ctype}
"""
import os
import xml.etree.ElementTree as ET

from hypothesis import strategies as st

VERIF = os.path.dirname(os.path.dirname(os.path.abspath(__file__)))
FIXTURES = os.path.join(VERIF, 'fixtures')
FIXTURE_NAMES = ['GLib', 'GObject', 'Gio', 'GModule']

CORE = 'http://www.gtk.org/introspection/core/1.0'
CNS = 'http://www.gtk.org/introspection/c/1.0'
GLIBNS = 'http://www.gtk.org/introspection/glib/1.0'

# GIR basic type name -> (typelib tag name, C spelling, always a pointer).  Tags of the platform
# integer spellings follow the LP64 C ABI / the GLib type documentation.
BASIC = {
    'none': ('void', 'void', False), 'gpointer': ('void', 'gpointer', True),
    'gboolean': ('boolean', 'gboolean', False),
    'gint8': ('int8', 'gint8', False), 'guint8': ('uint8', 'guint8', False),
    'gint16': ('int16', 'gint16', False), 'guint16': ('uint16', 'guint16', False),
    'gint32': ('int32', 'gint32', False), 'guint32': ('uint32', 'guint32', False),
    'gint64': ('int64', 'gint64', False), 'guint64': ('uint64', 'guint64', False),
    'gfloat': ('float', 'gfloat', False), 'gdouble': ('double', 'gdouble', False),
    'GType': ('gtype', 'GType', False), 'utf8': ('utf8', 'gchar*', True),
    'filename': ('filename', 'gchar*', True), 'gunichar': ('unichar', 'gunichar', False),
    'gchar': ('int8', 'gchar', False), 'guchar': ('uint8', 'guchar', False),
    'gshort': ('int16', 'gshort', False), 'gushort': ('uint16', 'gushort', False),
    'gint': ('int32', 'gint', False), 'guint': ('uint32', 'guint', False),
    'glong': ('int64', 'glong', False), 'gulong': ('uint64', 'gulong', False),
    'gssize': ('int64', 'gssize', False), 'gsize': ('uint64', 'gsize', False),
    'gintptr': ('int64', 'gintptr', False), 'guintptr': ('uint64', 'guintptr', False),
}
VALUE_BASICS = [n for n in BASIC if n not in ('none', 'gpointer', 'utf8', 'filename')]
INT_BASICS = [n for n in VALUE_BASICS if BASIC[n][0].startswith(('int', 'uint'))]
# integer tag -> (bits, signed)
INT_TAGS = {'int8': (8, True), 'uint8': (8, False), 'int16': (16, True), 'uint16': (16, False),
            'int32': (32, True), 'uint32': (32, False), 'int64': (64, True), 'uint64': (64, False)}

TYPE_KINDS = ('record', 'union', 'boxed', 'enumeration', 'bitfield', 'class', 'interface', 'callback')
RECORDLIKE = ('record', 'union', 'boxed', 'class', 'interface')
# foreign compounds that may be embedded by value in a field (layout known to compile cleanly
# from the fixture GIRs; cbuild's probe namespace uses the same ones)
BYVALUE_FOREIGN = {'GObject.Object', 'GObject.Value', 'GObject.TypeInterface', 'GObject.ObjectClass',
                   'GObject.InitiallyUnowned'}


def _c(tag):
    return '{%s}%s' % (CNS, tag)


def _g(tag):
    return '{%s}%s' % (GLIBNS, tag)


# ------------------------------------------------------------------------------ namespace info
_FIXTURE_CACHE = {}


def nsinfo_from_fixture(name):
    """{'name','version','includes','aliases','ptr','types'} of a fixture namespace, read from
    its GIR (data; nothing of the code under test is involved)."""
    if name in _FIXTURE_CACHE:
        return _FIXTURE_CACHE[name]
    root = ET.parse(os.path.join(FIXTURES, '%s-2.0.gir' % name)).getroot()
    ns = root.find('{%s}namespace' % CORE)
    info = {'name': name, 'version': ns.get('version'), 'fixture': True,
            'includes': [[i.get('name'), i.get('version')] for i in root.findall('{%s}include' % CORE)],
            'aliases': {}, 'ptr': [], 'types': {}}
    for e in ns:
        k = e.tag.split('}')[1]
        nm = e.get('name') or e.get(_g('name'))
        if k == 'alias':
            t = e.find('{%s}type' % CORE)
            info['aliases'][nm] = t.get('name')
            continue
        if k == 'boxed' or e.tag == _g('boxed'):
            k = 'boxed'
        if k not in TYPE_KINDS or e.get('introspectable') == '0':
            continue
        ptr = k == 'record' and (e.get('pointer') == '1' or e.get('disguised') == '1')
        if ptr:
            info['ptr'].append(nm)
        info['types'][nm] = {'kind': k, 'ctype': e.get(_c('type')) or ('G' + nm), 'ptr': ptr,
                             'byval': ('%s.%s' % (name, nm)) in BYVALUE_FOREIGN or k in ('enumeration', 'bitfield', 'callback')}
    _FIXTURE_CACHE[name] = info
    return info


def visible(el):
    """Does the element reach the typelib?  (introspectable="0" and shadowed-by elements do not.)"""
    return el.get('intro') != '0' and el.get('shadowed_by') is None


def nsinfo_from_doc(doc):
    info = {'name': doc['name'], 'version': doc['version'], 'fixture': False,
            'includes': [list(i) for i in doc['includes']], 'aliases': {}, 'ptr': [], 'types': {}}
    for e in doc['entries']:
        if e['k'] == 'alias':
            info['aliases'][e['name']] = e['target']['name']
        elif e['k'] in TYPE_KINDS:
            ptr = e['k'] == 'record' and (e.get('pointer') == '1' or e.get('disguised') == '1')
            if ptr:
                info['ptr'].append(e['name'])       # the first pass does not look at introspectable
            if visible(e):
                info['types'][e['name']] = {'kind': e['k'], 'ctype': e.get('ctype') or (doc['idp'] or doc['name']) + e['name'],
                                            'ptr': ptr, 'byval': e['k'] in ('enumeration', 'bitfield', 'callback') or bool(e.get('_sizeable'))}
    return info


def environment(case_docs, upto):
    """nsinfo of every namespace reachable from case_docs[upto] through <include>, by name."""
    by_name = {d['name']: d for d in case_docs[:upto]}
    env, todo = {}, [i[0] for i in case_docs[upto]['includes']]
    while todo:
        n = todo.pop()
        if n in env:
            continue
        env[n] = nsinfo_from_doc(by_name[n]) if n in by_name else nsinfo_from_fixture(n)
        todo += [i[0] for i in env[n]['includes']]
    return env


# ------------------------------------------------------------------------------ rendering
def _esc(s):
    out = []
    for ch in s:
        o = ord(ch)
        if ch == '&':
            out.append('&amp;')
        elif ch == '<':
            out.append('&lt;')
        elif ch == '>':
            out.append('&gt;')
        elif ch == '"':
            out.append('&quot;')
        elif o < 0x20:
            out.append('&#%d;' % o)
        else:
            out.append(ch)
    return ''.join(out)


def _attrs(pairs):
    return ''.join(' %s="%s"' % (k, _esc(str(v))) for k, v in pairs if v is not None)


class _X(object):
    def __init__(self):
        self.lines = []
        self.ind = 0

    def open(self, tag, pairs=(), close=False):
        self.lines.append('%s<%s%s%s>' % ('  ' * self.ind, tag, _attrs(pairs), '/' if close else ''))
        if not close:
            self.ind += 1

    def close(self, tag):
        self.ind -= 1
        self.lines.append('%s</%s>' % ('  ' * self.ind, tag))


def _info(el):
    return [('introspectable', el.get('intro')), ('deprecated', el.get('dep')),
            ('deprecated-version', '1.2' if el.get('dep') == '1' else None),
            ('version', el.get('since'))]


def _annotations(x, el):
    for n, v in el.get('attrs') or []:
        x.open('attribute', [('name', n), ('value', v)], close=True)


def _type(x, T):
    t = T['t']
    if t in ('basic', 'iface', 'error'):
        x.open('type', [('name', 'GLib.Error' if t == 'error' else T['name']), ('c:type', T.get('ctype'))], close=True)
    elif t == 'array':
        x.open('array', [('name', None if T['akind'] == 'C' else T['akind']), ('zero-terminated', T.get('zt')),
                         ('fixed-size', T.get('fixed')), ('length', T.get('length')), ('c:type', T.get('ctype'))])
        _type(x, T['elem'])
        x.close('array')
    elif t == 'list':
        if T.get('elem') is None:
            x.open('type', [('name', T['name']), ('c:type', T.get('ctype'))], close=True)
        else:
            x.open('type', [('name', T['name']), ('c:type', T.get('ctype'))])
            _type(x, T['elem'])
            x.close('type')
    elif t == 'hash':
        if T.get('kv') is None:
            x.open('type', [('name', 'GLib.HashTable'), ('c:type', T.get('ctype'))], close=True)
        else:
            x.open('type', [('name', 'GLib.HashTable'), ('c:type', T.get('ctype'))])
            _type(x, T['kv'][0])
            _type(x, T['kv'][1])
            x.close('type')
    else:
        raise ValueError(t)


def _callable_body(x, c):
    r = c['ret']
    x.open('return-value', [('transfer-ownership', r['transfer']), ('nullable', r.get('nullable')), ('skip', r.get('skip'))])
    _annotations(x, r)
    _type(x, r['type'])
    x.close('return-value')
    if c.get('instance') or c['params']:
        x.open('parameters')
        i = c.get('instance')
        if i:
            x.open('instance-parameter', [('name', i['name']), ('transfer-ownership', i['transfer'])])
            _type(x, i['type'])
            x.close('instance-parameter')
        for p in c['params']:
            x.open('parameter', [('name', p.get('name')), ('direction', p.get('direction')),
                                 ('caller-allocates', p.get('caller_allocates')), ('transfer-ownership', p['transfer']),
                                 ('nullable', p.get('nullable')), ('allow-none', p.get('allow_none')),
                                 ('optional', p.get('optional')), ('skip', p.get('skip')), ('scope', p.get('scope')),
                                 ('closure', p.get('closure')), ('destroy', p.get('destroy'))])
            _annotations(x, p)
            _type(x, p['type'])
            x.close('parameter')
        x.close('parameters')


def _function(x, f, tag):
    c = f['callable']
    pairs = [('name', f['name'])]
    if tag != 'callback':
        pairs.append(('c:identifier', f.get('cid')))
    else:
        pairs.append(('c:type', f.get('ctype')))
    pairs += [('shadowed-by', f.get('shadowed_by')), ('shadows', f.get('shadows')), ('moved-to', f.get('moved_to')),
              ('throws', c.get('throws')), ('glib:finish-func', f.get('finish_func')),
              ('glib:sync-func', f.get('sync_func')), ('glib:async-func', f.get('async_func')),
              ('glib:set-property', f.get('set_property')), ('glib:get-property', f.get('get_property')),
              ('invoker', f.get('invoker'))]
    x.open(tag, pairs + _info(f))
    _annotations(x, f)
    _callable_body(x, c)
    x.close(tag)


def _field(x, f):
    x.open('field', [('name', f['name']), ('readable', f.get('readable')), ('writable', f.get('writable')),
                     ('private', f.get('private')), ('bits', f.get('bits'))] + _info(f))
    _annotations(x, f)
    if f.get('callback') is not None:
        _function(x, f['callback'], 'callback')
    else:
        _type(x, f['type'])
    x.close('field')


def _constant(x, k):
    x.open('constant', [('name', k['name']), ('value', k['value']), ('c:type', k.get('ctype'))] + _info(k))
    _annotations(x, k)
    _type(x, k['type'])
    x.close('constant')


def _member(x, m):
    k = m['m']
    if k == 'field':
        _field(x, m)
    elif k in ('method', 'constructor', 'function'):
        _function(x, m, k)
    elif k == 'vfunc':
        _function(x, m, 'virtual-method')
    elif k == 'constant':
        _constant(x, m)
    elif k == 'property':
        x.open('property', [('name', m['name']), ('readable', m.get('readable')), ('writable', m.get('writable')),
                            ('construct', m.get('construct')), ('construct-only', m.get('construct_only')),
                            ('setter', m.get('setter')), ('getter', m.get('getter')),
                            ('transfer-ownership', m.get('transfer'))] + _info(m))
        _annotations(x, m)
        _type(x, m['type'])
        x.close('property')
    elif k == 'signal':
        x.open('glib:signal', [('name', m['name']), ('when', m.get('when')), ('detailed', m.get('detailed')),
                               ('action', m.get('action')), ('no-hooks', m.get('no_hooks')),
                               ('no-recurse', m.get('no_recurse'))] + _info(m))
        _annotations(x, m)
        _callable_body(x, m['callable'])
        x.close('glib:signal')
    else:
        raise ValueError(k)


def _gtype(e):
    g = e.get('gtype')
    return [('glib:type-name', g[0] if g else None), ('glib:get-type', g[1] if g else None)]


def _entry(x, e):
    k = e['k']
    if k in ('function', 'callback'):
        _function(x, e, k)
    elif k == 'constant':
        _constant(x, e)
    elif k == 'alias':
        x.open('alias', [('name', e['name']), ('c:type', e['ctype'])] + _info(e))
        _type(x, e['target'])
        x.close('alias')
    elif k in ('enumeration', 'bitfield'):
        x.open(k, [('name', e['name']), ('c:type', e['ctype'])] + _gtype(e)
               + [('glib:error-domain', e.get('error_domain'))] + _info(e))
        _annotations(x, e)
        for m in e['members']:
            pairs = [('name', m['name']), ('value', m['value']), ('c:identifier', m['cid']), ('glib:nick', m.get('nick'))] + _info(m)
            if m.get('attrs'):
                x.open('member', pairs)
                _annotations(x, m)
                x.close('member')
            else:
                x.open('member', pairs, close=True)
        for f in e['funcs']:
            _function(x, f, 'function')
        x.close(k)
    elif k == 'boxed':
        x.open('glib:boxed', [('glib:name', e['name'])] + _gtype(e) + _info(e))
        _annotations(x, e)
        for f in e['members']:
            _member(x, f)
        x.close('glib:boxed')
    elif k in ('record', 'union'):
        pairs = [('name', e['name']), ('c:type', e.get('ctype'))]
        if k == 'record':
            pairs += [('disguised', e.get('disguised')), ('opaque', e.get('opaque')), ('pointer', e.get('pointer')),
                      ('foreign', e.get('foreign')), ('glib:is-gtype-struct-for', e.get('gtype_struct_for'))]
        pairs += _gtype(e) + [('copy-function', e.get('copy')), ('free-function', e.get('free'))] + _info(e)
        x.open(k, pairs)
        _annotations(x, e)
        for m in e['members']:
            _member(x, m)
        x.close(k)
    elif k == 'class':
        x.open('class', [('name', e['name']), ('c:type', e.get('ctype')), ('parent', e.get('parent'))] + _gtype(e)
               + [('glib:type-struct', e.get('type_struct')), ('abstract', e.get('abstract')), ('final', e.get('final')),
                  ('glib:fundamental', e.get('fundamental')), ('glib:ref-func', e.get('ref')),
                  ('glib:unref-func', e.get('unref')), ('glib:set-value-func', e.get('setv')),
                  ('glib:get-value-func', e.get('getv'))] + _info(e))
        _annotations(x, e)
        for i in e['implements']:
            x.open('implements', [('name', i)], close=True)
        for m in e['members']:
            _member(x, m)
        x.close('class')
    elif k == 'interface':
        x.open('interface', [('name', e['name']), ('c:type', e.get('ctype'))] + _gtype(e)
               + [('glib:type-struct', e.get('type_struct'))] + _info(e))
        _annotations(x, e)
        for i in e['prereqs']:
            x.open('prerequisite', [('name', i)], close=True)
        for m in e['members']:
            _member(x, m)
        x.close('interface')
    else:
        raise ValueError(k)


def render_xml(doc):
    x = _X()
    x.lines.append('<?xml version="1.0"?>')
    x.open('repository', [('version', '1.2'), ('xmlns', CORE), ('xmlns:c', CNS), ('xmlns:glib', GLIBNS)])
    for n, v in doc['includes']:
        x.open('include', [('name', n), ('version', v)], close=True)
    x.open('namespace', [('name', doc['name']), ('version', doc['version']), ('shared-library', doc.get('shlib')),
                         ('c:identifier-prefixes', doc.get('idp')), ('c:symbol-prefixes', doc.get('symp'))])
    for e in doc['entries']:
        _entry(x, e)
    x.close('namespace')
    x.close('repository')
    return '\n'.join(x.lines) + '\n'


def gir_filename(doc):
    return '%s-%s.gir' % (doc['name'], doc['version'])


# ------------------------------------------------------------------------------ generation
_TEXT = st.text(alphabet=st.sampled_from(list('abcXYZ 09_-.,:;/<>&"\'%\\é中\n\t')), max_size=10)
_KIND_WEIGHTS = (['function'] * 4 + ['callback'] * 3 + ['record'] * 4 + ['union'] * 2 + ['boxed'] + ['enumeration'] * 2
                 + ['bitfield'] * 2 + ['class'] * 5 + ['interface'] * 3 + ['constant'] * 3 + ['alias'] * 2)
# C09: entry kinds when biased to container shapes
_BIAS_WEIGHTS = (['function'] * 8 + ['callback'] * 8 + ['record'] * 8 + ['union'] * 10 + ['boxed'] + ['enumeration'] * 9
                 + ['bitfield'] * 9 + ['class'] * 14 + ['interface'] * 8 + ['constant'] * 10 + ['alias'] * 3)
SHAPE_SECTIONS = ('fields', 'properties', 'methods', 'signals', 'vfuncs', 'constants')
_NAMEBASE = {'function': 'fn', 'callback': 'Cb', 'record': 'Rec', 'union': 'Un', 'boxed': 'Bx', 'enumeration': 'En',
             'bitfield': 'Fl', 'class': 'Obj', 'interface': 'If', 'constant': 'K', 'alias': 'Al'}
_TRI = [None, None, None, '0', '1', '1']           # absent / explicit 0 / explicit 1
_SIZES = [1, 1, 2, 2, 3, 3, 4, 5, 6, 8, 10, 13, 17, 25]


class _Gen(object):
    """Generates one namespace.  `env`: {ns: nsinfo} of the DIRECT includes; `glib`: GLib reachable."""

    def __init__(self, draw, name, version, includes, env, glib, n_entries, rare=True, bias=None):
        self.draw = draw
        # C09 container-shape bias (None = the unbiased generator C06 uses; nothing below draws
        # anything extra in that case).  {'shapes': [shape, ...]}: shapes forced on the first
        # classes/interfaces of the namespace, see _BIAS_DOC.
        self.bias = bias
        self.shapes = list((bias or {}).get('shapes') or [])
        self.name = name
        self.version = version
        self.includes = includes
        self.env = env
        self.glib = glib
        self.n = n_entries
        self.idp = name
        self.symp = name.lower()
        self.rare = rare
        self.plan = []
        self.local = {}          # name -> {'kind','ctype','ptr','idx','visible'}
        self.aliases = {}        # name -> target type model
        self.counter = 0

    # -- drawing helpers
    def i(self, a, b):
        return self.draw(st.integers(a, b))

    def pick(self, seq):
        return self.draw(st.sampled_from(list(seq)))

    def chance(self, num, den=10):
        return self.draw(st.integers(1, den)) <= num

    def tri(self):
        return self.pick(_TRI)

    def attrs(self, p=2, den=10):
        if self.bias is not None:
            p = min(den, 3 * p)
        if not self.chance(p, den):
            return []
        n = self.i(1, 3)
        return [['org.verif.a%d' % j if j else 'plain', self.draw(_TEXT)] for j in range(n)]

    def info(self, el, hide=1, attrs_den=10):
        el['intro'] = self.pick(['0'] * hide + ['1'] + [None] * (12 - hide)) if hide else self.pick([None] * 9 + ['1'])
        el['dep'] = self.pick([None] * 14 + ['1', '1', '1', '0'])
        el['attrs'] = self.attrs(2, attrs_den)
        return el

    # -- the type universe
    def type_refs(self, kinds, visible_only=True, before=None, byval=False):
        """[(name as written, info)] of interface types usable in a visible element."""
        out = []
        for n, inf in self.local.items():
            if inf['kind'] in kinds and (inf['visible'] or not visible_only):
                if byval and inf['kind'] in RECORDLIKE and (inf['ptr'] or before is None or inf['idx'] >= before):
                    continue
                out.append((n, inf))
        for ns in sorted(self.env):
            for n, inf in sorted(self.env[ns]['types'].items()):
                if inf['kind'] in kinds:
                    if ns == 'GLib' and n.startswith(('List', 'SList', 'HashTable', 'Error', 'Array', 'PtrArray', 'ByteArray')):
                        continue        # these names spell container types in a GIR
                    if byval and inf['kind'] in RECORDLIKE and (inf['ptr'] or not inf['byval']):
                        continue
                    out.append(('%s.%s' % (ns, n), inf))
        return out

    def ctype(self, base, where, stars, extra=0):
        """C spelling at a use site.  `stars`: indirection the value itself has; out/inout adds one."""
        if where != 'field' and self.chance(1):
            return None
        n = stars + extra + (1 if where == 'out' else 0)
        return base + '*' * n

    def t_basic(self, where, names=None):
        name = self.pick(names or VALUE_BASICS)
        extra = 1 if (where in ('in', 'field') and self.chance(1)) else 0
        return {'t': 'basic', 'name': name, 'ctype': self.ctype(BASIC[name][1], where, 0, extra)}

    def t_string(self, where):
        name = self.pick(['utf8', 'utf8', 'filename'])
        base = self.pick(['gchar', 'const gchar', 'char']) if where != 'out' else 'gchar'
        return {'t': 'basic', 'name': name, 'ctype': self.ctype(base, where, 1)}

    def t_pointer(self, where):
        return {'t': 'basic', 'name': 'gpointer', 'ctype': self.ctype(self.pick(['gpointer', 'gconstpointer']) if where != 'out' else 'gpointer', where, 0)}

    def t_iface(self, where, kinds=TYPE_KINDS, before=None, byval=False):
        refs = self.type_refs(kinds, before=before, byval=byval)
        al = [(n, a) for n, a in self.aliases.items() if a['kind'] in kinds] if not byval else []
        if not refs and not al:
            return None
        if al and self.chance(2):
            n, a = self.pick(al)
            inf = a
        else:
            if not refs:
                return None
            n, inf = self.pick(refs)
        if inf['kind'] == 'basic':
            return {'t': 'iface', 'name': n, 'ctype': self.ctype(inf['ctype'], where, 0)}
        if inf['kind'] in RECORDLIKE and not inf['ptr'] and not byval:
            stars = 1
            if where == 'out' and self.chance(3):
                # caller-allocates shape: "FooRec *out"
                return {'t': 'iface', 'name': n, 'ctype': inf['ctype'] + '*', '_ca': True}
        else:
            stars = 0
        return {'t': 'iface', 'name': n, 'ctype': self.ctype(inf['ctype'], where, stars)}

    def t_elem(self, depth, container):
        """element type of a container (as it would be written for an in-context value)"""
        r = self.i(0, 9)
        if depth >= 2 or r < 3:
            return self.t_string('elem')
        if r < 5:
            t = self.t_iface('elem', RECORDLIKE)
            if t is not None:
                return t
        if r < 6:
            return self.t_pointer('elem')
        if r < 7 and container in ('GLib.Array', 'C', 'hash'):
            return self.t_basic('elem', INT_BASICS + ['gdouble', 'gboolean'] if container != 'hash' else ['gint', 'guint'])
        if r < 8 and container in ('C', 'GLib.Array'):
            t = self.t_iface('elem', ('enumeration', 'bitfield'))
            if t is not None:
                return t
        if self.glib:
            return self.t_container('elem', depth + 1)
        return self.t_string('elem')

    def t_container(self, where, depth=0):
        # "Twins": the compiler deduplicates complex type blobs through a textual key (girnode.c serialize_type),
        # so two types of one namespace that differ in a single feature are what exposes a feature missing from
        # that key. Every container drawn at top level is remembered per position; about one in five is a copy
        # of an earlier one with exactly one feature changed.
        if depth == 0:
            pool = self.__dict__.setdefault('_twin_pool', {}).setdefault(where, [])
            if pool and self.chance(3):
                import copy
                T = copy.deepcopy(self.pick(pool))
                if T['t'] == 'array':
                    m = self.i(0, 3)
                    if m == 0 or T['akind'] != 'C':
                        T['zt'] = self.pick([x for x in (None, '0', '1') if x != T.get('zt')])
                    elif m == 1 and T.get('fixed') is not None:
                        T['fixed'] = self.pick([x for x in (1, 2, 3, 16, 255, 65535) if x != T['fixed']])
                    elif m == 2 and T.get('fixed') is None and not T.get('_want_length'):
                        T['fixed'] = self.pick([1, 2, 3, 16])
                    else:
                        T['zt'] = self.pick([x for x in (None, '0', '1') if x != T.get('zt')])
                elif T['t'] == 'list':
                    T['name'] = 'GLib.SList' if T['name'] == 'GLib.List' else 'GLib.List'
                    if T.get('ctype'):
                        T['ctype'] = T['ctype'].replace('GSList', 'GList') if T['name'] == 'GLib.List' else T['ctype'].replace('GList', 'GSList')
                elif T['t'] == 'hash' and T.get('kv'):
                    T['kv'][0] = self.pick([self.t_string('elem'), self.t_pointer('elem'), self.t_basic('elem', ['gint', 'guint'])])
                return T
            T = self._t_container(where, depth)
            if len(pool) < 12:
                import copy
                pool.append(copy.deepcopy(T))
            return T
        return self._t_container(where, depth)

    def _t_container(self, where, depth=0):
        r = self.i(0, 9)
        stars = '*' * (1 + (1 if where == 'out' else 0))
        nc = self.chance(1)
        if r < 4:
            akind = self.pick(['C', 'C', 'C', 'GLib.Array', 'GLib.PtrArray', 'GLib.ByteArray'])
            if akind == 'GLib.ByteArray':
                elem = {'t': 'basic', 'name': 'guint8', 'ctype': 'guint8'}
                ct = 'GByteArray' + stars
            elif akind == 'C':
                elem = self.t_elem(depth, 'C')
                ec = elem.get('ctype') or 'gpointer'
                ct = ec + stars
            else:
                elem = self.t_elem(depth, akind) if akind == 'GLib.Array' else self.t_elem_ptr(depth)
                ct = ('GArray' if akind == 'GLib.Array' else 'GPtrArray') + stars
            T = {'t': 'array', 'akind': akind, 'elem': elem, 'length': None, 'fixed': None, 'zt': None, 'ctype': None if nc else ct}
            if akind == 'C':
                m = self.pick([0, 1, 2, 3, 3, 4, 5])
                if m == 0:
                    T['zt'] = '1'
                elif m == 1:
                    T['fixed'] = self.pick([1, 2, 3, 16, 255, 65535])
                    T['zt'] = self.pick([None, '0', '1'])
                elif m == 2:
                    T['zt'] = '0'
                # m == 3: the length= index is filled in by the callable/field generator; else: no attribute
                T['_want_length'] = m == 3
            elif self.chance(2):
                T['zt'] = '0'
            return T
        if r < 7:
            name = self.pick(['GLib.List', 'GLib.SList'])
            elem = None if self.chance(1) else self.t_elem_ptr(depth)
            return {'t': 'list', 'name': name, 'elem': elem, 'ctype': None if nc else ('GList' if name == 'GLib.List' else 'GSList') + stars}
        if r < 9:
            kv = None if self.chance(1) else [self.pick([self.t_string('elem'), self.t_pointer('elem'),
                                                         self.t_basic('elem', ['gint', 'guint'])]), self.t_elem_ptr(depth)]
            return {'t': 'hash', 'kv': kv, 'ctype': None if nc else 'GHashTable' + stars}
        return {'t': 'error', 'ctype': None if nc else 'GError' + stars}

    def t_elem_ptr(self, depth):
        """pointer-sized element (lists, hash values, GPtrArray)"""
        r = self.i(0, 9)
        if depth >= 2 or r < 4:
            return self.t_string('elem')
        if r < 7:
            t = self.t_iface('elem', RECORDLIKE)
            if t is not None:
                return t
        if r < 8:
            return self.t_pointer('elem')
        if self.rare and r == 8 and self.chance(1, 4):
            # a container element without element types of its own (valid: <type> allows zero children)
            return {'t': 'list', 'name': 'GLib.List', 'elem': None, 'ctype': 'GList*'}
        return self.t_container('elem', depth + 1)

    def t_any(self, where):
        r = self.i(0, 19)
        if r < 5:
            return self.t_basic(where)
        if r < 7:
            return self.t_string(where)
        if r < 8:
            return self.t_pointer(where)
        if r < 14:
            t = self.t_iface(where)
            return t if t is not None else self.t_basic(where)
        if self.glib:
            return self.t_container(where)
        return self.t_basic(where)

    # -- callables
    def callable(self, instance=None, ret=None, allow_throws=True, maxp=5):
        n = self.pick([0, 1, 1, 2, 2, 3, 4, maxp])
        params = []
        for j in range(n):
            direction = self.pick([None, None, None, 'in', 'out', 'out', 'inout'])
            where = 'out' if direction in ('out', 'inout') else 'in'
            T = self.t_any(where)
            p = {'name': None if self.chance(1, 20) else 'p%d' % j, 'type': T, 'direction': direction,
                 'transfer': self.pick(['none', 'none', 'full', 'container']),
                 'nullable': self.tri() if self.chance(4) else None,
                 'allow_none': self.tri() if self.chance(2) else None,
                 'optional': self.tri() if self.chance(3) else None,
                 'caller_allocates': None, 'skip': self.tri() if self.chance(2) else None,
                 'scope': None, 'closure': None, 'destroy': None, 'attrs': self.attrs(1)}
            if direction == 'out':
                p['caller_allocates'] = '1' if T.pop('_ca', False) else self.pick([None, None, '0', '1'])
            else:
                T.pop('_ca', None)
            params.append(p)
        for j, p in enumerate(list(params)):
            T = p['type']
            is_cb = T['t'] == 'iface' and self.kind_of(T['name']) == 'callback'
            if is_cb or self.chance(1, 15):
                p['scope'] = self.pick([None, 'call', 'async', 'notified', 'forever'])
                if self.chance(6):
                    p['closure'] = self.i(0, n - 1)
                if self.chance(4):
                    p['destroy'] = self.i(0, n - 1)
            if T.get('_want_length') and not [k for k in range(len(params)) if k != j and self.is_int(params[k]['type'])] and len(params) < 8:
                params.append({'name': 'n_%d' % j, 'type': {'t': 'basic', 'name': 'guint', 'ctype': 'guint*' if p['direction'] in ('out', 'inout') else 'guint'},
                               'direction': p['direction'], 'transfer': 'none', 'nullable': None, 'allow_none': None, 'optional': None,
                               'caller_allocates': None, 'skip': None, 'scope': None, 'closure': None, 'destroy': None, 'attrs': []})
            self.fix_length(T, [k for k in range(len(params)) if k != j and self.is_int(params[k]['type'])])
        n = len(params)
        if ret is None:
            if self.chance(3):
                ret = {'t': 'basic', 'name': 'none', 'ctype': 'void'}
            else:
                ret = self.t_any('ret')
        ret.pop('_ca', None)
        self.fix_length(ret, [k for k in range(n) if self.is_int(params[k]['type'])])
        c = {'ret': {'type': ret, 'transfer': self.pick(['none', 'none', 'full', 'container']),
                     'nullable': self.tri() if self.chance(3) else None, 'skip': self.tri() if self.chance(2) else None,
                     'attrs': self.attrs(1)},
             'instance': None, 'params': params, 'throws': (self.tri() if self.chance(4) else None) if allow_throws else None}
        if instance is not None:
            nm, inf = instance
            c['instance'] = {'name': 'self', 'transfer': self.pick(['none', 'none', 'none', 'full']),
                             'type': {'t': 'iface', 'name': nm, 'ctype': inf['ctype'] + ('' if inf['ptr'] else '*')}}
        return c

    def fix_length(self, T, int_indices):
        if T['t'] == 'array' and T.pop('_want_length', False):
            if int_indices:
                T['length'] = self.pick(int_indices)
                T['zt'] = self.pick([None, '0', '1'])
        self.strip_marks(T)

    def strip_marks(self, T):
        T.pop('_want_length', None)
        for sub in ([T.get('elem')] if T.get('elem') else []) + (T.get('kv') or []):
            self.strip_marks(sub)

    def is_int(self, T):
        return T['t'] == 'basic' and T['name'] in INT_BASICS

    def kind_of(self, name):
        if name in self.aliases:
            return self.aliases[name]['kind']
        if name in self.local:
            return self.local[name]['kind']
        if '.' in name:
            ns, n = name.split('.', 1)
            inf = self.env.get(ns, {'types': {}})['types'].get(n)
            return inf['kind'] if inf else None
        return None

    def function(self, name, tag, owner=None, cprefix=None):
        """tag: function | method | constructor | callback | vfunc"""
        inst = owner if tag in ('method', 'vfunc') else None
        ret = None
        if tag == 'constructor':
            nm, inf = owner
            ret = {'t': 'iface', 'name': nm, 'ctype': inf['ctype'] + ('' if inf['ptr'] else '*')}
        f = {'name': name, 'callable': self.callable(instance=inst, ret=ret)}
        if tag == 'callback':
            f['ctype'] = (cprefix or self.idp) + name if self.chance(8) else None
        elif tag != 'vfunc':
            f['cid'] = '%s_%s' % (cprefix or self.symp, name.lower())
        return f

    # -- members
    def field(self, j, owner_idx, container_kind, prior_fields):
        f = self.info({'m': 'field', 'name': 'f%d' % j}, hide=1, attrs_den=40)
        f['dep'] = None
        f['readable'] = self.pick([None] * 8 + ['0', '1'])
        f['writable'] = self.pick([None, None, '0', '1'])
        f['private'] = self.pick([None, None, '0', '1'])
        f['bits'] = None
        f['callback'] = None
        r = self.i(0, 19)
        if self.bias is not None:
            # more embedded callbacks (variable field size); never in a union (the compiler aborts there)
            if container_kind in ('record', 'class') and self.chance(3):
                r = 13
            elif container_kind == 'union' and r in (13, 14):
                r = 0
        T = None
        if r < 5:
            T = self.t_basic('field')
            if self.is_int(T) and (T['ctype'] or '').count('*') == 0 and self.chance(2):
                f['bits'] = self.pick([1, 3, 7])
        elif r < 7:
            T = self.pick([self.t_string('field'), self.t_pointer('field')])
        elif r < 10:
            T = self.t_iface('field', RECORDLIKE + ('callback',))
        elif r < 13:
            T = self.t_iface('field', TYPE_KINDS, before=owner_idx, byval=True)
        elif r < 15 and container_kind in ('record', 'class', 'union'):
            cb = self.function('f%d' % j, 'callback')
            cb['ctype'] = None
            cb['intro'] = cb['dep'] = None
            cb['attrs'] = []
            f['callback'] = cb
            f['type'] = None
            return f
        elif r < 17:
            elem = self.pick([self.t_basic('elem'), self.t_string('elem'), self.t_pointer('elem')])
            T = {'t': 'array', 'akind': 'C', 'elem': elem, 'length': None, 'zt': self.pick([None, '0']),
                 'fixed': self.pick([1, 2, 4, 7, 32]), 'ctype': (elem.get('ctype') or 'gpointer')}
        elif self.glib:
            T = self.t_container('field')
            ints = [k for k, pf in enumerate(prior_fields) if pf.get('type') and self.is_int(pf['type'])]
            self.fix_length(T, ints)
            if T['t'] == 'array' and T.get('fixed') is not None and T['akind'] == 'C':
                T['fixed'] = None        # a fixed-size array in a field is embedded by value: handled above
                T['zt'] = '1'
        if T is None:
            T = self.t_basic('field')
        T.pop('_ca', None)
        self.strip_marks(T)
        f['type'] = T
        return f

    def property(self, j):
        p = self.info({'m': 'property', 'name': self.pick(['prop-%d', 'p%d', 'some_prop%d']) % j}, hide=1, attrs_den=40)
        p.update({'readable': self.pick([None, None, '0', '1']), 'writable': self.pick([None, '0', '1', '1']),
                  'construct': self.pick([None, None, '0', '1']), 'construct_only': self.pick([None, None, '0', '1']),
                  'transfer': self.pick([None, 'none', 'none', 'full', 'container']), 'setter': None, 'getter': None})
        r = self.i(0, 9)
        if r < 4:
            T = self.t_basic('prop')
        elif r < 6:
            T = self.t_string('prop')
        elif r < 9 or not self.glib:
            T = self.t_iface('prop') or self.t_basic('prop')
        else:
            T = self.t_container('prop')
        T.pop('_ca', None)
        self.strip_marks(T)
        p['type'] = T
        return p

    def signal(self, j):
        s = self.info({'m': 'signal', 'name': self.pick(['sig-%d', 'changed%d', 'a-b-c%d']) % j}, hide=1)
        s['dep'] = self.pick([None, None, None, '0', '1'])
        s.update({'when': self.pick([None, 'first', 'last', 'cleanup']), 'detailed': self.tri(), 'action': self.tri(),
                  'no_hooks': self.tri(), 'no_recurse': self.tri(), 'callable': self.callable(allow_throws=False, maxp=3)})
        return s

    def constant(self, name, member=False):
        k = self.info({'name': name}, hide=1, attrs_den=40 if member else 10)
        if member:
            k['m'] = 'constant'
        else:
            k['k'] = 'constant'
        al = [(n, a) for n, a in self.aliases.items() if a['kind'] == 'basic' and a['basic'] in INT_BASICS]
        r = self.i(0, 11)
        tname = None
        if r < 6:
            base = self.pick(INT_BASICS)
            if al and self.chance(2):
                tname, a = self.pick(al)
                base = a['basic']
            bits, signed = INT_TAGS[BASIC[base][0]]
            lo, hi = (-(1 << (bits - 1)), (1 << (bits - 1)) - 1) if signed else (0, (1 << bits) - 1)
            v = self.pick([lo, hi, 0, 1, self.i(lo, hi), self.i(max(lo, -300), min(hi, 300))])
            val = str(v)
        elif r < 8:
            base = self.pick(['gdouble', 'gdouble', 'gfloat'])
            v = self.pick([0.0, 1.5, -2.25, 3.141592653589793, 1e10, 1e-6, 123456.789, -0.0, 6.02214076e23])
            val = repr(v)
        elif r < 9:
            base = 'gboolean'
            val = self.pick(['true', 'false'])
        elif r < 11:
            base = self.pick(['utf8', 'utf8', 'filename'])
            val = self.draw(st.text(alphabet=st.sampled_from(list('abc XYZ09<>&"\'\\%é中\n\t')), max_size=14))
        else:
            base = 'gunichar' if self.rare else 'guint32'
            val = str(self.pick([65, 0x4e2d, 0x10ffff]))
        k['value'] = val
        k['ctype'] = (self.idp.upper() + '_' + name.upper()) if self.chance(8) else None
        k['type'] = {'t': 'iface' if tname else 'basic', 'name': tname or base,
                     'ctype': None if self.chance(1) else BASIC[base][1]}
        return k

    def members(self, e, idx, kinds, shape=None):
        """kinds: which member kinds this container takes.  Fills e['members'] (document order).
        shape (bias mode, classes and interfaces): {'fields','properties','methods','signals','vfuncs',
        'constants': bool}: the section is empty / has at least one member that reaches the typelib."""
        def count(section, seq, forced):
            if shape is None:
                return self.pick(seq)
            return self.pick(forced) if shape.get(section) else 0

        def keep_first(lst):
            if shape is not None and lst:
                lst[0]['intro'] = None
        me = (e['name'], self.local[e['name']])
        cpre = '%s_%s' % (self.symp, e['name'].lower())
        out = []
        fields = []
        if 'field' in kinds and not (e.get('opaque') == '1' or e.get('disguised') == '1' or e.get('pointer') == '1'):
            nf = count('fields', [0, 1, 1, 2, 3, 5], [1, 1, 2, 3])
            if e['k'] == 'class' and e.get('parent') and (shape is None or shape.get('fields')) and self.chance(7):
                pk = self.kind_of(e['parent'])
                pinf = self.local.get(e['parent']) or self.env[e['parent'].split('.')[0]]['types'][e['parent'].split('.')[1]]
                if pk == 'class' and (e['parent'] in self.local or pinf['byval']):
                    fields.append({'m': 'field', 'name': 'parent_instance', 'intro': None, 'dep': None, 'attrs': [],
                                   'readable': None, 'writable': None, 'private': None, 'bits': None, 'callback': None,
                                   'type': {'t': 'iface', 'name': e['parent'], 'ctype': pinf['ctype']}})
            for j in range(nf):
                fields.append(self.field(j, idx, e['k'], fields))
        out += fields
        props = []
        if 'property' in kinds:
            props = [self.property(j) for j in range(count('properties', [0, 0, 1, 2, 4], [1, 2, 4]))]
            keep_first(props)
            out += props
        funcs = []
        tags = [t for t in ('method', 'constructor', 'function') if t in kinds]
        if tags:
            nfn = count('methods', [0, 1, 2, 2, 3, 5], [1, 2, 2, 3, 5])
            for j in range(nfn):
                tag = self.pick(tags)
                f = self.function('%s%d' % ({'method': 'do', 'constructor': 'new', 'function': 'st'}[tag], j), tag, owner=me, cprefix=cpre)
                f['m'] = tag
                self.info(f, hide=1)
                f['moved_to'] = None
                funcs.append(f)
            keep_first(funcs)
            self.decorate_functions(funcs, self.name + '.' + e['name'] + '.')
        out += funcs
        meths = [f for f in funcs if f['m'] == 'method' and visible(f) and not f.get('shadows')]
        vprops = [p for p in props if visible(p)]
        if meths and vprops:
            for f in meths:
                if self.chance(3):
                    f[self.pick(['set_property', 'get_property'])] = self.pick(vprops)['name']
            for p in vprops:
                if self.chance(3):
                    p['setter'] = self.pick(meths)['name']
                if self.chance(3):
                    p['getter'] = self.pick(meths)['name']
        if 'signal' in kinds:
            sigs = [self.signal(j) for j in range(count('signals', [0, 0, 1, 2, 3], [1, 2, 3]))]
            keep_first(sigs)
            out += sigs
        if 'vfunc' in kinds:
            vfs = []
            for j in range(count('vfuncs', [0, 0, 1, 2, 3], [1, 2, 3])):
                v = self.function('vf%d' % j, 'vfunc', owner=me)
                v['m'] = 'vfunc'
                self.info(v, hide=1)
                v['invoker'] = self.pick(meths)['name'] if meths and self.chance(5) else None
                vfs.append(v)
            keep_first(vfs)
            out += vfs
        if 'constant' in kinds:
            consts = [self.constant('MK%d' % j, member=True) for j in range(count('constants', [0, 0, 0, 1, 2], [1, 1, 2]))]
            keep_first(consts)
            out += consts
        if self.chance(3):
            out = list(self.draw(st.permutations(out)))
        e['members'] = out

    def decorate_functions(self, funcs, qual):
        """shadows / shadowed-by pairs, moved-to and async links among sibling functions."""
        plain = [f for f in funcs if visible(f)]
        if len(plain) >= 2 and self.chance(2):
            a, b = plain[0], plain[1]
            if a.get('m', 'function') == b.get('m', 'function'):
                a['shadowed_by'] = b['name']
                b['shadows'] = a['name']
        for f in funcs:
            if self.chance(1, 12):
                f['moved_to'] = qual + f['name'] + '_moved'
        vis = [f for f in funcs if visible(f)]
        if len(vis) >= 2 and self.chance(2):
            a, b = vis[-1], vis[-2]
            a['finish_func'] = b['name']
            if self.chance(5):
                a['sync_func'] = b['name']
                b['async_func'] = a['name']

    # -- planning and entries
    def make_plan(self):
        idx = 0
        # bias mode: three interfaces first (so that classes can implement and interfaces can require
        # 0-3 of them), then one entry per forced shape and at least one class, then n entries drawn
        # with the container weights
        forced = []
        if self.bias is not None:
            forced = ['interface'] * 3 + [sh['k'] for sh in self.shapes]
            if 'class' not in forced:
                forced.append('class')
        limit = self.n + len(forced)
        while idx < limit or forced:
            was_forced = bool(forced)
            k = forced.pop(0) if forced else self.pick(_KIND_WEIGHTS if self.bias is None else _BIAS_WEIGHTS)
            name = '%s%d' % (_NAMEBASE[k], idx)
            if k == 'constant':
                name = name.upper()
            p = {'k': k, 'name': name, 'idx': idx}
            p['intro'] = self.pick(['0'] + ['1'] + [None] * 10)
            if k == 'record':
                flag = self.pick([None] * 6 + ['disguised', 'opaque', 'pointer', 'foreign'])
                p['flag'] = flag
            if was_forced:
                p['intro'] = None
            if k in ('class', 'interface') and self.chance(5):
                p['type_struct'] = name + ('Class' if k == 'class' else 'Iface')
            self.plan.append(p)
            idx += 1
            if p.get('type_struct'):
                self.plan.append({'k': 'record', 'name': p['type_struct'], 'idx': idx, 'intro': None, 'flag': None,
                                  'gtype_struct_for': name})
                idx += 1
                if p['intro'] == '0':
                    p['intro'] = None
        for p in self.plan:
            if p['k'] in TYPE_KINDS:
                ptr = p['k'] == 'record' and p.get('flag') in ('disguised', 'pointer')
                self.local[p['name']] = {'kind': p['k'], 'ctype': self.idp + p['name'], 'ptr': ptr, 'idx': p['idx'],
                                         'visible': p['intro'] != '0', 'byval': True}

    def make_aliases(self):
        """Targets are decided before any body so that bodies can use every alias."""
        for p in self.plan:
            if p['k'] != 'alias':
                continue
            r = self.i(0, 9)
            if r < 4:
                b = self.pick(INT_BASICS + ['gdouble', 'utf8', 'gpointer'])
                tgt = {'t': 'basic', 'name': b, 'ctype': BASIC[b][1]}
                a = {'kind': 'basic', 'basic': b, 'ctype': self.idp + p['name'], 'ptr': BASIC[b][2]}
            else:
                prev = [(n, x) for n, x in self.aliases.items()]
                refs = self.type_refs(TYPE_KINDS)
                if prev and r < 6:
                    n, x = self.pick(prev)
                    tgt = {'t': 'iface', 'name': n, 'ctype': x['ctype']}
                    a = dict(x, ctype=self.idp + p['name'])
                elif refs:
                    n, inf = self.pick(refs)
                    tgt = {'t': 'iface', 'name': n, 'ctype': inf['ctype']}
                    a = {'kind': inf['kind'], 'ctype': self.idp + p['name'], 'ptr': inf['ptr']}
                else:
                    tgt = {'t': 'basic', 'name': 'gint', 'ctype': 'gint'}
                    a = {'kind': 'basic', 'basic': 'gint', 'ctype': self.idp + p['name'], 'ptr': False}
            p['target'] = tgt
            # a use site of an alias is written with the alias' own C name (a typedef of the target)
            self.aliases[p['name']] = a

    def next_shape(self, kind):
        """bias mode: the forced shape planned for this class/interface, else a drawn one (every section
        empty or not with probability 1/2, 0-3 interfaces/prerequisites); None without bias."""
        if self.bias is None:
            return None
        for j, sh in enumerate(self.shapes):
            if sh['k'] == kind:
                return self.shapes.pop(j)
        sh = {'k': kind, 'n': self.pick([0, 0, 1, 1, 2, 3])}
        for sec in SHAPE_SECTIONS:
            sh[sec] = self.chance(5)
        return sh

    def gtype(self, name, force=False):
        if force or self.chance(5):
            return [self.idp + name, '%s_%s_get_type' % (self.symp, name.lower())]
        return None

    def entry(self, p):
        k, name, idx = p['k'], p['name'], p['idx']
        if k == 'alias':
            return {'k': 'alias', 'name': name, 'ctype': self.idp + name, 'target': p['target'], 'intro': None, 'dep': None, 'attrs': []}
        if k == 'constant':
            e = self.constant(name)
            e['intro'] = p['intro']
            return e
        if k in ('function', 'callback'):
            e = self.function(name, k)
            e['k'] = k
            self.info(e, hide=0)
            e['intro'] = p['intro']
            e['moved_to'] = None
            return e
        e = self.info({'k': k, 'name': name}, hide=0)
        e['intro'] = p['intro']
        e['ctype'] = self.idp + name
        if k in ('enumeration', 'bitfield'):
            e['gtype'] = self.gtype(name)
            e['error_domain'] = ('%s-%s-quark' % (self.symp, name.lower())) if k == 'enumeration' and self.chance(2) else None
            nm = self.pick([0, 1, 2, 3, 4, 6])
            neg = k == 'enumeration' and self.chance(3)
            members = []
            for j in range(nm):
                if k == 'bitfield':
                    v = self.pick([0, 1 << self.i(0, 31), 1 << j, (1 << 32) - 1])
                elif neg:
                    v = self.pick([-1, -128, -129, -(1 << 31), j, 127, (1 << 31) - 1, self.i(-(1 << 31), (1 << 31) - 1)])
                else:
                    v = self.pick([j, j, 127, 128, 255, 256, 65535, (1 << 31) - 1, 1 << 31, (1 << 32) - 1, self.i(0, (1 << 32) - 1)])
                mname = self.pick(['m%d', 'val_%d', 'v-%d']) % j
                members.append({'name': mname, 'value': str(v), 'cid': '%s_%s_M%d' % (self.idp.upper(), name.upper(), j),
                                'nick': self.pick([None, mname.replace('_', '-')]), 'intro': None,
                                'dep': self.pick([None] * 8 + ['1', '1', '0']), 'attrs': self.attrs(1, 40)})
            e['members'] = members
            funcs = []
            for j in range(self.pick([0, 0, 0, 1, 2] if self.bias is None else [0, 1, 1, 2])):
                f = self.function('ef%d' % j, 'function', cprefix='%s_%s' % (self.symp, name.lower()))
                self.info(f, hide=1)
                f['moved_to'] = None
                funcs.append(f)
            e['funcs'] = funcs
            return e
        if k == 'boxed':
            e['gtype'] = self.gtype(name, force=True)
            del e['ctype']
            self.members(e, idx, ('function',))
            return e
        if k == 'record':
            flag = p.get('flag')
            for fl in ('disguised', 'opaque', 'pointer', 'foreign'):
                e[fl] = '1' if flag == fl else (self.pick([None, None, None, '0']))
            e['gtype'] = self.gtype(name) if not p.get('gtype_struct_for') else None
            e['gtype_struct_for'] = p.get('gtype_struct_for')
            e['copy'] = ('%s_%s_copy' % (self.symp, name.lower())) if self.chance(2) else None
            e['free'] = ('%s_%s_free' % (self.symp, name.lower())) if self.chance(2) else None
            self.members(e, idx, ('field', 'method', 'constructor', 'function'))
            return e
        if k == 'union':
            e['gtype'] = self.gtype(name)
            e['copy'] = ('%s_%s_copy' % (self.symp, name.lower())) if self.chance(2) else None
            e['free'] = ('%s_%s_free' % (self.symp, name.lower())) if self.chance(2) else None
            self.members(e, idx, ('field', 'method', 'constructor', 'function'))
            return e
        if k == 'class':
            e['gtype'] = self.gtype(name, force=True)
            parents = [(n, i) for n, i in self.type_refs(('class',)) if '.' in n or i['idx'] < idx]
            fundamental = not parents or self.chance(1)
            e['parent'] = None if (fundamental and self.chance(7)) or not parents else self.pick(parents)[0]
            e['abstract'] = self.tri()
            e['final'] = self.pick([None, None, None, '0', '1'])
            e['fundamental'] = '1' if fundamental else self.pick([None, None, None, None, '0'])
            for key, sfx in (('ref', 'ref'), ('unref', 'unref'), ('setv', 'value_set'), ('getv', 'value_get')):
                e[key] = '%s_%s_%s' % (self.symp, name.lower(), sfx) if fundamental and self.chance(8) else None
            e['type_struct'] = p.get('type_struct')
            ifs = [n for n, i in self.type_refs(('interface',))]
            shape = self.next_shape('class')
            if shape is None:
                e['implements'] = list(self.draw(st.lists(st.sampled_from(ifs), max_size=3, unique=True))) if ifs and self.chance(8) else []
            else:
                n = min(shape['n'], len(ifs))
                e['implements'] = list(self.draw(st.lists(st.sampled_from(ifs), min_size=n, max_size=n, unique=True))) if n else []
            self.members(e, idx, ('field', 'property', 'method', 'constructor', 'function', 'signal', 'vfunc', 'constant'), shape)
            return e
        if k == 'interface':
            e['gtype'] = self.gtype(name, force=True)
            e['type_struct'] = p.get('type_struct')
            pre = [n for n, i in self.type_refs(('interface', 'class')) if n != name]
            shape = self.next_shape('interface')
            if shape is None:
                e['prereqs'] = list(self.draw(st.lists(st.sampled_from(pre), max_size=3, unique=True))) if pre and self.chance(6) else []
            else:
                n = min(shape['n'], len(pre))
                e['prereqs'] = list(self.draw(st.lists(st.sampled_from(pre), min_size=n, max_size=n, unique=True))) if n else []
            kinds = ['property', 'method', 'function', 'signal', 'vfunc', 'constant']
            if self.rare and self.chance(1, 12):
                kinds.append('constructor')
            self.members(e, idx, tuple(kinds), shape)
            return e
        raise ValueError(k)

    def document(self):
        self.make_plan()
        self.make_aliases()
        entries = [self.entry(p) for p in self.plan]
        tops = [e for e in entries if e['k'] == 'function']
        self.decorate_functions(tops, self.name + '.')
        shl = self.pick([None, 'lib%s.so.0' % self.symp, 'lib%s-1.so.0,libother.so' % self.symp, 'lib a.so'])
        return {'name': self.name, 'version': self.version, 'shlib': shl,
                'idp': self.pick([self.idp, self.idp, self.idp, None]) and self.idp,
                'symp': self.pick([self.symp, self.symp, None]),
                'includes': [list(i) for i in self.includes], 'entries': entries}


def _reaches_glib(names, infos):
    seen, todo = set(), list(names)
    while todo:
        n = todo.pop()
        if n in seen:
            continue
        seen.add(n)
        if n == 'GLib':
            return True
        todo += [i[0] for i in infos[n]['includes']]
    return False


@st.composite
def cases(draw, max_entries=25, rare=True, bias=None):
    """Strategy of cases {'docs': [dependency docs..., main doc]}.
    bias (C09; None = unchanged behaviour): {'shapes': [{'k': 'class'|'interface', 'n': interfaces /
    prerequisites wanted (0-3), 'fields'.. 'constants': bool}, ...]} forces these container shapes on
    the first classes/interfaces of the MAIN namespace; all other classes/interfaces of every
    namespace of the case draw a shape (each member section empty or not with probability 1/2).
    Bias mode also plans three interfaces first, prefers container kinds, embeds more callbacks in
    record/class fields (never in unions) and attaches more <attribute> children."""
    ndeps = draw(st.sampled_from([0, 0, 1, 1, 2]))
    docs = []
    infos = {n: nsinfo_from_fixture(n) for n in FIXTURE_NAMES}
    names = ['Dpa', 'Dpb', 'Vf']
    for di in range(ndeps + 1):
        main = di == ndeps
        name = 'Vf' if main else names[di]
        version = draw(st.sampled_from(['1.0', '2.6', '0.1']))
        avail = [[d['name'], d['version']] for d in docs] + [[n, '2.0'] for n in FIXTURE_NAMES]
        if main and docs:
            # the main namespace includes at least one generated sibling
            first = [docs[-1]['name'], docs[-1]['version']]
            rest = draw(st.lists(st.sampled_from([a for a in avail if a != first]), max_size=2, unique_by=lambda a: a[0]))
            incl = [first] + rest
        else:
            incl = draw(st.lists(st.sampled_from(avail), max_size=3, unique_by=lambda a: a[0]))
        incl = [list(i) for i in draw(st.permutations(incl))] if incl else []
        env = {i[0]: infos[i[0]] for i in incl}
        n = draw(st.sampled_from(_SIZES if main else _SIZES[:10]))
        g = _Gen(draw, name, version, incl, env, _reaches_glib([i[0] for i in incl], infos), min(n, max_entries), rare=rare,
                 bias=None if bias is None else {'shapes': list(bias.get('shapes') or []) if main else []})
        doc = g.document()
        _mark_sizeable(doc)
        docs.append(doc)
        infos[name] = nsinfo_from_doc(doc)
    return {'docs': docs}


def _mark_sizeable(doc):
    """Record-like visible entries of a generated namespace may be embedded by value by includers."""
    for e in doc['entries']:
        if e['k'] in RECORDLIKE:
            e['_sizeable'] = True


def simple_doc(entries, name='Vf', includes=(('GObject', '2.0'),), shlib=None):
    """Hand-written documents (witnesses, boundary documents)."""
    return {'name': name, 'version': '1.0', 'shlib': shlib, 'idp': name, 'symp': name.lower(),
            'includes': [list(i) for i in includes], 'entries': entries}
