"""Substrate P calibration aid: an independent recursive-descent parser for the C *header
subset* that vlib/cmodel.py can represent.

    parse_header(text, filename='/src/foo.h') -> [cmodel Decl dict, ...]
    extract_comments(text, filename)          -> [(text, filename, line), ...]   (/** ... */ only)
    normalise(decls)                          -> canonical form of a cmodel decl list (what
                                                 parse_header(cmodel.to_header_text(decls)) must equal)

Written from C declarator syntax (ISO C 6.7), not from cmodel.to_header_text.  Identifiers are
type names iff they were typedef'd earlier in the text or are in PRELUDE_TYPEDEFS (what <glib.h>
would have declared).  Anything the model cannot express raises Unsupported: never guess.

Two things follow giscanner/scannerlexer.l rather than ISO C, because they are lexer-level
conventions with no C meaning: the gtk-doc markers /*< private >*/ /*< public >*/ /*< flags >*/
(state machine: reset by the struct/union/enum keyword, sampled right after the token that ends
a member), and which `#define` lines count (line-oriented, see parse_macros in scannerparser.y).
Every decl carries 'file' and 'line' (the line the real front end would report: the declarator's
identifier for declarations, the closing brace for `struct tag {...}` symbols ('line_body'), the
#define line for macros).
"""
import re

CONST = 1 << 1
VOLATILE = 1 << 3


class Unsupported(Exception):
    pass


PRELUDE_TYPEDEFS = set('''
gint guint gchar guchar gshort gushort glong gulong gboolean gpointer gconstpointer gsize gssize
goffset gintptr guintptr gint8 guint8 gint16 guint16 gint32 guint32 gint64 guint64 gfloat gdouble
gunichar gunichar2 GType GQuark GObject GObjectClass GInitiallyUnowned GInitiallyUnownedClass
GTypeInterface GTypeInstance GTypeClass GList GSList GHashTable GError GVariant GVariantType GArray
GPtrArray GByteArray GBytes GString GValue GParamSpec GClosure GDestroyNotify GCallback GFunc
GCompareFunc GAsyncReadyCallback GAsyncResult GCancellable GInputStream GOutputStream GFile GDate
GDateTime GMainContext GMainLoop GSource GStrv va_list size_t ssize_t time_t off_t pid_t uid_t gid_t
int8_t uint8_t int16_t uint16_t int32_t uint32_t int64_t uint64_t intptr_t uintptr_t FILE
__builtin_va_list
'''.split())

# object-like macros that the preprocessor would have turned into nothing / an attribute
IGNORED_MACROS = set('''
GI_TEST_EXTERN G_GNUC_CONST G_GNUC_PURE G_GNUC_MALLOC G_GNUC_WARN_UNUSED_RESULT
G_GNUC_NULL_TERMINATED G_GNUC_DEPRECATED G_GNUC_INTERNAL G_GNUC_UNUSED G_GNUC_NORETURN
G_BEGIN_DECLS G_END_DECLS GLIB_AVAILABLE_IN_ALL G_MODULE_EXPORT _GI_TEST_EXTERN
'''.split())
IGNORED_MACROS_WITH_ARGS = set('''
G_GNUC_PRINTF G_GNUC_DEPRECATED_FOR G_GNUC_ALLOC_SIZE G_GNUC_ALLOC_SIZE2 G_GNUC_FORMAT
__attribute__ __attribute
'''.split())

BASIC_WORDS = ('char', 'short', 'int', 'long', 'float', 'double', 'signed', 'unsigned', '_Bool', 'bool')
STORAGE_WORDS = ('typedef', 'extern', 'static')
INLINE_WORDS = ('inline', '__inline', '__inline__')
UNSUPPORTED_WORDS = ('restrict', '__restrict', '__restrict__', 'auto', 'register', '_Thread_local',
                     'thread_local', '_Complex', '_Atomic', '_Alignas', '_Noreturn', '__extension__',
                     '__typeof__', '__typeof', 'typeof', 'sizeof', '_Static_assert', 'asm', '__asm__',
                     '__asm', '_Alignof', 'alignof', '__alignof__')
KEYWORDS = set(BASIC_WORDS + STORAGE_WORDS + INLINE_WORDS + UNSUPPORTED_WORDS +
               ('void', 'const', 'volatile', 'struct', 'union', 'enum', 'if', 'else', 'for', 'while',
                'do', 'return', 'switch', 'case', 'default', 'break', 'continue', 'goto'))

_MARKER_RE = re.compile(r'/\*[\t ]?<([\t ,=A-Za-z0-9_]+)>[\t ]?\*/')
_PUNCT3 = ('...', '<<=', '>>=')
_PUNCT2 = ('<<', '>>', '->', '++', '--', '<=', '>=', '==', '!=', '&&', '||', '+=', '-=', '*=', '/=',
           '%=', '^=', '&=', '|=', '##')


class Tok(object):
    __slots__ = ('kind', 'text', 'line', 'data')

    def __init__(self, kind, text, line, data=None):
        self.kind, self.text, self.line, self.data = kind, text, line, data

    def __repr__(self):
        return 'Tok(%s %r @%d)' % (self.kind, self.text, self.line)


# ------------------------------------------------------------------------------------ lexer
def _lex(text, filename, comments, directives=True, line0=1):
    """C tokens + 'marker' tokens + 'define' tokens.  Doc comments are appended to `comments`."""
    toks = []
    i, n, line = 0, len(text), line0
    bol = True                     # only horizontal space seen since the last newline
    guard_pending = None
    guards = []
    while i < n:
        c = text[i]
        if c == '\n':
            line += 1
            i += 1
            bol = True
            continue
        if c in ' \t\f\v\r':
            i += 1
            continue
        if c == '\\' and text[i + 1:i + 2] == '\n':
            line += 1
            i += 2
            continue
        if text.startswith('//', i):
            j = text.find('\n', i)
            i = n if j < 0 else j
            continue
        if text.startswith('/*', i):
            j = text.find('*/', i + 2)
            if j < 0:
                raise Unsupported('%s:%d: unterminated comment' % (filename, line))
            body = text[i:j + 2]
            for k, cl in enumerate(body.split('\n')):
                if k and cl.lstrip(' \t').startswith('#'):
                    raise Unsupported('%s:%d: line starting with # inside a comment (the macro scan is '
                                      'line-oriented and would read it)' % (filename, line + k))
            m = _MARKER_RE.match(body)
            if m and m.end() == len(body):
                items = [x.strip() for x in m.group(1).split(',')]
                toks.append(Tok('marker', body, line, items))
            elif len(body) >= 5 and body[2] == '*' and body[3] not in '*/':
                comments.append((body, filename, line))
            line += body.count('\n')
            i = j + 2
            continue
        if c == '#' and bol and directives:
            # logical line
            j = i
            buf = []
            start_line = line
            while j < n:
                if text[j] == '\\' and text[j + 1:j + 2] == '\n':
                    j += 2
                    line += 1
                    continue
                if text[j] == '\n':
                    break
                buf.append(text[j])
                j += 1
            i = j
            dline = ''.join(buf)
            m = re.match(r'#[ \t]*([A-Za-z_]*)(.*)$', dline, re.S)
            name, rest = m.group(1), m.group(2)
            if guard_pending is not None and not (name == 'define' and rest.strip() == guard_pending):
                raise Unsupported('%s:%d: #ifndef %s is not an include guard' % (filename, start_line, guard_pending))
            if name in ('include', 'pragma', 'undef'):
                continue
            if name == 'ifndef' and re.match(r'[ \t]+[A-Za-z_]\w*[ \t]*(/\*.*\*/)?[ \t]*$', rest):
                guard_pending = rest.split()[0]
                continue
            if name == 'endif':
                if not guards:
                    raise Unsupported('%s:%d: unbalanced #endif' % (filename, start_line))
                guards.pop()
                continue
            if name != 'define':
                raise Unsupported('%s:%d: preprocessor directive #%s' % (filename, start_line, name))
            if not rest or rest[0] not in ' \t':
                raise Unsupported('%s:%d: malformed #define' % (filename, start_line))
            m2 = re.match(r'[ \t]+([A-Za-z_]\w*)(.*)$', rest, re.S)
            if not m2:
                raise Unsupported('%s:%d: malformed #define' % (filename, start_line))
            mname, tail = m2.group(1), m2.group(2)
            if guard_pending is not None:
                guards.append(guard_pending)
                guard_pending = None
                continue
            if tail.startswith('('):
                k = tail.find(')')
                if k < 0:
                    raise Unsupported('%s:%d: macro parameter list spans lines' % (filename, start_line))
                toks.append(Tok('define', mname, start_line, {'params': tail[1:k], 'body': None}))
            elif tail == '' or tail.strip() == '':
                pass        # `#define NAME`: no character after the name, the macro scan drops the line
            elif tail[0] in ' \t':
                toks.append(Tok('define', mname, start_line, {'params': None, 'body': tail}))
            else:
                raise Unsupported('%s:%d: #define %s followed by %r' % (filename, start_line, mname, tail[0]))
            continue
        bol = False
        if guard_pending is not None:
            raise Unsupported('%s:%d: #ifndef %s is not an include guard' % (filename, line, guard_pending))
        if c.isalpha() or c == '_':
            j = i + 1
            while j < n and (text[j].isalnum() or text[j] == '_'):
                j += 1
            word = text[i:j]
            if word == 'L' and text[j:j + 1] in ('"', "'"):
                raise Unsupported('%s:%d: wide literal' % (filename, line))
            toks.append(Tok('id', word, line))
            i = j
            continue
        if c.isdigit() or (c == '.' and text[i + 1:i + 2].isdigit()):
            j = i + 1
            while j < n and (text[j].isalnum() or text[j] in '._' or
                             (text[j] in '+-' and text[j - 1] in 'eE' and not text[i:i + 2].lower() == '0x')):
                j += 1
            toks.append(Tok('num', text[i:j], line))
            i = j
            continue
        if c == '"' or c == "'":
            j = i + 1
            while j < n and text[j] != c:
                if text[j] == '\n':
                    raise Unsupported('%s:%d: newline in literal' % (filename, line))
                j += 2 if text[j] == '\\' else 1
            if j >= n:
                raise Unsupported('%s:%d: unterminated literal' % (filename, line))
            toks.append(Tok('str' if c == '"' else 'chr', text[i:j + 1], line))
            i = j + 1
            continue
        for p in _PUNCT3 + _PUNCT2:
            if text.startswith(p, i):
                toks.append(Tok('punct', p, line))
                i += len(p)
                break
        else:
            if c in '{}[]();:?.+-*/%^&|~!=<>,':
                toks.append(Tok('punct', c, line))
                i += 1
            else:
                raise Unsupported('%s:%d: unexpected character %r' % (filename, line, c))
    if guards or guard_pending:
        raise Unsupported('%s: unterminated #ifndef' % filename)
    toks.append(Tok('eof', '', line))
    return toks


def _drop_ignored(toks, ignore, ignore_args):
    out = []
    i = 0
    while i < len(toks):
        t = toks[i]
        if t.kind == 'id' and t.text in ignore:
            i += 1
            continue
        if t.kind == 'id' and t.text in ignore_args:
            i += 1
            while toks[i].kind == 'marker':
                i += 1
            if not (toks[i].kind == 'punct' and toks[i].text == '('):
                raise Unsupported('%d: %s without arguments' % (t.line, t.text))
            depth = 0
            while True:
                tt = toks[i]
                if tt.kind == 'eof':
                    raise Unsupported('%d: unbalanced parentheses after %s' % (t.line, t.text))
                if tt.kind == 'punct' and tt.text == '(':
                    depth += 1
                elif tt.kind == 'punct' and tt.text == ')':
                    depth -= 1
                i += 1
                if depth == 0:
                    break
            continue
        out.append(t)
        i += 1
    return out


def extract_comments(text, filename):
    """(text, filename, line) of every /** ... */ block, the way the lexer reports them: text runs
    from the opening slash to the closing slash, line is that of the opening token.  String and
    character literals are honoured; nothing else of the file is interpreted (.c files)."""
    out = []
    i, n, line = 0, len(text), 1
    while i < n:
        c = text[i]
        if c == '\n':
            line += 1
            i += 1
        elif text.startswith('//', i):
            j = text.find('\n', i)
            i = n if j < 0 else j
        elif text.startswith('/*', i):
            j = text.find('*/', i + 2)
            if j < 0:
                break
            body = text[i:j + 2]
            m = _MARKER_RE.match(body)
            if not (m and m.end() == len(body)) and len(body) >= 5 and body[2] == '*' and body[3] not in '*/':
                out.append((body, filename, line))
            line += body.count('\n')
            i = j + 2
        elif c == '"' or c == "'":
            j = i + 1
            while j < n and text[j] != c and text[j] != '\n':
                j += 2 if text[j] == '\\' else 1
            i = j + 1 if j < n and text[j] == c else j
        else:
            i += 1
    return out


# ------------------------------------------------------------------------------------ literals
def _int_literal(tok, where):
    """-> (value, hex, usuffix) with the value ISO C gives, provided the real front end agrees."""
    s = tok.text
    m = re.match(r'(0x[0-9a-fA-F]+|0[0-7]*|[1-9][0-9]*)([uUlL]*)$', s)
    if not m:
        raise Unsupported('%s: integer literal %r' % (where, s))
    digits, suffix = m.group(1), m.group(2)
    if digits.startswith('0x'):
        v, is_hex = int(digits[2:], 16), True
    elif digits[0] == '0' and len(digits) > 1:
        v, is_hex = int(digits, 8), False
    else:
        v, is_hex = int(digits, 10), False
    if v >= 1 << 64:
        raise Unsupported('%s: literal %r does not fit 64 bits' % (where, s))
    if suffix in ('', 'L', 'LL', 'l', 'll'):
        us = False
    elif suffix in ('U', 'UL', 'ULL', 'Ul', 'Ull'):
        us = True
    else:
        raise Unsupported('%s: integer suffix %r (the front end only recognises a leading capital U)' % (where, suffix))
    return v, is_hex, us


_SIMPLE_ESC = {'n': '\n', 't': '\t', 'b': '\b', 'f': '\f', 'r': '\r', '"': '"', "'": "'", '\\': '\\', '?': '?'}


def _string_literal(tok, where):
    s = tok.text[1:-1]
    out = bytearray()
    i = 0
    while i < len(s):
        c = s[i]
        if c != '\\':
            out.extend(c.encode('utf-8'))
            i += 1
            continue
        i += 1
        e = s[i]
        if e in _SIMPLE_ESC:
            out.extend(_SIMPLE_ESC[e].encode())
            i += 1
        elif e in '01234567':
            j = i
            v = 0
            while j < len(s) and j < i + 3 and s[j] in '01234567':
                v = v * 8 + int(s[j])
                j += 1
            if v == 0 or v > 255:
                raise Unsupported('%s: octal escape \\%s' % (where, s[i:j]))
            out.append(v)
            i = j
        elif e == 'x':
            j = i + 1
            while j < len(s) and s[j] in '0123456789abcdefABCDEF':
                j += 1
            if not (1 <= j - i - 1 <= 2) or int(s[i + 1:j], 16) == 0:
                raise Unsupported('%s: hex escape \\%s' % (where, s[i:j]))
            out.append(int(s[i + 1:j], 16))
            i = j
        else:
            raise Unsupported('%s: escape \\%s' % (where, e))
    try:
        return bytes(out).decode('utf-8')
    except UnicodeDecodeError:
        raise Unsupported('%s: string is not UTF-8' % where)
