"""Substrate P calibration aid: an independent recursive-descent parser for the C *header
subset* that vlib/cmodel.py can represent.

    parse_header(text, filename='/src/foo.h') -> [cmodel Decl dict, ...]
    extract_comments(text, filename)          -> [(text, filename, line), ...]   (/** ... */ only)
    normalise(decls)                          -> canonical form of a cmodel decl list (what
                                                 parse_header(cmodel.to_header_text(decls)) must equal)

Written from C declarator syntax (ISO C 6.7), not from cmodel.to_header_text.  Identifiers are
type names iff they were typedef'd earlier in the text or are in PRELUDE_TYPEDEFS (what <glib.h>
would have declared).  Anything the model cannot express raises Unsupported: never guess.

Two things follow giscanner/scannerlexer.l rather than ISO C, because they are lexer-level
conventions with no C meaning: the gtk-doc markers /*< private >*/ /*< public >*/ /*< flags >*/
(state machine: reset by the struct/union/enum keyword, sampled right after the token that ends
a member), and which `#define` lines count (line-oriented, see parse_macros in scannerparser.y).
Every decl carries 'file' and 'line' (the line the real front end would report: the declarator's
identifier for declarations, the closing brace for `struct tag {...}` symbols ('line_body'), the
#define line for macros).
"""
import re

CONST = 1 << 1
VOLATILE = 1 << 3


class Unsupported(Exception):
    pass


PRELUDE_TYPEDEFS = set('''
gint guint gchar guchar gshort gushort glong gulong gboolean gpointer gconstpointer gsize gssize
goffset gintptr guintptr gint8 guint8 gint16 guint16 gint32 guint32 gint64 guint64 gfloat gdouble
gunichar gunichar2 GType GQuark GObject GObjectClass GInitiallyUnowned GInitiallyUnownedClass
GTypeInterface GTypeInstance GTypeClass GList GSList GHashTable GError GVariant GVariantType GArray
GPtrArray GByteArray GBytes GString GValue GParamSpec GClosure GDestroyNotify GCallback GFunc
GCompareFunc GAsyncReadyCallback GAsyncResult GCancellable GInputStream GOutputStream GFile GDate
GDateTime GMainContext GMainLoop GSource GStrv va_list size_t ssize_t time_t off_t pid_t uid_t gid_t
int8_t uint8_t int16_t uint16_t int32_t uint32_t int64_t uint64_t intptr_t uintptr_t FILE
__builtin_va_list
'''.split())

# object-like macros that the preprocessor would have turned into nothing / an attribute
IGNORED_MACROS = set('''
GI_TEST_EXTERN G_GNUC_CONST G_GNUC_PURE G_GNUC_MALLOC G_GNUC_WARN_UNUSED_RESULT
G_GNUC_NULL_TERMINATED G_GNUC_DEPRECATED G_GNUC_INTERNAL G_GNUC_UNUSED G_GNUC_NORETURN
G_BEGIN_DECLS G_END_DECLS GLIB_AVAILABLE_IN_ALL G_MODULE_EXPORT _GI_TEST_EXTERN
'''.split())
IGNORED_MACROS_WITH_ARGS = set('''
G_GNUC_PRINTF G_GNUC_DEPRECATED_FOR G_GNUC_ALLOC_SIZE G_GNUC_ALLOC_SIZE2 G_GNUC_FORMAT
__attribute__ __attribute
'''.split())

BASIC_WORDS = ('char', 'short', 'int', 'long', 'float', 'double', 'signed', 'unsigned', '_Bool', 'bool')
STORAGE_WORDS = ('typedef', 'extern', 'static')
INLINE_WORDS = ('inline', '__inline', '__inline__')
UNSUPPORTED_WORDS = ('restrict', '__restrict', '__restrict__', 'auto', 'register', '_Thread_local',
                     'thread_local', '_Complex', '_Atomic', '_Alignas', '_Noreturn', '__extension__',
                     '__typeof__', '__typeof', 'typeof', 'sizeof', '_Static_assert', 'asm', '__asm__',
                     '__asm', '_Alignof', 'alignof', '__alignof__')
KEYWORDS = set(BASIC_WORDS + STORAGE_WORDS + INLINE_WORDS + UNSUPPORTED_WORDS +
               ('void', 'const', 'volatile', 'struct', 'union', 'enum', 'if', 'else', 'for', 'while',
                'do', 'return', 'switch', 'case', 'default', 'break', 'continue', 'goto'))

_MARKER_RE = re.compile(r'/\*[\t ]?<([\t ,=A-Za-z0-9_]+)>[\t ]?\*/')
_PUNCT3 = ('...', '<<=', '>>=')
_PUNCT2 = ('<<', '>>', '->', '++', '--', '<=', '>=', '==', '!=', '&&', '||', '+=', '-=', '*=', '/=',
           '%=', '^=', '&=', '|=', '##')


class Tok(object):
    __slots__ = ('kind', 'text', 'line', 'data')

    def __init__(self, kind, text, line, data=None):
        self.kind, self.text, self.line, self.data = kind, text, line, data

    def __repr__(self):
        return 'Tok(%s %r @%d)' % (self.kind, self.text, self.line)


# ------------------------------------------------------------------------------------ lexer
def _lex(text, filename, comments, directives=True, line0=1):
    """C tokens + 'marker' tokens + 'define' tokens.  Doc comments are appended to `comments`."""
    toks = []
    i, n, line = 0, len(text), line0
    bol = True                     # only horizontal space seen since the last newline
    guard_pending = None
    guards = []
    while i < n:
        c = text[i]
        if c == '\n':
            line += 1
            i += 1
            bol = True
            continue
        if c in ' \t\f\v\r':
            i += 1
            continue
        if c == '\\' and text[i + 1:i + 2] == '\n':
            line += 1
            i += 2
            continue
        if text.startswith('//', i):
            j = text.find('\n', i)
            i = n if j < 0 else j
            continue
        if text.startswith('/*', i):
            j = text.find('*/', i + 2)
            if j < 0:
                raise Unsupported('%s:%d: unterminated comment' % (filename, line))
            body = text[i:j + 2]
            for k, cl in enumerate(body.split('\n')):
                if k and cl.lstrip(' \t').startswith('#'):
                    raise Unsupported('%s:%d: line starting with # inside a comment (the macro scan is '
                                      'line-oriented and would read it)' % (filename, line + k))
            m = _MARKER_RE.match(body)
            if m and m.end() == len(body):
                items = [x.strip() for x in m.group(1).split(',')]
                toks.append(Tok('marker', body, line, items))
            elif len(body) >= 5 and body[2] == '*' and body[3] not in '*/':
                comments.append((body, filename, line))
            line += body.count('\n')
            i = j + 2
            continue
        if c == '#' and bol and directives:
            # logical line
            j = i
            buf = []
            start_line = line
            while j < n:
                if text[j] == '\\' and text[j + 1:j + 2] == '\n':
                    j += 2
                    line += 1
                    continue
                if text[j] == '\n':
                    break
                buf.append(text[j])
                j += 1
            i = j
            dline = ''.join(buf)
            m = re.match(r'#[ \t]*([A-Za-z_]*)(.*)$', dline, re.S)
            name, rest = m.group(1), m.group(2)
            if guard_pending is not None and not (name == 'define' and rest.strip() == guard_pending):
                raise Unsupported('%s:%d: #ifndef %s is not an include guard' % (filename, start_line, guard_pending))
            if name in ('include', 'pragma', 'undef'):
                continue
            if name == 'ifndef' and re.match(r'[ \t]+[A-Za-z_]\w*[ \t]*(/\*.*\*/)?[ \t]*$', rest):
                guard_pending = rest.split()[0]
                continue
            if name == 'endif':
                if not guards:
                    raise Unsupported('%s:%d: unbalanced #endif' % (filename, start_line))
                guards.pop()
                continue
            if name != 'define':
                raise Unsupported('%s:%d: preprocessor directive #%s' % (filename, start_line, name))
            if not rest or rest[0] not in ' \t':
                raise Unsupported('%s:%d: malformed #define' % (filename, start_line))
            m2 = re.match(r'[ \t]+([A-Za-z_]\w*)(.*)$', rest, re.S)
            if not m2:
                raise Unsupported('%s:%d: malformed #define' % (filename, start_line))
            mname, tail = m2.group(1), m2.group(2)
            if guard_pending is not None:
                guards.append(guard_pending)
                guard_pending = None
                continue
            if tail.startswith('('):
                k = tail.find(')')
                if k < 0:
                    raise Unsupported('%s:%d: macro parameter list spans lines' % (filename, start_line))
                toks.append(Tok('define', mname, start_line, {'params': tail[1:k], 'body': None}))
            elif tail == '' or tail.strip() == '':
                pass        # `#define NAME`: no character after the name, the macro scan drops the line
            elif tail[0] in ' \t':
                toks.append(Tok('define', mname, start_line, {'params': None, 'body': tail}))
            else:
                raise Unsupported('%s:%d: #define %s followed by %r' % (filename, start_line, mname, tail[0]))
            continue
        bol = False
        if guard_pending is not None:
            raise Unsupported('%s:%d: #ifndef %s is not an include guard' % (filename, line, guard_pending))
        if c.isalpha() or c == '_':
            j = i + 1
            while j < n and (text[j].isalnum() or text[j] == '_'):
                j += 1
            word = text[i:j]
            if word == 'L' and text[j:j + 1] in ('"', "'"):
                raise Unsupported('%s:%d: wide literal' % (filename, line))
            toks.append(Tok('id', word, line))
            i = j
            continue
        if c.isdigit() or (c == '.' and text[i + 1:i + 2].isdigit()):
            j = i + 1
            while j < n and (text[j].isalnum() or text[j] in '._' or
                             (text[j] in '+-' and text[j - 1] in 'eE' and not text[i:i + 2].lower() == '0x')):
                j += 1
            toks.append(Tok('num', text[i:j], line))
            i = j
            continue
        if c == '"' or c == "'":
            j = i + 1
            while j < n and text[j] != c:
                if text[j] == '\n':
                    raise Unsupported('%s:%d: newline in literal' % (filename, line))
                j += 2 if text[j] == '\\' else 1
            if j >= n:
                raise Unsupported('%s:%d: unterminated literal' % (filename, line))
            toks.append(Tok('str' if c == '"' else 'chr', text[i:j + 1], line))
            i = j + 1
            continue
        for p in _PUNCT3 + _PUNCT2:
            if text.startswith(p, i):
                toks.append(Tok('punct', p, line))
                i += len(p)
                break
        else:
            if c in '{}[]();:?.+-*/%^&|~!=<>,':
                toks.append(Tok('punct', c, line))
                i += 1
            else:
                raise Unsupported('%s:%d: unexpected character %r' % (filename, line, c))
    if guards or guard_pending:
        raise Unsupported('%s: unterminated #ifndef' % filename)
    toks.append(Tok('eof', '', line))
    return toks


def _drop_ignored(toks, ignore, ignore_args):
    out = []
    i = 0
    while i < len(toks):
        t = toks[i]
        if t.kind == 'id' and t.text in ignore:
            i += 1
            continue
        if t.kind == 'id' and t.text in ignore_args:
            i += 1
            while toks[i].kind == 'marker':
                i += 1
            if not (toks[i].kind == 'punct' and toks[i].text == '('):
                raise Unsupported('%d: %s without arguments' % (t.line, t.text))
            depth = 0
            while True:
                tt = toks[i]
                if tt.kind == 'eof':
                    raise Unsupported('%d: unbalanced parentheses after %s' % (t.line, t.text))
                if tt.kind == 'punct' and tt.text == '(':
                    depth += 1
                elif tt.kind == 'punct' and tt.text == ')':
                    depth -= 1
                i += 1
                if depth == 0:
                    break
            continue
        out.append(t)
        i += 1
    return out


def extract_comments(text, filename):
    """(text, filename, line) of every /** ... */ block, the way the lexer reports them: text runs
    from the opening slash to the closing slash, line is that of the opening token.  String and
    character literals are honoured; nothing else of the file is interpreted (.c files)."""
    out = []
    i, n, line = 0, len(text), 1
    while i < n:
        c = text[i]
        if c == '\n':
            line += 1
            i += 1
        elif text.startswith('//', i):
            j = text.find('\n', i)
            i = n if j < 0 else j
        elif text.startswith('/*', i):
            j = text.find('*/', i + 2)
            if j < 0:
                break
            body = text[i:j + 2]
            m = _MARKER_RE.match(body)
            if not (m and m.end() == len(body)) and len(body) >= 5 and body[2] == '*' and body[3] not in '*/':
                out.append((body, filename, line))
            line += body.count('\n')
            i = j + 2
        elif c == '"' or c == "'":
            j = i + 1
            while j < n and text[j] != c and text[j] != '\n':
                j += 2 if text[j] == '\\' else 1
            i = j + 1 if j < n and text[j] == c else j
        else:
            i += 1
    return out


# ------------------------------------------------------------------------------------ literals
def _int_literal(tok, where):
    """-> (value, hex, usuffix) with the value ISO C gives, provided the real front end agrees."""
    s = tok.text
    m = re.match(r'(0x[0-9a-fA-F]+|0[0-7]*|[1-9][0-9]*)([uUlL]*)$', s)
    if not m:
        raise Unsupported('%s: integer literal %r' % (where, s))
    digits, suffix = m.group(1), m.group(2)
    if digits.startswith('0x'):
        v, is_hex = int(digits[2:], 16), True
    elif digits[0] == '0' and len(digits) > 1:
        v, is_hex = int(digits, 8), False
    else:
        v, is_hex = int(digits, 10), False
    if v >= 1 << 64:
        raise Unsupported('%s: literal %r does not fit 64 bits' % (where, s))
    if suffix in ('', 'L', 'LL', 'l', 'll'):
        us = False
    elif suffix in ('U', 'UL', 'ULL', 'Ul', 'Ull'):
        us = True
    else:
        raise Unsupported('%s: integer suffix %r (the front end only recognises a leading capital U)' % (where, suffix))
    return v, is_hex, us


_SIMPLE_ESC = {'n': '\n', 't': '\t', 'b': '\b', 'f': '\f', 'r': '\r', '"': '"', "'": "'", '\\': '\\', '?': '?'}


def _string_literal(tok, where):
    s = tok.text[1:-1]
    out = bytearray()
    i = 0
    while i < len(s):
        c = s[i]
        if c != '\\':
            out.extend(c.encode('utf-8'))
            i += 1
            continue
        i += 1
        e = s[i]
        if e in _SIMPLE_ESC:
            out.extend(_SIMPLE_ESC[e].encode())
            i += 1
        elif e in '01234567':
            j = i
            v = 0
            while j < len(s) and j < i + 3 and s[j] in '01234567':
                v = v * 8 + int(s[j])
                j += 1
            if v == 0 or v > 255:
                raise Unsupported('%s: octal escape \\%s' % (where, s[i:j]))
            out.append(v)
            i = j
        elif e == 'x':
            j = i + 1
            while j < len(s) and s[j] in '0123456789abcdefABCDEF':
                j += 1
            if not (1 <= j - i - 1 <= 2) or int(s[i + 1:j], 16) == 0:
                raise Unsupported('%s: hex escape \\%s' % (where, s[i:j]))
            out.append(int(s[i + 1:j], 16))
            i = j
        else:
            raise Unsupported('%s: escape \\%s' % (where, e))
    try:
        return bytes(out).decode('utf-8')
    except UnicodeDecodeError:
        raise Unsupported('%s: string is not UTF-8' % where)


# ------------------------------------------------------------------------------------ parser
def _ty(base, kind, q=0, ptrs=(), dims=()):
    return {'base': base, 'kind': kind, 'q': q, 'ptrs': list(ptrs), 'dims': list(dims)}


class _Specs(object):
    def __init__(self):
        self.storage = set()
        self.inline = False
        self.q = 0
        self.words = []
        self.spec = None       # ('void',) | ('typedef', name) | ('compound', info) | ('enum', info)

    def has_body(self):
        return self.spec is not None and self.spec[0] in ('compound', 'enum') and self.spec[1].get('body') is not None

    def base_type(self, where):
        if self.words:
            return _ty(' '.join(self.words), 'basic', self.q)
        if self.spec is None:
            raise Unsupported('%s: declaration without a type specifier (implicit int)' % where)
        k = self.spec[0]
        if k == 'void':
            return _ty('void', 'void', self.q)
        if k == 'typedef':
            return _ty(self.spec[1], 'typedef', self.q)
        info = self.spec[1]
        if info.get('body') is not None:
            raise Unsupported('%s: %s definition used inside another declaration' % (where, info['kw']))
        if info['tag'] is None:
            raise Unsupported('%s: %s without tag or body' % (where, info['kw']))
        return _ty(info['tag'], info['kw'], self.q)


class _Parser(object):
    def __init__(self, toks, filename, typedefs):
        self.toks = toks
        self.pos = 0
        self.file = filename
        self.typedefs = typedefs
        self.private = False
        self.flags = False
        self.enumerators = {}
        self.decls = []

    # -- token access; markers take effect when the token after them is consumed
    def _next_real(self, pos):
        while self.toks[pos].kind == 'marker':
            pos += 1
        return pos

    def peek(self, k=0):
        pos = self._next_real(self.pos)
        for _ in range(k):
            pos = self._next_real(pos + 1)
        return self.toks[pos]

    def advance(self):
        while self.toks[self.pos].kind == 'marker':
            for item in self.toks[self.pos].data:
                if item == 'public':
                    self.private = False
                elif item == 'private':
                    self.private = True
                elif item == 'flags':
                    self.flags = True
            self.pos += 1
        t = self.toks[self.pos]
        if t.kind != 'eof':
            self.pos += 1
        if t.kind == 'id':
            if t.text in ('struct', 'union'):
                self.private = False
            elif t.text == 'enum':
                self.private = False
                self.flags = False
        return t

    def where(self, t=None):
        t = t or self.peek()
        return '%s:%d' % (self.file, t.line)

    def is_p(self, text, k=0):
        t = self.peek(k)
        return t.kind == 'punct' and t.text == text

    def expect(self, text):
        t = self.peek()
        if not (t.kind == 'punct' and t.text == text):
            raise Unsupported('%s: expected %r, found %r' % (self.where(t), text, t.text))
        return self.advance()

    def is_typename(self, t):
        return t.kind == 'id' and t.text in self.typedefs and t.text not in KEYWORDS

    def starts_type(self, t):
        return t.kind == 'id' and (t.text in BASIC_WORDS or t.text in ('void', 'const', 'volatile', 'struct',
                                                                      'union', 'enum') or self.is_typename(t))

    # -- specifiers
    def specifiers(self, allow_storage):
        sp = _Specs()
        while True:
            t = self.peek()
            if t.kind != 'id':
                break
            w = t.text
            if w in UNSUPPORTED_WORDS:
                raise Unsupported('%s: %r' % (self.where(t), w))
            if w in STORAGE_WORDS:
                if not allow_storage:
                    raise Unsupported('%s: storage class %r here' % (self.where(t), w))
                sp.storage.add(w)
                self.advance()
            elif w in INLINE_WORDS:
                if not allow_storage:
                    raise Unsupported('%s: inline here' % self.where(t))
                sp.inline = True
                self.advance()
            elif w in ('const', '__const'):
                sp.q |= CONST
                self.advance()
            elif w in ('volatile', '__volatile', '__volatile__'):
                sp.q |= VOLATILE
                self.advance()
            elif w == 'void':
                if sp.spec or sp.words:
                    raise Unsupported('%s: two type specifiers' % self.where(t))
                sp.spec = ('void',)
                self.advance()
            elif w in BASIC_WORDS:
                if sp.spec:
                    raise Unsupported('%s: two type specifiers' % self.where(t))
                sp.words.append(w)
                self.advance()
            elif w in ('struct', 'union'):
                if sp.spec or sp.words:
                    raise Unsupported('%s: two type specifiers' % self.where(t))
                sp.spec = ('compound', self.compound_spec())
            elif w == 'enum':
                if sp.spec or sp.words:
                    raise Unsupported('%s: two type specifiers' % self.where(t))
                sp.spec = ('enum', self.enum_spec())
            elif self.is_typename(t) and sp.spec is None and not sp.words:
                sp.spec = ('typedef', w)
                self.advance()
            else:
                break
        return sp

    def compound_spec(self):
        kw = self.advance().text
        info = {'kw': kw, 'tag': None, 'body': None, 'line_close': None}
        t = self.peek()
        if t.kind == 'id':
            if t.text in KEYWORDS:
                raise Unsupported('%s: keyword %r as tag' % (self.where(t), t.text))
            info['tag'] = self.advance().text
        if self.is_p('{'):
            self.advance()
            info['body'] = self.fields()
            info['line_close'] = self.expect('}').line
        return info

    def fields(self):
        out = []
        if self.is_p('}'):
            raise Unsupported('%s: empty struct/union body (a syntax error for the front end)' % self.where())
        while not self.is_p('}'):
            t0 = self.peek()
            if t0.kind == 'eof':
                raise Unsupported('%s: unterminated body' % self.where())
            sp = self.specifiers(False)
            w = self.where(t0)
            group = []
            if sp.has_body():
                if sp.spec[0] == 'enum':
                    raise Unsupported('%s: enum defined inside a struct' % w)
                info = sp.spec[1]
                if info['tag'] is not None:
                    raise Unsupported('%s: nested named %s definition' % (w, info['kw']))
                if sp.q:
                    raise Unsupported('%s: qualified anonymous member' % w)
                f = {'name': None, 'anon': info['kw'], 'fields': info['body'], 'dims': []}
                if not self.is_p(';'):
                    name, ops, _ = self.declarator(False)
                    if any(o[0] != 'arr' for o in ops):
                        raise Unsupported('%s: pointer/function declarator on an inline %s' % (w, info['kw']))
                    f['name'] = name
                    f['dims'] = [o[1] for o in ops]
                group.append(f)
            else:
                if sp.spec is None and not sp.words:
                    raise Unsupported('%s: expected a member declaration, found %r' % (w, t0.text))
                base = sp.base_type(w)
                while True:
                    if self.is_p(':'):
                        self.advance()
                        group.append({'name': None, 'type': base, 'bits': self.int_constant()})
                    else:
                        name, ops, _ = self.declarator(False)
                        f = {'name': name, 'type': self.data_type(base, ops, w), 'bits': None}
                        if self.is_p(':'):
                            self.advance()
                            f['bits'] = self.int_constant()
                        group.append(f)
                    if self.is_p(','):
                        self.advance()
                        continue
                    break
            self.expect(';')
            for f in group:
                f['private'] = self.private
            out.extend(group)
        return out

    def int_constant(self):
        t = self.peek()
        if t.kind != 'num':
            raise Unsupported('%s: only integer literals are accepted here, found %r' % (self.where(t), t.text))
        self.advance()
        return _int_literal(t, self.where(t))[0]

    def enum_spec(self):
        self.advance()
        info = {'kw': 'enum', 'tag': None, 'body': None, 'flags': False}
        t = self.peek()
        if t.kind == 'id':
            if t.text in KEYWORDS:
                raise Unsupported('%s: keyword %r as tag' % (self.where(t), t.text))
            info['tag'] = self.advance().text
        if not self.is_p('{'):
            return info
        self.advance()
        members = []
        last = -1
        if self.is_p('}'):
            raise Unsupported('%s: empty enum' % self.where())
        while True:
            t = self.peek()
            if t.kind != 'id' or t.text in KEYWORDS:
                raise Unsupported('%s: expected an enumerator, found %r' % (self.where(t), t.text))
            if self.is_typename(t):
                raise Unsupported('%s: enumerator %r is a typedef name' % (self.where(t), t.text))
            self.advance()
            m = {'name': t.text, 'value': None, 'shift': False}
            if self.is_p('='):
                self.advance()
                ev = _EnumExpr(self)
                m['value'] = ev.parse()
                m['shift'] = ev.shift
            members.append(m)
            last = m['value'] if m['value'] is not None else last + 1
            self.enumerators[m['name']] = last
            if self.is_p(','):
                self.advance()
                m['private'] = self.private
                if self.is_p('}'):
                    self.advance()
                    break
                continue
            self.expect('}')
            m['private'] = self.private
            break
        info['flags'] = self.flags
        # values for later references
        info['body'] = members
        return info

    # -- declarators: returns (name, ops from the identifier outwards, line of the name)
    def declarator(self, abstract_ok):
        ptrs = []
        while self.is_p('*'):
            self.advance()
            q = 0
            while self.peek().kind == 'id' and self.peek().text in ('const', 'volatile', '__const', 'restrict',
                                                                    '__restrict', '__restrict__'):
                w = self.advance().text
                if 'restrict' in w:
                    raise Unsupported('%s: restrict' % self.where())
                q |= CONST if 'const' in w else VOLATILE
            ptrs.append(q)
        name, ops, line = None, [], self.peek().line
        t = self.peek()
        if self.is_p('(') and self._paren_opens_declarator(abstract_ok):
            self.advance()
            name, ops, line = self.declarator(abstract_ok)
            self.expect(')')
        elif t.kind == 'id' and t.text not in KEYWORDS:
            if self.is_typename(t):
                raise Unsupported('%s: %r is a typedef name and cannot be declared again (the lexer returns '
                                  'TYPEDEF_NAME)' % (self.where(t), t.text))
            self.advance()
            name, line = t.text, t.line
        elif not abstract_ok:
            raise Unsupported('%s: expected a declarator, found %r' % (self.where(t), t.text))
        while True:
            if self.is_p('['):
                self.advance()
                if self.is_p(']'):
                    ops.append(('arr', None))
                else:
                    ops.append(('arr', self.int_constant()))
                self.expect(']')
            elif self.is_p('('):
                self.advance()
                ops.append(('fun', self.params()))
                self.expect(')')
            else:
                break
        for q in reversed(ptrs):
            ops.append(('ptr', q))
        return name, ops, line

    def _paren_opens_declarator(self, abstract_ok):
        if not abstract_ok:
            return True
        t = self.peek(1)
        if t.kind == 'punct':
            return t.text in ('*', '(', '[')
        if t.kind == 'id':
            return not (self.starts_type(t) or t.text in KEYWORDS)
        return False

    def params(self):
        if self.is_p(')'):
            return []
        out = []
        while True:
            if self.is_p('...'):
                self.advance()
                out.append({'ellipsis': True})
            else:
                t0 = self.peek()
                w = self.where(t0)
                if t0.kind == 'id' and not self.starts_type(t0) and t0.text not in KEYWORDS:
                    raise Unsupported('%s: %r is not a known type (K&R identifier list or missing typedef)' % (w, t0.text))
                sp = self.specifiers(False)
                if sp.has_body():
                    raise Unsupported('%s: type defined in a parameter list' % w)
                base = sp.base_type(w)
                name, ops, _ = self.declarator(True)
                out.append({'name': name, 'type': self.data_type(base, ops, w)})
            if self.is_p(','):
                self.advance()
                continue
            break
        if len(out) == 1 and not out[0].get('ellipsis') and out[0]['name'] is None:
            t = out[0]['type']
            if t.get('fp') is None and t['kind'] == 'void' and not t['ptrs'] and not t['dims']:
                if t['q']:
                    raise Unsupported('qualified (void) parameter list')
                return []
        for p in out:
            if not p.get('ellipsis') and p['type'].get('fp') is None and p['type']['kind'] == 'void' \
                    and not p['type']['ptrs']:
                raise Unsupported('void parameter among others')
        return out

    def data_type(self, base, ops, where):
        """ops (identifier outwards) applied over the specifier type -> model Type, or Unsupported."""
        i = 0
        dims = []
        while i < len(ops) and ops[i][0] == 'arr':
            dims.append(ops[i][1])
            i += 1
        rest = ops[i:]
        if all(o[0] == 'ptr' for o in rest):
            t = dict(base)
            t['ptrs'] = [o[1] for o in reversed(rest)]
            t['dims'] = dims
            return t
        if len(rest) >= 2 and rest[0] == ('ptr', 0) and rest[1][0] == 'fun' and all(o[0] == 'ptr' for o in rest[2:]):
            ret = dict(base)
            ret['ptrs'] = [o[1] for o in reversed(rest[2:])]
            ret['dims'] = []
            return {'fp': {'ret': ret, 'params': rest[1][1]}, 'dims': dims}
        raise Unsupported('%s: declarator shape %s is outside the model' % (where, ' '.join(o[0] for o in ops)))

    # -- external declarations
    def translation_unit(self):
        while True:
            t = self.peek()
            if t.kind == 'eof':
                self.advance()
                break
            if t.kind == 'define':
                self.advance()
                self.decls.append(t)          # resolved at the end (all typedefs/enumerators known)
                continue
            if self.is_p(';'):
                self.advance()
                continue
            self.external_declaration()
        out = []
        for d in self.decls:
            if isinstance(d, Tok):
                r = _define(self, d)
                if r is not None:
                    out.append(r)
            else:
                out.append(d)
        return out

    def emit(self, d, line, **extra):
        d['file'] = self.file
        d['line'] = line
        d.update(extra)
        self.decls.append(d)

    def external_declaration(self):
        t0 = self.peek()
        w = self.where(t0)
        sp = self.specifiers(True)
        if sp.spec is None and not sp.words:
            raise Unsupported('%s: expected a declaration, found %r' % (w, t0.text))
        is_typedef = 'typedef' in sp.storage
        if len(sp.storage) > 1 and not (sp.storage == {'static'} or sp.storage == {'extern'}):
            raise Unsupported('%s: storage classes %s' % (w, sorted(sp.storage)))
        if self.is_p(';'):
            end = self.advance()
            if sp.storage or sp.inline or sp.q:
                raise Unsupported('%s: specifiers without a declarator' % w)
            if sp.spec[0] == 'compound':
                info = sp.spec[1]
                if info['tag'] is None:
                    raise Unsupported('%s: anonymous %s declares nothing' % (w, info['kw']))
                self.emit({'d': 'compound', 'kind': info['kw'], 'tag': info['tag'], 'typedef': None,
                           'fields': info['body'], 'typedef_ptrs': []},
                          info['line_close'] or end.line, line_body=info['line_close'])
            elif sp.spec[0] == 'enum' and sp.spec[1]['body'] is not None:
                info = sp.spec[1]
                self.emit({'d': 'enum', 'name': None, 'tag': info['tag'], 'flags': info['flags'],
                           'members': info['body']}, end.line)
            else:
                raise Unsupported('%s: declaration declares nothing' % w)
            return
        if sp.has_body():
            info = sp.spec[1]
            if not is_typedef or sp.q or sp.inline:
                raise Unsupported('%s: %s definition combined with a declarator (only typedef is modelled)' % (w, info['kw']))
            name, ops, line = self.declarator(False)
            if not self.is_p(';'):
                raise Unsupported('%s: several declarators after a %s definition' % (w, info['kw']))
            self.advance()
            if any(o[0] != 'ptr' for o in ops):
                raise Unsupported('%s: array/function typedef of a %s definition' % (w, info['kw']))
            if info['kw'] == 'enum':
                if ops:
                    raise Unsupported('%s: pointer typedef of an enum definition' % w)
                self.emit({'d': 'enum', 'name': name, 'tag': info['tag'], 'flags': info['flags'],
                           'members': info['body']}, line)
            else:
                self.emit({'d': 'compound', 'kind': info['kw'], 'tag': info['tag'], 'typedef': name,
                           'fields': info['body'], 'typedef_ptrs': [o[1] for o in reversed(ops)]},
                          line, line_body=info['line_close'] if info['tag'] else None)
            self.typedefs.add(name)
            return
        base = sp.base_type(w)
        new_types = []
        while True:
            name, ops, line = self.declarator(False)
            if self.is_p('='):
                raise Unsupported('%s: initializer' % w)
            if self.is_p('{'):
                raise Unsupported('%s: function definition (body)' % w)
            fun_at = [i for i, o in enumerate(ops) if o[0] == 'fun']
            if is_typedef:
                if sp.inline:
                    raise Unsupported('%s: inline typedef' % w)
                if fun_at and fun_at[0] == 0 and all(o[0] == 'ptr' for o in ops[1:]):
                    ret = dict(base, ptrs=[o[1] for o in reversed(ops[1:])], dims=[])
                    self.emit({'d': 'callback', 'name': name, 'ret': ret, 'params': ops[0][1], 'ptr': False}, line)
                elif fun_at and fun_at[0] == 1 and ops[0] == ('ptr', 0) and all(o[0] == 'ptr' for o in ops[2:]):
                    ret = dict(base, ptrs=[o[1] for o in reversed(ops[2:])], dims=[])
                    self.emit({'d': 'callback', 'name': name, 'ret': ret, 'params': ops[1][1], 'ptr': True}, line)
                else:
                    self.emit({'d': 'typedef', 'name': name, 'type': self.data_type(base, ops, w)}, line)
                new_types.append(name)
            elif fun_at and fun_at[0] == 0:
                if not all(o[0] == 'ptr' for o in ops[1:]):
                    raise Unsupported('%s: function returning %s' % (w, ' '.join(o[0] for o in ops[1:])))
                if sp.inline and sp.storage != {'static'}:
                    raise Unsupported('%s: inline without static (the model renders `static inline`)' % w)
                if not sp.inline and 'static' in sp.storage:
                    raise Unsupported('%s: static function declaration' % w)
                ret = dict(base, ptrs=[o[1] for o in reversed(ops[1:])], dims=[])
                self.emit({'d': 'function', 'name': name, 'ret': ret, 'params': ops[0][1],
                           'inline': bool(sp.inline)}, line)
            else:
                if sp.inline or 'static' in sp.storage:
                    raise Unsupported('%s: static/inline object' % w)
                self.emit({'d': 'var', 'name': name, 'type': self.data_type(base, ops, w)}, line)
            if self.is_p(','):
                self.advance()
                continue
            break
        self.expect(';')
        self.typedefs.update(new_types)


class _EnumExpr(object):
    """Integer constant expression over literals and earlier enumerators, int64; records use of <<."""
    LEVELS = [('|',), ('^',), ('&',), ('<<', '>>'), ('+', '-'), ('*',)]

    def __init__(self, p):
        self.p = p
        self.shift = False

    def parse(self):
        v = self.binary(0)
        if not -(1 << 63) <= v < (1 << 63):
            raise Unsupported('%s: enumerator value outside int64' % self.p.where())
        return v

    def binary(self, lvl):
        if lvl == len(self.LEVELS):
            return self.unary()
        v = self.binary(lvl + 1)
        while self.p.peek().kind == 'punct' and self.p.peek().text in self.LEVELS[lvl]:
            op = self.p.advance().text
            r = self.binary(lvl + 1)
            if op == '|':
                v |= r
            elif op == '^':
                v ^= r
            elif op == '&':
                v &= r
            elif op == '<<':
                self.shift = True
                if r < 0 or r > 63 or v < 0:
                    raise Unsupported('%s: shift %d << %d' % (self.p.where(), v, r))
                v <<= r
            elif op == '>>':
                if r < 0 or r > 63:
                    raise Unsupported('%s: shift count' % self.p.where())
                v >>= r
            elif op == '+':
                v += r
            elif op == '-':
                v -= r
            else:
                v *= r
            if not -(1 << 63) <= v < (1 << 63):
                raise Unsupported('%s: overflow in enumerator expression' % self.p.where())
        t = self.p.peek()
        if lvl == 0 and t.kind == 'punct' and t.text not in (',', '}', ')'):
            raise Unsupported('%s: operator %r in an enumerator value' % (self.p.where(t), t.text))
        return v

    def unary(self):
        p = self.p
        t = p.peek()
        if t.kind == 'punct' and t.text in ('-', '~', '+'):
            p.advance()
            n = p.peek()
            if t.text == '-' and n.kind == 'num' and _int_literal(n, p.where(n))[0] == 1 << 63:
                p.advance()
                return -(1 << 63)
            v = self.unary()
            return -v if t.text == '-' else (~v if t.text == '~' else v)
        if t.kind == 'punct' and t.text == '(':
            if p.starts_type(p.peek(1)):
                raise Unsupported('%s: cast in an enumerator value' % p.where(t))
            p.advance()
            v = self.binary(0)
            p.expect(')')
            return v
        if t.kind == 'num':
            p.advance()
            v = _int_literal(t, p.where(t))[0]
            if v >= 1 << 63:
                raise Unsupported('%s: literal above INT64_MAX in an enumerator' % p.where(t))
            return v
        if t.kind == 'id' and t.text in p.enumerators:
            p.advance()
            return p.enumerators[t.text]
        raise Unsupported('%s: %r in an enumerator value' % (p.where(t), t.text))


# ------------------------------------------------------------------------------------ #define
def _define(parser, tok):
    """`define` token -> const/macro decl, or None when the front end certainly produces nothing."""
    where = '%s:%d' % (parser.file, tok.line)
    name = tok.text
    if tok.data['params'] is not None:
        ptxt = tok.data['params'].strip()
        params = []
        if ptxt:
            for part in ptxt.split(','):
                part = part.strip()
                if part == '...':
                    params.append('...')
                elif re.match(r'[A-Za-z_]\w*$', part):
                    if part in parser.typedefs:
                        raise Unsupported('%s: macro parameter %r is a typedef name' % (where, part))
                    params.append(part)
                else:
                    raise Unsupported('%s: macro parameter %r' % (where, part))
            if '...' in params[:-1]:
                raise Unsupported('%s: ... not last' % where)
        return {'d': 'macro', 'name': name, 'params': params, 'file': parser.file, 'line': tok.line}
    sink = []
    toks = _lex(tok.data['body'], parser.file, sink, directives=False, line0=tok.line)
    toks = [t for t in toks if t.kind != 'marker']
    if len(toks) == 1:
        return None                    # only a comment after the name: syntax error, nothing emitted
    mp = _MacroExpr(parser, toks, where)
    val = mp.parse()
    if val is None:
        return None
    return {'d': 'const', 'name': name, 'value': val, 'file': parser.file, 'line': tok.line}


class _MacroExpr(object):
    def __init__(self, parser, toks, where):
        self.parser = parser
        self.toks = toks
        self.pos = 0
        self.where = where

    def peek(self, k=0):
        return self.toks[min(self.pos + k, len(self.toks) - 1)]

    def adv(self):
        t = self.toks[self.pos]
        if t.kind != 'eof':
            self.pos += 1
        return t

    def is_p(self, text, k=0):
        t = self.peek(k)
        return t.kind == 'punct' and t.text == text

    def parse(self):
        r = self.cast()
        if self.peek().kind != 'eof':
            raise Unsupported('%s: macro body continues with %r (operators are outside the model)'
                              % (self.where, self.peek().text))
        if r == 'nothing':
            return None
        return r

    def cast(self):
        if self.is_p('('):
            t1 = self.peek(1)
            p = self.parser
            if t1.kind == 'id' and (t1.text in BASIC_WORDS or t1.text in ('void', 'const', 'volatile', 'struct',
                                                                        'union', 'enum') or p.is_typename(t1)):
                # a C cast: (type-name) cast-expression
                self.adv()
                sub = _Parser(self.toks, p.file, p.typedefs)
                sub.pos = self.pos
                sp = sub.specifiers(False)
                if sp.has_body():
                    raise Unsupported('%s: type definition in a cast' % self.where)
                base = sp.base_type(self.where)
                nm, ops, _ = sub.declarator(True)
                if nm is not None:
                    raise Unsupported('%s: malformed cast' % self.where)
                typ = sub.data_type(base, ops, self.where)
                self.pos = sub.pos
                if not self.is_p(')'):
                    raise Unsupported('%s: malformed cast' % self.where)
                self.adv()
                v = self.cast()
                if v == 'nothing':
                    return v
                if v['k'] == 'bool':
                    raise Unsupported('%s: cast of a boolean' % self.where)
                if v.get('cast') is not None:
                    raise Unsupported('%s: cast of a cast' % self.where)
                v['cast'] = typ
                return v
        return self.unary()

    def unary(self):
        t = self.peek()
        if t.kind == 'punct' and t.text in ('-', '~'):
            self.adv()
            v = self.cast()
            if v == 'nothing':
                raise Unsupported('%s: operator applied to a non-constant' % self.where)
            if v['k'] != 'int' or v.get('cast') is not None:
                raise Unsupported('%s: %r applied to %s (the front end negates only the integer slot)'
                                  % (self.where, t.text, 'a cast' if v.get('cast') else v['k']))
            if t.text == '-':
                if v['neg'] or v['compl']:
                    raise Unsupported('%s: stacked unary operators' % self.where)
                v['neg'] = True
            else:
                if v['compl']:
                    raise Unsupported('%s: stacked unary operators' % self.where)
                v['compl'] = True
            return v
        if t.kind == 'punct' and t.text in ('+', '!', '&', '*', '++', '--'):
            raise Unsupported('%s: unary %r' % (self.where, t.text))
        if t.kind == 'id' and t.text in ('G_GINT64_CONSTANT', 'G_GUINT64_CONSTANT'):
            self.adv()
            if not self.is_p('('):
                raise Unsupported('%s: %s without (' % (self.where, t.text))
            self.adv()
            n = self.peek()
            if n.kind != 'num' or not self.is_p(')', 1):
                raise Unsupported('%s: %s argument is not a plain literal' % (self.where, t.text))
            self.adv()
            self.adv()
            v = self.number(n)
            if v['k'] != 'int':
                raise Unsupported('%s: %s of a float' % (self.where, t.text))
            v['wrap'] = t.text
            return v
        return self.postfix()

    def number(self, t):
        s = t.text
        if re.match(r'(0[xX][0-9a-fA-F]+|[0-9]+)[uUlL]*$', s):
            lit, is_hex, us = _int_literal(t, self.where)
            return {'k': 'int', 'lit': lit, 'neg': False, 'compl': False, 'usuffix': us, 'hex': is_hex,
                    'wrap': None, 'cast': None}
        m = re.match(r'((?:[0-9]*\.[0-9]+|[0-9]+\.)(?:[eE][-+]?[0-9]+)?|[0-9]+[eE][-+]?[0-9]+)[fFlL]?$', s)
        if not m:
            raise Unsupported('%s: numeric literal %r' % (self.where, s))
        return {'k': 'double', 'f': float(m.group(1)), 'cast': None}

    def postfix(self):
        t = self.peek()
        if t.kind == 'num':
            self.adv()
            v = self.number(t)
        elif t.kind == 'str':
            parts = []
            while self.peek().kind == 'str':
                parts.append(_string_literal(self.adv(), self.where))
            v = {'k': 'str', 's': ''.join(parts), 'cast': None}
        elif t.kind == 'chr':
            raise Unsupported('%s: character constant' % self.where)
        elif t.kind == 'id' and t.text in ('TRUE', 'FALSE', 'true', 'false'):
            self.adv()
            v = {'k': 'bool', 'b': t.text in ('TRUE', 'true')}
        elif t.kind == 'id':
            p = self.parser
            if t.text in p.enumerators:
                raise Unsupported('%s: macro naming the enumerator %r' % (self.where, t.text))
            if p.is_typename(t) or t.text in KEYWORDS:
                raise Unsupported('%s: %r in a macro body' % (self.where, t.text))
            self.adv()
            v = 'nothing'              # unknown identifier: an INVALID symbol without value
        elif self.is_p('('):
            self.adv()
            v = self.cast()
            if self.is_p(','):
                raise Unsupported('%s: comma expression' % self.where)
            if not self.is_p(')'):
                raise Unsupported('%s: %r inside parentheses (operators are outside the model)'
                                  % (self.where, self.peek().text))
            self.adv()
        else:
            raise Unsupported('%s: %r in a macro body' % (self.where, t.text))
        while self.is_p('('):
            # call: the result is an INVALID symbol whatever the (well-formed, type-free) arguments are
            depth = 0
            while True:
                tt = self.adv()
                if tt.kind == 'eof':
                    raise Unsupported('%s: unbalanced call' % self.where)
                if tt.kind == 'id' and (self.parser.is_typename(tt) or tt.text in KEYWORDS):
                    raise Unsupported('%s: type name %r in call arguments' % (self.where, tt.text))
                if tt.kind == 'punct' and tt.text == '(':
                    depth += 1
                elif tt.kind == 'punct' and tt.text == ')':
                    depth -= 1
                    if depth == 0:
                        break
                elif tt.kind == 'punct' and tt.text in ('{', '}', ';'):
                    raise Unsupported('%s: statement in a macro body' % self.where)
            v = 'nothing'
        if self.peek().kind == 'punct' and self.peek().text in ('[', '.', '->', '++', '--'):
            raise Unsupported('%s: postfix %r' % (self.where, self.peek().text))
        return v


# ------------------------------------------------------------------------------------ API
def parse_header(text, filename='/src/foo.h', extra_typedefs=(), ignore=(), ignore_with_args=(), comments=None,
                 lines=True):
    """-> list of cmodel Decl dicts in source order.  `comments`, if a list, receives the
    (text, filename, line) triples of the /** */ blocks."""
    sink = comments if comments is not None else []
    toks = _lex(text, filename, sink)
    toks = _drop_ignored(toks, IGNORED_MACROS | set(ignore), IGNORED_MACROS_WITH_ARGS | set(ignore_with_args))
    p = _Parser(toks, filename, set(PRELUDE_TYPEDEFS) | set(extra_typedefs))
    decls = p.translation_unit()
    if not lines:
        for d in decls:
            d.pop('line', None)
            d.pop('line_body', None)
    else:
        for d in decls:
            if 'line_body' in d and d['line_body'] is None:
                del d['line_body']
    return decls


# ------------------------------------------------------------------------------------ normalise
def _n_type(t):
    if t.get('fp') is not None:
        return {'fp': {'ret': _n_type(t['fp']['ret']), 'params': _n_params(t['fp']['params'])},
                'dims': list(t.get('dims', []))}
    return {'base': t['base'], 'kind': t['kind'], 'q': t.get('q', 0), 'ptrs': list(t.get('ptrs', [])),
            'dims': list(t.get('dims', []))}


def _n_params(params):
    return [{'ellipsis': True} if p.get('ellipsis') else {'name': p.get('name'), 'type': _n_type(p['type'])}
            for p in params]


def _n_fields(fields):
    out = []
    for f in fields:
        if f.get('anon'):
            out.append({'name': f.get('name'), 'anon': f['anon'], 'fields': _n_fields(f['fields']),
                        'dims': list(f.get('dims', [])), 'private': bool(f.get('private'))})
        else:
            out.append({'name': f.get('name'), 'type': _n_type(f['type']), 'bits': f.get('bits'),
                        'private': bool(f.get('private'))})
    return out


def normalise(decls, default_file='/src/foo.h', keep_lines=False, effective=True):
    """Canonical form.  Field privacy is taken through cmodel.effective_fields (what the rendered
    markers mean to the lexer); a body-less `typedef struct T N;` is a 'typedef' decl."""
    from vlib import cmodel
    out = []
    for d in decls:
        k = d['d']
        if k == 'function':
            n = {'d': k, 'name': d['name'], 'ret': _n_type(d['ret']), 'params': _n_params(d['params']),
                 'inline': bool(d.get('inline'))}
        elif k == 'typedef' and d['type'].get('fp') is not None and not d['type'].get('dims'):
            fp = d['type']['fp']
            n = {'d': 'callback', 'name': d['name'], 'ret': _n_type(fp['ret']), 'params': _n_params(fp['params']),
                 'ptr': True}
        elif k == 'typedef':
            n = {'d': k, 'name': d['name'], 'type': _n_type(d['type'])}
        elif k == 'callback':
            n = {'d': k, 'name': d['name'], 'ret': _n_type(d['ret']), 'params': _n_params(d['params']),
                 'ptr': bool(d.get('ptr', True))}
        elif k == 'compound':
            if d.get('fields') is None and d.get('typedef'):
                n = {'d': 'typedef', 'name': d['typedef'],
                     'type': {'base': d['tag'], 'kind': d['kind'], 'q': 0,
                              'ptrs': list(d.get('typedef_ptrs', [])), 'dims': []}}
            else:
                fl = d.get('fields')
                n = {'d': k, 'kind': d['kind'], 'tag': d.get('tag'), 'typedef': d.get('typedef'),
                     'fields': None if fl is None else _n_fields(cmodel.effective_fields(fl) if effective else fl),
                     'typedef_ptrs': list(d.get('typedef_ptrs', [])) if d.get('typedef') else []}
        elif k == 'enum':
            n = {'d': k, 'name': d.get('name'), 'tag': d.get('tag'), 'flags': bool(d.get('flags')),
                 'members': [{'name': m['name'], 'value': m.get('value'),
                              'shift': bool(m.get('shift')) and m.get('value') is not None,
                              'private': bool(m.get('private'))} for m in d['members']]}
        elif k == 'const':
            v = d['value']
            if v['k'] == 'int':
                nv = {'k': 'int', 'lit': v['lit'], 'neg': bool(v.get('neg')), 'compl': bool(v.get('compl')),
                      'usuffix': bool(v.get('usuffix')), 'hex': bool(v.get('hex')), 'wrap': v.get('wrap')}
            elif v['k'] == 'str':
                nv = {'k': 'str', 's': v['s']}
            elif v['k'] == 'double':
                nv = {'k': 'double', 'f': float(v['f'])}
            else:
                nv = {'k': 'bool', 'b': bool(v['b'])}
            if v['k'] != 'bool':
                nv['cast'] = _n_type(v['cast']) if v.get('cast') is not None else None
            n = {'d': k, 'name': d['name'], 'value': nv}
        elif k == 'macro':
            n = {'d': k, 'name': d['name'], 'params': list(d['params'])}
        elif k == 'var':
            n = {'d': k, 'name': d['name'], 'type': _n_type(d['type'])}
        else:
            raise ValueError(k)
        n['file'] = d.get('file', default_file)
        if keep_lines:
            for key in ('line', 'line_body'):
                if d.get(key) is not None:
                    n[key] = d[key]
        out.append(n)
    return out
