"""Independent pure-Python decoder of the GObject-Introspection binary typelib.

Written ONLY from the struct definitions and doc comments of
/repo/girepository/gitypelib-internal.h (and the public enum values in
/repo/girepository/gitypes.h).  It deliberately shares no code and no reading
with gitypelib.c or the gi*info.c accessors, because it is used as an oracle
against them (DESIGN.md 1.3 "Independent typelib decoder", check C06).

Layout model
------------
Little-endian x86-64, gcc.  Every struct of the header is transcribed below as
a *layout table* in declaration order; offsets are computed by the usual C
rule (each member aligned to its own size, struct size rounded up to the
largest member alignment) and the resulting sizeof is asserted at import time
against the format's constants (Header 112, DirEntry 12, ...).  Bitfields are
declared as explicit storage units ('bits', unit_width, [(name, width), ...]):
gcc on little-endian allocates bitfields LSB-first inside their storage unit,
see bitfields().

Strides
-------
The header of a typelib records the sizes of the blob structs so that "a
parser continues to work if the format is extended by adding new fields to the
end of the fixed-size blobs".  This decoder therefore *walks* arrays with the
header's recorded sizes (self.sz[...]) and reads the fields it knows from the
front of each element.  A recorded size smaller than the format constant is
always fatal (known fields would be missing).  A recorded size larger than the
constant is fatal in strict mode (the default: the constructor raises
FormatError when any size field != the constant) and is reported by
check_invariants() in lenient mode (strict=False).  In strict mode the two
choices coincide.

Places where the header documentation is ambiguous or silent, and how each was
resolved, are marked "AMBIGUITY n" in comments below.
"""

import json
import struct
import sys

__all__ = ["Typelib", "FormatError", "bitfields", "SIZES"]

MAGIC = b"GOBJ\nMETADATA\r\n\x1a"


class FormatError(Exception):
    """The byte string is not a structurally valid typelib."""


# ----------------------------------------------------------------------------
# enums (gitypelib-internal.h GTypelibBlobType / SectionType; gitypes.h)

BLOB_TYPE_NAMES = ["invalid", "function", "callback", "struct", "boxed", "enum",
                   "flags", "object", "interface", "constant", "invalid_0",
                   "union"]
(BLOB_INVALID, BLOB_FUNCTION, BLOB_CALLBACK, BLOB_STRUCT, BLOB_BOXED, BLOB_ENUM,
 BLOB_FLAGS, BLOB_OBJECT, BLOB_INTERFACE, BLOB_CONSTANT, BLOB_INVALID_0,
 BLOB_UNION) = range(12)

GI_SECTION_END = 0
GI_SECTION_DIRECTORY_INDEX = 1
SECTION_NAMES = {0: "end", 1: "directory_index"}

TYPE_TAG_NAMES = ["void", "boolean", "int8", "uint8", "int16", "uint16",
                  "int32", "uint32", "int64", "uint64", "float", "double",
                  "gtype", "utf8", "filename", "array", "interface", "glist",
                  "gslist", "ghash", "error", "unichar"]
TAG = {n: i for i, n in enumerate(TYPE_TAG_NAMES)}

ARRAY_TYPE_NAMES = ["c", "array", "ptr_array", "byte_array"]
SCOPE_NAMES = ["invalid", "call", "async", "notified", "forever"]

ACCESSOR_SENTINEL = 0x3FF
ASYNC_SENTINEL = 0x3FF


# ----------------------------------------------------------------------------
# bitfield helper

def bitfields(unit_value, unit_bits, spec):
    """Split the integer value of one bitfield storage unit into its members.

    spec is [(name, width), ...] in C *declaration order*.  gcc on
    little-endian targets (x86-64 SysV ABI) allocates the first declared
    member at the least significant bits of the unit, the next one right above
    it, and so on.  The widths must fill the unit exactly (true for every unit
    in gitypelib-internal.h; checked).
    """
    assert sum(w for _, w in spec) == unit_bits, spec
    out = {}
    pos = 0
    for name, width in spec:
        out[name] = (unit_value >> pos) & ((1 << width) - 1)
        pos += width
    return out


# ----------------------------------------------------------------------------
# layout tables: (name, kind) in declaration order.  kinds:
#   'u8' 'i8' 'u16' 'u32' 'i32'  scalars
#   'str'   guint32 offset of a NUL-terminated string (0 = no string)
#   'type'  SimpleTypeBlob (guint32)
#   'sig'   guint32 offset of a SignatureBlob
#   ('bits', unit_bits, [(name, width), ...])  one bitfield storage unit
#   ('raw', n)      n bytes
#   ('u16s', n)     guint16[n]

_SCALAR = {"u8": ("<B", 1), "i8": ("<b", 1), "u16": ("<H", 2), "u32": ("<I", 4),
           "i32": ("<i", 4), "str": ("<I", 4), "type": ("<I", 4),
           "sig": ("<I", 4)}


def _kind_size_align(kind):
    if isinstance(kind, tuple):
        if kind[0] == "bits":
            return kind[1] // 8, kind[1] // 8
        if kind[0] == "raw":
            return kind[1], 1
        if kind[0] == "u16s":
            return 2 * kind[1], 2
    return _SCALAR[kind][1], _SCALAR[kind][1]


class _Layout:
    def __init__(self, name, fields):
        self.name = name
        self.fields = []
        pos = 0
        maxal = 1
        for fname, kind in fields:
            size, al = _kind_size_align(kind)
            pos = (pos + al - 1) // al * al
            self.fields.append((fname, kind, pos))
            pos += size
            maxal = max(maxal, al)
        self.size = (pos + maxal - 1) // maxal * maxal
        self.align = maxal


def B(bits, *members):
    return ("bits", bits, list(members))


L_HEADER = _Layout("Header", [
    ("magic", ("raw", 16)),
    ("major_version", "u8"), ("minor_version", "u8"), ("reserved", "u16"),
    ("n_entries", "u16"), ("n_local_entries", "u16"),
    ("directory", "u32"), ("n_attributes", "u32"), ("attributes", "u32"),
    ("dependencies", "str"),
    ("size", "u32"), ("namespace", "str"), ("nsversion", "str"),
    ("shared_library", "str"), ("c_prefix", "str"),
    ("entry_blob_size", "u16"), ("function_blob_size", "u16"),
    ("callback_blob_size", "u16"), ("signal_blob_size", "u16"),
    ("vfunc_blob_size", "u16"), ("arg_blob_size", "u16"),
    ("property_blob_size", "u16"), ("field_blob_size", "u16"),
    ("value_blob_size", "u16"), ("attribute_blob_size", "u16"),
    ("constant_blob_size", "u16"), ("error_domain_blob_size", "u16"),
    ("signature_blob_size", "u16"), ("enum_blob_size", "u16"),
    ("struct_blob_size", "u16"), ("object_blob_size", "u16"),
    ("interface_blob_size", "u16"), ("union_blob_size", "u16"),
    ("sections", "u32"),
    ("padding", ("u16s", 6)),
])

L_SECTION = _Layout("Section", [("id", "u32"), ("offset", "u32")])

L_DIRENTRY = _Layout("DirEntry", [
    ("blob_type", "u16"),
    ("_flags", B(16, ("local", 1), ("reserved", 15))),
    ("name", "str"),
    ("offset", "u32"),
])

# SimpleTypeBlobFlags, as one 32-bit unit of 'guint' bitfields
SIMPLE_TYPE_BITS = [("reserved", 8), ("reserved2", 16), ("pointer", 1),
                    ("reserved3", 2), ("tag", 5)]

L_ARG = _Layout("ArgBlob", [
    ("name", "str"),
    ("_flags", B(32, ("in", 1), ("out", 1), ("caller_allocates", 1),
                 ("nullable", 1), ("optional", 1), ("transfer_ownership", 1),
                 ("transfer_container_ownership", 1), ("return_value", 1),
                 ("scope", 3), ("skip", 1), ("reserved", 20))),
    ("closure", "i8"), ("destroy", "i8"),
    ("padding", "u16"),
    ("arg_type", "type"),
])

L_SIGNATURE = _Layout("SignatureBlob", [
    ("return_type", "type"),
    ("_flags", B(16, ("may_return_null", 1), ("caller_owns_return_value", 1),
                 ("caller_owns_return_container", 1), ("skip_return", 1),
                 ("instance_transfer_ownership", 1), ("throws", 1),
                 ("reserved", 10))),
    ("n_arguments", "u16"),
])

L_COMMON = _Layout("CommonBlob", [
    ("blob_type", "u16"),
    ("_flags", B(16, ("deprecated", 1), ("reserved", 15))),
    ("name", "str"),
])

L_FUNCTION = _Layout("FunctionBlob", [
    ("blob_type", "u16"),
    ("_flags", B(16, ("deprecated", 1), ("setter", 1), ("getter", 1),
                 ("constructor", 1), ("wraps_vfunc", 1), ("throws", 1),
                 ("index", 10))),
    ("name", "str"), ("symbol", "str"), ("signature", "sig"),
    ("_flags2", B(16, ("is_static", 1), ("is_async", 1), ("sync_or_async", 10),
                  ("reserved", 4))),
    ("_flags3", B(16, ("finish", 10), ("reserved2", 6))),
])

L_CALLBACK = _Layout("CallbackBlob", [
    ("blob_type", "u16"),
    ("_flags", B(16, ("deprecated", 1), ("reserved", 15))),
    ("name", "str"), ("signature", "sig"),
])

L_INTERFACE_TYPE = _Layout("InterfaceTypeBlob", [
    ("_flags", B(8, ("pointer", 1), ("reserved", 2), ("tag", 5))),
    ("reserved2", "u8"),
    ("interface", "u16"),
])

L_ARRAY_TYPE = _Layout("ArrayTypeBlob", [
    ("_flags", B(16, ("pointer", 1), ("reserved", 2), ("tag", 5),
                 ("zero_terminated", 1), ("has_length", 1), ("has_size", 1),
                 ("array_type", 2), ("reserved2", 3))),
    ("dimensions", "u16"),          # union { guint16 length; guint16 size; }
    ("type", "type"),
])

L_PARAM_TYPE = _Layout("ParamTypeBlob", [
    ("_flags", B(8, ("pointer", 1), ("reserved", 2), ("tag", 5))),
    ("reserved2", "u8"),
    ("n_types", "u16"),
])

L_ERROR_TYPE = _Layout("ErrorTypeBlob", [
    ("_flags", B(8, ("pointer", 1), ("reserved", 2), ("tag", 5))),
    ("reserved2", "u8"),
    ("n_domains", "u16"),
])

L_VALUE = _Layout("ValueBlob", [
    ("_flags", B(32, ("deprecated", 1), ("unsigned_value", 1), ("reserved", 30))),
    ("name", "str"),
    ("value", "i32"),
])

L_FIELD = _Layout("FieldBlob", [
    ("name", "str"),
    ("_flags", B(8, ("readable", 1), ("writable", 1), ("has_embedded_type", 1),
                 ("reserved", 5))),
    ("bits", "u8"),
    ("struct_offset", "u16"),
    ("reserved2", "u32"),
    ("type_raw", "u32"),            # SimpleTypeBlob type; decoded in _fields()
])

L_STRUCT = _Layout("StructBlob", [
    ("blob_type", "u16"),
    ("_flags", B(16, ("deprecated", 1), ("unregistered", 1),
                 ("is_gtype_struct", 1), ("alignment", 6), ("foreign", 1),
                 ("reserved", 6))),
    ("name", "str"), ("gtype_name", "str"), ("gtype_init", "str"),
    ("size", "u32"),
    ("n_fields", "u16"), ("n_methods", "u16"),
    ("copy_func", "str"), ("free_func", "str"),
])

L_UNION = _Layout("UnionBlob", [
    ("blob_type", "u16"),
    ("_flags", B(16, ("deprecated", 1), ("unregistered", 1), ("discriminated", 1),
                 ("alignment", 6), ("reserved", 7))),
    ("name", "str"), ("gtype_name", "str"), ("gtype_init", "str"),
    ("size", "u32"),
    ("n_fields", "u16"), ("n_functions", "u16"),
    ("copy_func", "str"), ("free_func", "str"),
    ("discriminator_offset", "i32"),
    ("discriminator_type", "type"),
])

L_ENUM = _Layout("EnumBlob", [
    ("blob_type", "u16"),
    ("_flags", B(16, ("deprecated", 1), ("unregistered", 1), ("storage_type", 5),
                 ("reserved", 9))),
    ("name", "str"), ("gtype_name", "str"), ("gtype_init", "str"),
    ("n_values", "u16"), ("n_methods", "u16"),
    ("error_domain", "str"),
])

L_PROPERTY = _Layout("PropertyBlob", [
    ("name", "str"),
    ("_flags", B(32, ("deprecated", 1), ("readable", 1), ("writable", 1),
                 ("construct", 1), ("construct_only", 1),
                 ("transfer_ownership", 1), ("transfer_container_ownership", 1),
                 ("setter", 10), ("getter", 10), ("reserved", 5))),
    ("reserved2", "u32"),
    ("type", "type"),
])

L_SIGNAL = _Layout("SignalBlob", [
    ("_flags", B(16, ("deprecated", 1), ("run_first", 1), ("run_last", 1),
                 ("run_cleanup", 1), ("no_recurse", 1), ("detailed", 1),
                 ("action", 1), ("no_hooks", 1), ("has_class_closure", 1),
                 ("true_stops_emit", 1), ("reserved", 6))),
    ("class_closure", "u16"),
    ("name", "str"),
    ("reserved2", "u32"),
    ("signature", "sig"),
])

L_VFUNC = _Layout("VFuncBlob", [
    ("name", "str"),
    ("_flags", B(16, ("must_chain_up", 1), ("must_be_implemented", 1),
                 ("must_not_be_implemented", 1), ("class_closure", 1),
                 ("throws", 1), ("is_async", 1), ("sync_or_async", 10))),
    ("signal", "u16"),
    ("struct_offset", "u16"),
    ("_flags2", B(16, ("invoker", 10), ("reserved", 6))),
    ("_flags3", B(16, ("finish", 10), ("reserved2", 6))),
    ("_flags4", B(16, ("reserved3", 16))),
    ("signature", "sig"),
])

L_OBJECT = _Layout("ObjectBlob", [
    ("blob_type", "u16"),
    ("_flags", B(16, ("deprecated", 1), ("abstract", 1), ("fundamental", 1),
                 ("final_", 1), ("reserved", 12))),
    ("name", "str"), ("gtype_name", "str"), ("gtype_init", "str"),
    ("parent", "u16"), ("gtype_struct", "u16"),
    ("n_interfaces", "u16"), ("n_fields", "u16"), ("n_properties", "u16"),
    ("n_methods", "u16"), ("n_signals", "u16"), ("n_vfuncs", "u16"),
    ("n_constants", "u16"), ("n_field_callbacks", "u16"),
    ("ref_func", "str"), ("unref_func", "str"),
    ("set_value_func", "str"), ("get_value_func", "str"),
    ("reserved3", "u32"), ("reserved4", "u32"),
])

L_INTERFACE = _Layout("InterfaceBlob", [
    ("blob_type", "u16"),
    ("_flags", B(16, ("deprecated", 1), ("reserved", 15))),
    ("name", "str"), ("gtype_name", "str"), ("gtype_init", "str"),
    ("gtype_struct", "u16"),
    ("n_prerequisites", "u16"), ("n_properties", "u16"), ("n_methods", "u16"),
    ("n_signals", "u16"), ("n_vfuncs", "u16"), ("n_constants", "u16"),
    ("padding", "u16"),
    ("reserved2", "u32"), ("reserved3", "u32"),
])

L_CONSTANT = _Layout("ConstantBlob", [
    ("blob_type", "u16"),
    ("_flags", B(16, ("deprecated", 1), ("reserved", 15))),
    ("name", "str"),
    ("type", "type"),
    ("size", "u32"),
    ("offset", "u32"),      # offset of the value; renamed 'value_offset' in dicts
    ("reserved2", "u32"),
])

L_ATTRIBUTE = _Layout("AttributeBlob", [
    ("offset", "u32"), ("name", "str"), ("value", "str"),
])

# The format's constants: header size field -> sizeof of the struct.
# AMBIGUITY 1: ErrorDomainBlob was deleted from the header (BLOB_TYPE_INVALID_0
# "used to be ErrorDomain") but Header.error_domain_blob_size remains.  The
# constant 16 cannot be derived from the current header; it is the value every
# system typelib and the compiler under test record (historical sizeof).
SIZES = {
    "entry_blob_size": L_DIRENTRY.size,
    "function_blob_size": L_FUNCTION.size,
    "callback_blob_size": L_CALLBACK.size,
    "signal_blob_size": L_SIGNAL.size,
    "vfunc_blob_size": L_VFUNC.size,
    "arg_blob_size": L_ARG.size,
    "property_blob_size": L_PROPERTY.size,
    "field_blob_size": L_FIELD.size,
    "value_blob_size": L_VALUE.size,
    "attribute_blob_size": L_ATTRIBUTE.size,
    "constant_blob_size": L_CONSTANT.size,
    "error_domain_blob_size": 16,
    "signature_blob_size": L_SIGNATURE.size,
    "enum_blob_size": L_ENUM.size,
    "struct_blob_size": L_STRUCT.size,
    "object_blob_size": L_OBJECT.size,
    "interface_blob_size": L_INTERFACE.size,
    "union_blob_size": L_UNION.size,
}

# sizeof as documented / as gcc lays them out; verified here at import time.
assert L_HEADER.size == 112 and L_SECTION.size == 8 and L_COMMON.size == 8
assert L_INTERFACE_TYPE.size == 4 and L_ARRAY_TYPE.size == 8
assert L_PARAM_TYPE.size == 4 and L_ERROR_TYPE.size == 4
assert SIZES == {
    "entry_blob_size": 12, "function_blob_size": 20, "callback_blob_size": 12,
    "signal_blob_size": 16, "vfunc_blob_size": 20, "arg_blob_size": 16,
    "property_blob_size": 16, "field_blob_size": 16, "value_blob_size": 12,
    "attribute_blob_size": 12, "constant_blob_size": 24,
    "error_domain_blob_size": 16, "signature_blob_size": 8,
    "enum_blob_size": 24, "struct_blob_size": 32, "object_blob_size": 60,
    "interface_blob_size": 40, "union_blob_size": 40}, SIZES

_MAX_TYPE_DEPTH = 64


def _align4(n):
    return (n + 3) & ~3


class Typelib:
    """Decoded typelib.  See module docstring; attributes: header, entries,
    sections, directory_index, attributes, sz (strides in use)."""

    def __init__(self, data, strict=True):
        self.data = bytes(data)
        self.strict = strict
        self._problems = []
        self._offsets = {}          # offset -> kind, every struct decoded
        self._dir = []              # raw directory (pass 1)
        self._tcache = {}           # offset -> decoded out-of-line type
        self._tbusy = set()
        self.header = None
        self.entries = []
        self.sections = []
        self.directory_index = None
        self.attributes = []
        self._decode()

    # -- problem reporting ---------------------------------------------------

    def _fatal(self, msg):
        raise FormatError(msg)

    def _structural(self, msg):
        """Recoverable structural problem: fatal in strict mode, else noted."""
        if self.strict:
            raise FormatError(msg)
        self._problems.append(msg)

    def _note(self, msg):
        """Invariant violation that never prevents decoding."""
        self._problems.append(msg)

    # -- primitive readers ---------------------------------------------------

    def _need(self, off, n, what):
        if off < 0 or n < 0 or off + n > len(self.data):
            self._fatal("%s: range [%d, %d) outside file of %d bytes"
                        % (what, off, off + n, len(self.data)))

    def _aligned(self, off, what):
        if off % 4:
            self._structural("%s: offset %d not 4-byte aligned" % (what, off))

    def _u16(self, off, what="u16"):
        self._need(off, 2, what)
        return struct.unpack_from("<H", self.data, off)[0]

    def _u32(self, off, what="u32"):
        self._need(off, 4, what)
        return struct.unpack_from("<I", self.data, off)[0]

    def string(self, off, what="string"):
        """NUL-terminated string at byte offset off (None for offset 0)."""
        if off == 0:
            return None
        if off >= len(self.data):
            self._fatal("%s: string offset %d outside file of %d bytes"
                        % (what, off, len(self.data)))
        end = self.data.find(b"\0", off)
        if end < 0:
            self._fatal("%s: string at %d not NUL-terminated inside the file"
                        % (what, off))
        if off < L_HEADER.size:
            self._note("%s: string offset %d points into the header" % (what, off))
        return self.data[off:end].decode("utf-8", "surrogateescape")

    def _struct(self, layout, off, what, register=True):
        """Decode the fixed part of one struct at off by its layout table.
        The dict gets 'offset' = off; a C member itself called 'offset' is
        stored under 'offset_'."""
        self._need(off, layout.size, "%s (%s)" % (what, layout.name))
        self._aligned(off, "%s (%s)" % (what, layout.name))
        if register:
            self._offsets.setdefault(off, layout.name)
        d = {"offset": off}
        for name, kind, pos in layout.fields:
            at = off + pos
            if name == "offset":
                name = "offset_"
            if isinstance(kind, tuple):
                if kind[0] == "bits":
                    nbytes = kind[1] // 8
                    unit = int.from_bytes(self.data[at:at + nbytes], "little")
                    d.update(bitfields(unit, kind[1], kind[2]))
                elif kind[0] == "raw":
                    d[name] = self.data[at:at + kind[1]]
                else:
                    d[name] = list(struct.unpack_from("<%dH" % kind[1],
                                                      self.data, at))
                continue
            v = struct.unpack_from(_SCALAR[kind][0], self.data, at)[0]
            if kind == "str":
                d[name] = self.string(v, "%s.%s at %d" % (layout.name, name, off))
                d[name + "_offset"] = v
            elif kind == "type":
                d[name] = self._type(v, "%s.%s at %d" % (layout.name, name, off))
            elif kind == "sig":
                d[name + "_offset"] = v
                d[name] = self._signature(
                    v, "%s.%s at %d" % (layout.name, name, off))
            else:
                d[name] = v
        for k in d:
            if k.startswith(("reserved", "padding")) and d[k] not in (0, [0] * 6):
                self._note("%s at %d: %s is non-zero (%r)"
                           % (layout.name, off, k, d[k]))
        return d

    # -- directory references ------------------------------------------------

    def _ref(self, index, what):
        """Resolve a 1-based directory index (0 -> None)."""
        if index == 0:
            return None
        if index > len(self._dir):
            self._fatal("%s: directory index %d out of range 1..%d"
                        % (what, index, len(self._dir)))
        e = self._dir[index - 1]
        return {"index": index, "name": e["name"], "local": e["local"],
                "namespace": (self.header["namespace"] if e["local"]
                              else e["namespace"]),
                "blob_type": e["blob_type"]}

    # -- types ---------------------------------------------------------------

    def _type(self, v, what):
        """Decode a SimpleTypeBlob (32-bit value v).

        AMBIGUITY 2: the prose says "if the three high bytes are zero, the low
        byte describes a basic type" and that the offset is "in words ...
        relative to header->types".  Both are stale (see the header's own
        history: "make inline types 4 bytes after all, remove header->types").
        The struct is authoritative: SimpleTypeBlobFlags declares reserved:8
        and reserved2:16 first, i.e. on little-endian the LOW 24 bits; "if
        reserved and reserved2 are both zero" the value is inline with pointer
        at bit 24 and tag at bits 27..31.  Otherwise the whole 32-bit value is
        a BYTE offset from the start of the typelib (as all other offsets;
        confirmed on data: every such value lands 4-aligned on a blob whose
        first byte carries a non-basic tag, which would not hold for words).
        """
        f = bitfields(v, 32, SIMPLE_TYPE_BITS)
        if f["reserved"] == 0 and f["reserved2"] == 0:
            tag = f["tag"]
            if tag >= len(TYPE_TAG_NAMES):
                self._fatal("%s: inline type tag %d unknown" % (what, tag))
            if f["reserved3"]:
                self._note("%s: SimpleTypeBlob.reserved3 non-zero" % what)
            if TAG["array"] <= tag <= TAG["error"]:
                self._note("%s: non-basic tag %s stored inline"
                           % (what, TYPE_TAG_NAMES[tag]))
            return {"tag": TYPE_TAG_NAMES[tag], "tag_value": tag,
                    "pointer": bool(f["pointer"]), "inline": True}
        # Out-of-line type blobs are shared between referrers (the compiler
        # de-duplicates them), so they are decoded once per offset and the
        # same dict object is returned to every referrer: treat it read-only.
        if v in self._tcache:
            return self._tcache[v]
        if v in self._tbusy:
            self._fatal("%s: type blob at %d contains itself" % (what, v))
        if len(self._tbusy) >= _MAX_TYPE_DEPTH:
            self._fatal("%s: type nesting deeper than %d" % (what, _MAX_TYPE_DEPTH))
        self._tbusy.add(v)
        try:
            d = self._tcache[v] = self._complex_type(v, what)
            return d
        finally:
            self._tbusy.discard(v)

    def _complex_type(self, off, what):
        what = "%s -> type blob at %d" % (what, off)
        self._need(off, 4, what)
        # All out-of-line type blobs start with pointer:1 reserved:2 tag:5 in
        # their first byte (ArrayTypeBlob's guint16 unit has the same low byte).
        first = bitfields(self.data[off], 8, [("pointer", 1), ("reserved", 2),
                                              ("tag", 5)])
        tag = first["tag"]
        if tag >= len(TYPE_TAG_NAMES):
            self._fatal("%s: type tag %d unknown" % (what, tag))
        name = TYPE_TAG_NAMES[tag]
        if name == "interface":
            d = self._struct(L_INTERFACE_TYPE, off, what)
            ref = self._ref(d["interface"], what)
            if ref is None:
                self._fatal("%s: interface index 0" % what)
            d.update(interface_name=ref["name"], interface_local=ref["local"],
                     interface_namespace=ref["namespace"],
                     interface_blob_type=ref["blob_type"])
        elif name == "array":
            d = self._struct(L_ARRAY_TYPE, off, what)
            d["array_type_name"] = ARRAY_TYPE_NAMES[d["array_type"]]
            d["length"] = d["dimensions"] if d["has_length"] else None
            d["size"] = d["dimensions"] if d["has_size"] else None
            d["element_type"] = d.pop("type")
        elif name in ("glist", "gslist", "ghash"):
            d = self._struct(L_PARAM_TYPE, off, what)
            n = d["n_types"]
            self._need(off + 4, 4 * n, what + " param types")
            d["param_types"] = [
                self._type(self._u32(off + 4 + 4 * i),
                           "%s type[%d]" % (what, i))
                for i in range(n)]
            if n != (2 if name == "ghash" else 1):
                self._note("%s: %s with n_types=%d" % (what, name, n))
        elif name == "error":
            d = self._struct(L_ERROR_TYPE, off, what)
            n = d["n_domains"]
            self._need(off + 4, 2 * n, what + " domains")
            d["domains"] = [self._u16(off + 4 + 2 * i) for i in range(n)]
            if n:
                self._note("%s: ErrorTypeBlob.n_domains=%d, must be 0" % (what, n))
        else:
            # AMBIGUITY 3: the header does not say how a basic type can be
            # stored out of line.  It is not expected (basic types, with their
            # pointer flag, always fit inline); treat as a structural error.
            self._fatal("%s: basic tag %s in an out-of-line type blob"
                        % (what, name))
        for k in ("pointer", "zero_terminated", "has_length", "has_size"):
            if k in d:
                d[k] = bool(d[k])
        d["tag_value"] = tag
        d["tag"] = name
        d["inline"] = False
        return d

    # -- signatures ----------------------------------------------------------

    def _signature(self, off, what):
        if off == 0:
            self._fatal("%s: signature offset 0" % what)
        d = self._struct(L_SIGNATURE, off, what + " signature")
        self._flagify(d, ("may_return_null", "caller_owns_return_value",
                          "caller_owns_return_container", "skip_return",
                          "instance_transfer_ownership", "throws"))
        base = off + self.sz["signature_blob_size"]
        stride = self.sz["arg_blob_size"]
        args = []
        for i in range(d["n_arguments"]):
            a = self._struct(L_ARG, base + i * stride, "%s arg %d" % (what, i))
            self._flagify(a, ("in", "out", "caller_allocates", "nullable",
                              "optional", "transfer_ownership",
                              "transfer_container_ownership", "return_value",
                              "skip"))
            a["direction"] = {(True, False): "in", (False, True): "out",
                              (True, True): "inout"}.get((a["in"], a["out"]))
            a["transfer"] = self._transfer(a["transfer_ownership"],
                                           a["transfer_container_ownership"])
            a["scope_name"] = (SCOPE_NAMES[a["scope"]]
                               if a["scope"] < len(SCOPE_NAMES) else None)
            a["index"] = i
            args.append(a)
        d["return_transfer"] = self._transfer(d["caller_owns_return_value"],
                                              d["caller_owns_return_container"])
        d["arguments"] = args
        return d

    @staticmethod
    def _transfer(everything, container):
        if everything:
            return "full"
        return "container" if container else "none"

    @staticmethod
    def _flagify(d, names):
        for n in names:
            d[n] = bool(d[n])

    # -- member blobs --------------------------------------------------------

    def _function(self, off, what):
        d = self._struct(L_FUNCTION, off, what)
        self._flagify(d, ("deprecated", "setter", "getter", "constructor",
                          "wraps_vfunc", "throws", "is_static", "is_async"))
        if d["blob_type"] != BLOB_FUNCTION:
            self._note("%s: FunctionBlob.blob_type is %d" % (what, d["blob_type"]))
        return d

    def _callback(self, off, what):
        d = self._struct(L_CALLBACK, off, what)
        self._flagify(d, ("deprecated",))
        if d["blob_type"] != BLOB_CALLBACK:
            self._note("%s: CallbackBlob.blob_type is %d" % (what, d["blob_type"]))
        return d

    def _fields(self, off, n, what):
        """n FieldBlobs starting at off, each followed by a CallbackBlob when
        has_embedded_type ("An anonymous type follows the FieldBlob").
        Returns (list, end offset, number of embedded callbacks)."""
        out = []
        ncb = 0
        for i in range(n):
            w = "%s field %d" % (what, i)
            f = self._struct(L_FIELD, off, w)
            self._flagify(f, ("readable", "writable", "has_embedded_type"))
            off += self.sz["field_blob_size"]
            # AMBIGUITY 9: the header does not say what FieldBlob.type holds
            # when has_embedded_type is set.  Data shows the value 2 there,
            # which is not a valid type reference; girnode.c (G_IR_NODE_FIELD)
            # confirms the compiler stores GI_INFO_TYPE_CALLBACK (2) as a
            # marker.  So the slot is not decoded as a type in that case
            # ('type' is None, 'type_raw' keeps the number).
            if f["has_embedded_type"]:
                f["type"] = None
                if f["type_raw"] != 2:
                    self._note("%s: has_embedded_type but type slot is %d, not "
                               "2 (callback)" % (w, f["type_raw"]))
            else:
                f["type"] = self._type(f["type_raw"], w + " type")
            if f["has_embedded_type"]:
                f["embedded_callback"] = self._callback(off, w + " embedded callback")
                off += self.sz["callback_blob_size"]
                ncb += 1
            out.append(f)
        return out, off, ncb

    def _array(self, fn, off, n, stride, what):
        return ([fn(off + i * stride, "%s %d" % (what, i)) for i in range(n)],
                off + n * stride)

    def _property(self, off, what):
        d = self._struct(L_PROPERTY, off, what)
        self._flagify(d, ("deprecated", "readable", "writable", "construct",
                          "construct_only", "transfer_ownership",
                          "transfer_container_ownership"))
        d["transfer"] = self._transfer(d["transfer_ownership"],
                                       d["transfer_container_ownership"])
        return d

    def _signal(self, off, what):
        d = self._struct(L_SIGNAL, off, what)
        self._flagify(d, ("deprecated", "run_first", "run_last", "run_cleanup",
                          "no_recurse", "detailed", "action", "no_hooks",
                          "has_class_closure", "true_stops_emit"))
        return d

    def _vfunc(self, off, what):
        d = self._struct(L_VFUNC, off, what)
        self._flagify(d, ("must_chain_up", "must_be_implemented",
                          "must_not_be_implemented", "class_closure", "throws",
                          "is_async"))
        return d

    def _value(self, off, what):
        d = self._struct(L_VALUE, off, what)
        self._flagify(d, ("deprecated", "unsigned_value"))
        # "if set, value is a 32-bit unsigned integer cast to gint32"
        d["value_effective"] = (d["value"] & 0xFFFFFFFF if d["unsigned_value"]
                                else d["value"])
        return d

    _CONST_FMT = {"int8": "<b", "uint8": "<B", "int16": "<h", "uint16": "<H",
                  "int32": "<i", "uint32": "<I", "int64": "<q", "uint64": "<Q",
                  "float": "<f", "double": "<d", "unichar": "<I",
                  "boolean": "<i", "gtype": "<Q"}

    def _constant(self, off, what):
        d = self._struct(L_CONSTANT, off, what)
        self._flagify(d, ("deprecated",))
        if d["blob_type"] != BLOB_CONSTANT:
            self._note("%s: ConstantBlob.blob_type is %d" % (what, d["blob_type"]))
        voff = d["value_offset"] = d.pop("offset_")
        self._need(voff, d["size"], what + " constant value")
        if voff % 4:
            # not stated by the header, but every producer aligns values and a
            # reader dereferencing them in place needs it: soft invariant
            self._note("%s: constant value offset %d not 4-byte aligned"
                       % (what, voff))
        raw = self.data[voff:voff + d["size"]]
        d["value_raw"] = raw
        d["value"] = None
        t = d["type"]
        if t["inline"]:
            tag = t["tag"]
            if tag in ("utf8", "filename"):
                # size is documented as "the size of the value in bytes": for a
                # string that is strlen + 1 (terminator included; checked).
                if not raw or raw[-1] != 0 or raw.find(b"\0") != len(raw) - 1:
                    self._note("%s: string constant not exactly one "
                               "NUL-terminated string of size %d" % (what, d["size"]))
                d["value"] = raw.split(b"\0")[0].decode("utf-8", "surrogateescape")
            elif tag in self._CONST_FMT:
                fmt = self._CONST_FMT[tag]
                if struct.calcsize(fmt) != d["size"]:
                    self._note("%s: %s constant with size %d"
                               % (what, tag, d["size"]))
                else:
                    d["value"] = struct.unpack(fmt, raw)[0]
                    if tag == "boolean":
                        d["value"] = bool(d["value"])
        return d

    # -- toplevel blobs ------------------------------------------------------

    def _registered_flags(self, d):
        self._flagify(d, ("deprecated", "unregistered"))

    def _struct_blob(self, off, what):
        # AMBIGUITY 4: StructBlob declares no flexible arrays; by analogy with
        # UnionBlob's "@n_fields: Length of the arrays" and the ObjectBlob
        # order, n_fields FieldBlobs (with embedded callbacks) follow the
        # fixed part, then n_methods FunctionBlobs.  Confirmed by calibration
        # (names/signatures cross-checked against the GIR).
        d = self._struct(L_STRUCT, off, what)
        self._registered_flags(d)
        self._flagify(d, ("is_gtype_struct", "foreign"))
        p = off + self.sz["struct_blob_size"]
        d["fields"], p, _ = self._fields(p, d["n_fields"], what)
        d["methods"], p = self._array(self._function, p, d["n_methods"],
                                      self.sz["function_blob_size"],
                                      what + " method")
        d["end"] = p
        return d

    def _union_blob(self, off, what):
        # AMBIGUITY 5: as for StructBlob (fields, then functions); in addition
        # the header documents "discriminated" but not where the discriminator
        # values live.  Resolved with girnode.c (_g_ir_node_build_typelib,
        # G_IR_NODE_UNION): the discriminator values are written after the
        # functions as ConstantBlobs, one per field.  (The compiler currently
        # always stores discriminated = 0, "We don't support Union
        # discriminators right now", so this path is not exercised by any
        # calibration input.)
        d = self._struct(L_UNION, off, what)
        self._registered_flags(d)
        self._flagify(d, ("discriminated",))
        p = off + self.sz["union_blob_size"]
        d["fields"], p, _ = self._fields(p, d["n_fields"], what)
        d["functions"], p = self._array(self._function, p, d["n_functions"],
                                        self.sz["function_blob_size"],
                                        what + " function")
        d["discriminators"] = []
        if d["discriminated"]:
            d["discriminators"], p = self._array(
                self._constant, p, d["n_fields"], self.sz["constant_blob_size"],
                what + " discriminator")
        d["end"] = p
        return d

    def _enum_blob(self, off, what):
        # AMBIGUITY 6: "ValueBlob values[]" is the only declared array; the
        # n_methods FunctionBlobs follow the values ("@n_methods: The length
        # of the methods array").
        d = self._struct(L_ENUM, off, what)
        self._registered_flags(d)
        st = d["storage_type"]
        d["storage_type_name"] = (TYPE_TAG_NAMES[st] if st < len(TYPE_TAG_NAMES)
                                  else None)
        p = off + self.sz["enum_blob_size"]
        d["values"], p = self._array(self._value, p, d["n_values"],
                                     self.sz["value_blob_size"], what + " value")
        d["methods"], p = self._array(self._function, p, d["n_methods"],
                                      self.sz["function_blob_size"],
                                      what + " method")
        d["end"] = p
        return d

    def _index_array(self, off, n, what):
        """guint16[n] of directory indices, padded to a multiple of 4 bytes
        ("Up to 16bits of padding may be inserted between the arrays to ensure
        that they start on a 32bit boundary")."""
        self._need(off, _align4(2 * n), what)
        idx = [self._u16(off + 2 * i) for i in range(n)]
        if n % 2 and self._u16(off + 2 * n):
            self._note("%s: padding after %d indices is non-zero" % (what, n))
        refs = []
        for i, x in enumerate(idx):
            r = self._ref(x, "%s[%d]" % (what, i))
            if r is None:
                self._note("%s[%d]: directory index 0" % (what, i))
            refs.append(r)
        return idx, refs, off + _align4(2 * n)

    def _members(self, d, p, what, with_fields):
        if with_fields:
            d["fields"], p, ncb = self._fields(p, d["n_fields"], what)
            if ncb != d["n_field_callbacks"]:
                self._note("%s: n_field_callbacks=%d but %d fields have an "
                           "embedded type" % (what, d["n_field_callbacks"], ncb))
        sz = self.sz
        d["properties"], p = self._array(self._property, p, d["n_properties"],
                                         sz["property_blob_size"], what + " property")
        d["methods"], p = self._array(self._function, p, d["n_methods"],
                                      sz["function_blob_size"], what + " method")
        d["signals"], p = self._array(self._signal, p, d["n_signals"],
                                      sz["signal_blob_size"], what + " signal")
        d["vfuncs"], p = self._array(self._vfunc, p, d["n_vfuncs"],
                                     sz["vfunc_blob_size"], what + " vfunc")
        d["constants"], p = self._array(self._constant, p, d["n_constants"],
                                        sz["constant_blob_size"], what + " constant")
        d["end"] = p
        for s in d["signals"]:
            if s["has_class_closure"] and s["class_closure"] >= d["n_vfuncs"]:
                self._note("%s signal %s: class_closure %d >= n_vfuncs"
                           % (what, s["name"], s["class_closure"]))
        for m in d["methods"]:
            if m["wraps_vfunc"] and m["index"] >= d["n_vfuncs"]:
                self._note("%s method %s: wraps_vfunc index %d >= n_vfuncs"
                           % (what, m["name"], m["index"]))
            if (m["setter"] or m["getter"]) and m["index"] >= d["n_properties"]:
                self._note("%s method %s: accessor index %d >= n_properties"
                           % (what, m["name"], m["index"]))
        for v in d["vfuncs"]:
            if v["invoker"] != ACCESSOR_SENTINEL and v["invoker"] >= d["n_methods"]:
                self._note("%s vfunc %s: invoker %d >= n_methods"
                           % (what, v["name"], v["invoker"]))
        for pr in d["properties"]:
            for k in ("setter", "getter"):
                if pr[k] != ACCESSOR_SENTINEL and pr[k] >= d["n_methods"]:
                    self._note("%s property %s: %s %d >= n_methods"
                               % (what, pr["name"], k, pr[k]))

    def _object_blob(self, off, what):
        d = self._struct(L_OBJECT, off, what)
        self._flagify(d, ("deprecated", "abstract", "fundamental", "final_"))
        d["final"] = d["final_"]
        d["parent_ref"] = self._ref(d["parent"], what + " parent")
        d["gtype_struct_ref"] = self._ref(d["gtype_struct"], what + " gtype_struct")
        p = off + self.sz["object_blob_size"]
        d["interfaces"], d["interfaces_refs"], p = self._index_array(
            p, d["n_interfaces"], what + " interfaces")
        self._members(d, p, what, True)
        return d

    def _interface_blob(self, off, what):
        d = self._struct(L_INTERFACE, off, what)
        self._flagify(d, ("deprecated",))
        d["gtype_struct_ref"] = self._ref(d["gtype_struct"], what + " gtype_struct")
        p = off + self.sz["interface_blob_size"]
        d["prerequisites"], d["prerequisites_refs"], p = self._index_array(
            p, d["n_prerequisites"], what + " prerequisites")
        self._members(d, p, what, False)
        return d

    def _blob(self, blob_type, off, what):
        if blob_type == BLOB_FUNCTION:
            return self._function(off, what)
        if blob_type == BLOB_CALLBACK:
            return self._callback(off, what)
        if blob_type in (BLOB_STRUCT, BLOB_BOXED):
            # AMBIGUITY 7: "BLOB_TYPE_BOXED: Can be either a StructBlob or
            # UnionBlob" with no discriminating rule.  Resolved with girnode.c:
            # the compiler writes G_IR_NODE_BOXED as a StructBlob with
            # blob_type BOXED (boxed unions are written as BLOB_TYPE_UNION
            # with gtype_name set), so BOXED is decoded as a StructBlob.
            return self._struct_blob(off, what)
        if blob_type in (BLOB_ENUM, BLOB_FLAGS):
            return self._enum_blob(off, what)
        if blob_type == BLOB_OBJECT:
            return self._object_blob(off, what)
        if blob_type == BLOB_INTERFACE:
            return self._interface_blob(off, what)
        if blob_type == BLOB_CONSTANT:
            return self._constant(off, what)
        if blob_type == BLOB_UNION:
            return self._union_blob(off, what)
        self._fatal("%s: local entry with blob type %d" % (what, blob_type))

    # -- top level -----------------------------------------------------------

    def _decode(self):
        data = self.data
        if len(data) < L_HEADER.size:
            self._fatal("file of %d bytes is smaller than the header" % len(data))
        if data[:16] != MAGIC:
            self._fatal("bad magic %r" % data[:16])
        # pass 0: raw size fields, needed as strides before anything else
        self.sz = {}
        for name, kind, pos in L_HEADER.fields:
            if name in SIZES:
                v = struct.unpack_from("<H", data, pos)[0]
                if v < SIZES[name]:
                    self._fatal("header.%s=%d smaller than the format's %d"
                                % (name, v, SIZES[name]))
                if v != SIZES[name]:
                    self._structural("header.%s=%d, format constant is %d"
                                     % (name, v, SIZES[name]))
                    if v % 4:
                        self._fatal("header.%s=%d not a multiple of 4" % (name, v))
                self.sz[name] = v
        self.header = {}        # so string() can complain before it is filled
        h = self._struct(L_HEADER, 0, "header", register=False)
        self.header = h
        if h["major_version"] != 4:
            self._structural("header.major_version=%d, expected 4"
                             % h["major_version"])
        if h["size"] != len(data):
            self._structural("header.size=%d but file has %d bytes"
                             % (h["size"], len(data)))
        if h["namespace"] is None:
            self._fatal("header.namespace offset is 0")
        dep = h["dependencies"]
        h["dependencies_string"] = dep
        h["dependencies"] = dep.split("|") if dep else []
        for x in h["dependencies"]:
            ns, sep, ver = x.rpartition("-")
            if not (sep and ns and ver):
                self._note("header.dependencies: item %r is not 'Namespace-"
                           "Version'" % x)
        if h["n_local_entries"] > h["n_entries"]:
            self._structural("n_local_entries=%d > n_entries=%d"
                             % (h["n_local_entries"], h["n_entries"]))

        # pass 1: directory, names only (type blobs refer to entries by index)
        esz = self.sz["entry_blob_size"]
        self._aligned(h["directory"], "header.directory")
        self._need(h["directory"], esz * h["n_entries"], "directory")
        for i in range(h["n_entries"]):
            e = self._struct(L_DIRENTRY, h["directory"] + i * esz,
                             "directory entry %d" % (i + 1), register=False)
            e["entry_offset"] = e.pop("offset")     # where the DirEntry lives
            e["offset"] = e.pop("offset_")          # DirEntry.offset
            e["local"] = bool(e["local"])
            e["index"] = i + 1
            if e["name"] is None:
                self._fatal("directory entry %d: name offset 0" % (i + 1))
            if e["blob_type"] >= len(BLOB_TYPE_NAMES):
                self._fatal("directory entry %d: blob type %d unknown"
                            % (i + 1, e["blob_type"]))
            e["blob_type_name"] = BLOB_TYPE_NAMES[e["blob_type"]]
            if e["local"]:
                if i >= h["n_local_entries"]:
                    self._note("directory entry %d is local but n_local_entries"
                               "=%d (local entries must come first)"
                               % (i + 1, h["n_local_entries"]))
            else:
                if i < h["n_local_entries"]:
                    self._note("directory entry %d is non-local but lies inside "
                               "the first n_local_entries=%d"
                               % (i + 1, h["n_local_entries"]))
                e["namespace"] = self.string(
                    e["offset"], "directory entry %d namespace" % (i + 1))
                if e["namespace"] is None:
                    self._fatal("directory entry %d: namespace offset 0" % (i + 1))
            self._dir.append(e)

        # pass 2: blobs
        for e in self._dir:
            if e["local"]:
                what = "entry %d (%s)" % (e["index"], e["name"])
                self._aligned(e["offset"], what)
                b = self._blob(e["blob_type"], e["offset"], what)
                if b["blob_type"] != e["blob_type"]:
                    self._note("%s: blob_type %d differs from the directory's %d"
                               % (what, b["blob_type"], e["blob_type"]))
                if b["name_offset"] != e["name_offset"] and b["name"] != e["name"]:
                    self._note("%s: blob name %r differs from the directory's"
                               % (what, b["name"]))
                e["blob"] = b
            self.entries.append(e)

        # attributes
        asz = self.sz["attribute_blob_size"]
        if h["n_attributes"]:
            self._aligned(h["attributes"], "header.attributes")
        self._need(h["attributes"], asz * h["n_attributes"], "attribute table")
        prev = -1
        for i in range(h["n_attributes"]):
            at = h["attributes"] + i * asz
            a = {"offset": self._u32(at),
                 "name": self.string(self._u32(at + 4), "attribute %d name" % i),
                 "value": self.string(self._u32(at + 8), "attribute %d value" % i),
                 "table_offset": at}
            if a["name"] is None or a["value"] is None:
                self._note("attribute %d: name or value offset is 0" % i)
            if a["offset"] < prev:
                self._note("attribute table not sorted by offset at index %d "
                           "(%d after %d)" % (i, a["offset"], prev))
            prev = a["offset"]
            if a["offset"] not in self._offsets:
                self._note("attribute %d (%s) refers to offset %d where no blob "
                           "was decoded" % (i, a["name"], a["offset"]))
            self.attributes.append(a)

        # sections
        if h["sections"]:
            self._aligned(h["sections"], "header.sections")
            p = h["sections"]
            while True:
                s = self._struct(L_SECTION, p, "section array", register=False)
                p += L_SECTION.size
                if s["id"] == GI_SECTION_END:
                    break
                sec = {"id": s["id"], "id_name": SECTION_NAMES.get(s["id"]),
                       "offset": s["offset_"]}
                self._need(sec["offset"], 0, "section %d" % s["id"])
                self._aligned(sec["offset"], "section %d" % s["id"])
                self.sections.append(sec)
                if s["id"] == GI_SECTION_DIRECTORY_INDEX:
                    if self.directory_index is not None:
                        self._note("more than one directory-index section")
                    self.directory_index = self._dirindex(sec["offset"])

    def _dirindex(self, off):
        """AMBIGUITY 8: the header documents SectionType/Section as "TODO".
        Layout taken from the comment in girepository/gthash.c (the hash
        builder declared at the end of the header): guint32 dirmap_offset
        (relative to the section start, 4-aligned); packed CMPH/BDZ function;
        padding; guint16 table[n_local_entries] mapping hash value to
        directory index.  The perfect hash itself is not evaluated here; the
        table must be a permutation of the local entries' 0-based positions.
        """
        n = self.header["n_local_entries"]
        dm = self._u32(off, "directory index dirmap_offset")
        if dm % 4 or dm < 4:
            self._structural("directory index: dirmap_offset %d invalid" % dm)
        self._need(off + dm, 2 * n, "directory index table")
        table = list(struct.unpack_from("<%dH" % n, self.data, off + dm))
        if sorted(table) != list(range(n)):
            self._note("directory index table is not a permutation of 0..%d"
                       % (n - 1))
        return {"offset": off, "dirmap_offset": dm, "mph_size": dm - 4,
                "table": table, "end": off + dm + 2 * n}

    # -- public helpers ------------------------------------------------------

    def attributes_for(self, offset):
        return [(a["name"], a["value"]) for a in self.attributes
                if a["offset"] == offset]

    def entry(self, name):
        for e in self.entries:
            if e["name"] == name:
                return e
        return None

    def check_invariants(self):
        """Problems found while decoding (format invariants of C06).  In strict
        mode the structural ones (sizes, alignment) have already raised."""
        return list(self._problems)

    def to_json(self):
        def default(o):
            if isinstance(o, (bytes, bytearray)):
                return o.hex()
            raise TypeError(type(o))
        return json.dumps({"header": self.header, "sections": self.sections,
                           "directory_index": self.directory_index,
                           "entries": self.entries,
                           "attributes": self.attributes,
                           "problems": self.check_invariants()},
                          indent=1, default=default)


def main(argv):
    if len(argv) != 2:
        print("usage: python -m vlib.typelib FILE", file=sys.stderr)
        return 2
    with open(argv[1], "rb") as f:
        data = f.read()
    try:
        t = Typelib(data, strict=False)
    except FormatError as e:
        print("FormatError: %s" % e, file=sys.stderr)
        return 1
    print(t.to_json())
    return 0


if __name__ == "__main__":
    sys.exit(main(sys.argv))
