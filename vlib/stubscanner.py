"""Substrate P, part 1: stand-in for the missing C extension giscanner._giscanner.

Only `SourceScanner` (the flex/bison front end) lives in that extension. This
module registers a stub under that name *before* any giscanner module is
imported, and provides the raw symbol/type objects with exactly the attributes
giscannermodule.c exposes, so that the repository's own
giscanner.sourcescanner.SourceSymbol / SourceType wrap them unchanged.
"""
import sys
import types

from vlib.runner import REPO


class RawType(object):
    __slots__ = ('type', 'name', 'base_type', 'type_qualifier', 'storage_class_specifier',
                 'function_specifier', 'child_list', 'is_bitfield')

    def __init__(self, type, name=None, base_type=None, qual=0, children=None,
                 is_bitfield=0, function_specifier=0, storage=0):
        self.type = type
        self.name = name
        self.base_type = base_type
        self.type_qualifier = qual
        self.storage_class_specifier = storage
        self.function_specifier = function_specifier
        self.child_list = list(children or [])
        self.is_bitfield = is_bitfield


class RawSymbol(object):
    __slots__ = ('type', 'ident', 'base_type', 'line', 'source_filename', 'private',
                 'const_int', 'const_double', 'const_string', 'const_boolean')

    def __init__(self, type, ident, base_type=None, line=1, filename=None, private=False,
                 const_int=None, const_double=None, const_string=None, const_boolean=None):
        self.type = type
        self.ident = ident
        self.base_type = base_type
        self.line = line
        self.source_filename = filename
        self.private = private
        self.const_int = const_int
        self.const_double = const_double
        self.const_string = const_string
        self.const_boolean = const_boolean


class _StubCScanner(object):
    """What giscanner.sourcescanner.SourceScanner holds as self._scanner."""

    def __init__(self):
        self._symbols = []
        self._comments = []
        self._errors = []

    def append_filename(self, filename):
        pass

    def lex_filename(self, filename):
        pass

    def parse_file(self, filename):
        pass

    def parse_macros(self, filenames):
        pass

    def set_macro_scan(self, flag):
        pass

    def get_symbols(self):
        return list(self._symbols)

    def get_comments(self):
        return list(self._comments)

    def get_errors(self):
        return list(self._errors)


_installed = False


def install():
    """Idempotent. Must run before `import giscanner.<anything using sourcescanner>`."""
    global _installed
    if _installed:
        return
    if REPO not in sys.path:
        sys.path.insert(0, REPO)
    for name in list(sys.modules):
        if name == 'giscanner' or name.startswith('giscanner.'):
            mod = sys.modules[name]
            f = getattr(mod, '__file__', '') or ''
            if not f.startswith(REPO):
                del sys.modules[name]
    stub = types.ModuleType('giscanner._giscanner')
    stub.SourceScanner = _StubCScanner
    sys.modules['giscanner._giscanner'] = stub
    import giscanner  # noqa
    if not giscanner.__file__.startswith(REPO):
        raise RuntimeError('giscanner imported from %s, not from %s' % (giscanner.__file__, REPO))
    giscanner._giscanner = stub
    _installed = True
