"""Common runner for all property checks (see DESIGN.md section 1.1).

A check module (checks/cNN.py) defines:

  ID, LEVEL, RULE, ASSUMPTIONS (list of str)
  plan(tier)            -> list of shard specs (JSON-able dicts); each is run in a
                           worker process with its own derived seed
  run_shard(ctx, spec)  -> None; uses ctx.hyp(...) / ctx.case(...) helpers
  check_case(case)      -> None or raises Violation; `case` is a JSON-able value.
                           This is the oracle, a pure function of the case and the
                           code under test; replay files are re-run through it.
  optional: known_shape(case, violation) -> key str or None
            health(agg) -> list of problem strings (generator health gate)
            setup(tier) -> run once in the parent before the shards (e.g. C build)

Exit status: 0 held, 1 violation (prints VIOLATION line), 2 harness error.
"""
import argparse
import collections
import hashlib
import importlib
import json
import multiprocessing
import os
import re
import shutil
import sys
import time
import traceback

VERIF = os.path.dirname(os.path.dirname(os.path.abspath(__file__)))
REPO = os.environ.get('VERIF_REPO', '/repo')
NPROC = int(os.environ.get('VERIF_NPROC', '16'))
# mutant runs redirect evidence/violations so that committed evidence is untouched
OUT = os.environ.get('VERIF_OUT', VERIF)


class Violation(Exception):
    """The property does not hold for this case."""

    def __init__(self, clause, detail=''):
        Exception.__init__(self, '%s: %s' % (clause, detail))
        self.clause = clause
        self.detail = detail


class HarnessError(Exception):
    """The harness (not the code under test) is broken; exit 2."""


class Discard(Exception):
    """The case is outside the property's domain; counted, never a failure."""


def derive_seed(base, ident, shard):
    h = hashlib.sha256(('%d/%s/%d' % (base, ident, shard)).encode()).digest()
    return int.from_bytes(h[:8], 'big')


def case_hash(case):
    s = json.dumps(case, sort_keys=True, default=repr, ensure_ascii=True)
    return hashlib.blake2b(s.encode(), digest_size=8).hexdigest()


def crash_clause(exc):
    """Bucket an unexpected exception by (type, innermost frame in the repo)."""
    tb = traceback.extract_tb(exc.__traceback__)
    where = '?'
    for fr in tb:
        if fr.filename.startswith(REPO + os.sep):
            where = '%s:%s' % (os.path.relpath(fr.filename, REPO), fr.name)
    return 'exception:%s@%s' % (type(exc).__name__, where)


class Ctx(object):
    def __init__(self, mod, tier, seed, shard, spec):
        self.mod = mod
        self.tier = tier
        self.base_seed = seed
        self.shard = shard
        self.spec = spec
        self.seed = derive_seed(seed, mod.ID, shard)
        self.evals = 0
        self.discards = 0
        self.excluded_known = 0
        self.nontrivial = set()
        self.labels = collections.Counter()
        self.samples = []
        self.failures = []     # list of dicts
        self.extra = {}
        self._last_failure = None
        self.scratch = os.path.join(VERIF, '.scratch', mod.ID, '%d-%d' % (os.getpid(), shard))

    # -- bookkeeping used by check bodies ---------------------------------
    def label(self, *names):
        for n in names:
            self.labels[n] += 1

    def note_nontrivial(self, case):
        self.nontrivial.add(case_hash(case))

    def sample(self, case, limit=4):
        if len(self.samples) < limit:
            self.samples.append(case)

    def known(self, key):
        """Exclusion by construction: True (and counted) when `key` is an open known
        finding of this property, so the oracle can skip exactly that shape and go on."""
        if getattr(self, 'no_exclusion', False):
            return False
        if key in open_known_keys(self.mod.ID):
            self.excluded_known += 1
            self.labels['excluded_known:' + key] += 1
            return True
        return False

    def mkscratch(self):
        os.makedirs(self.scratch, exist_ok=True)
        return self.scratch

    # -- evaluating one case ----------------------------------------------
    def run_case(self, case, reraise=True):
        """Evaluate the oracle on one JSON-able case. Returns True when it held.
        With reraise (inside Hypothesis) the failure propagates so that the
        library shrinks it; the last recorded failure is the minimal one."""
        self.evals += 1
        try:
            r = self.mod.check_case(case, self)
        except Discard:
            self.discards += 1
            return True
        except Violation as v:
            key = None
            ks = getattr(self.mod, 'known_shape', None)
            if ks is not None:
                key = ks(case, v)
            if key is not None and key in open_known_keys(self.mod.ID):
                self.excluded_known += 1
                self.labels['excluded_known:' + key] += 1
                return True
            self._last_failure = {'clause': v.clause, 'detail': v.detail, 'case': case}
            if reraise:
                raise
            self.failures.append(self._last_failure)
            return False
        return True

    def hyp(self, strategy, max_examples, shrink=True, name='prop'):
        """Drive check_case with Hypothesis over `strategy` (JSON-able cases)."""
        import hypothesis
        from hypothesis import given, settings, HealthCheck, Phase
        phases = [Phase.generate, Phase.target]
        if shrink and not os.environ.get('VERIF_NOSHRINK'):
            phases.append(Phase.shrink)
        st = settings(max_examples=max_examples, database=None, deadline=None,
                      derandomize=False, report_multiple_bugs=False,
                      suppress_health_check=list(HealthCheck),
                      phases=phases, print_blob=False)
        ctx = self

        @hypothesis.seed(self.seed)
        @st
        @given(strategy)
        def prop(case):
            ctx.run_case(case)

        self._last_failure = None
        try:
            prop()
        except Violation:
            if self._last_failure is None:
                raise HarnessError('violation without recorded case')
            self.failures.append(self._last_failure)
        except hypothesis.errors.Flaky as e:
            # a nondeterministic oracle is a harness defect, not a violation
            raise HarnessError('flaky property %s: %s' % (name, e))
        except hypothesis.errors.Unsatisfiable as e:
            raise HarnessError('generator unsatisfiable in %s: %s' % (name, e))

    def fuzz(self, strategy, runs, name='fuzz', instrument=('giscanner',), max_len=16384):
        """Coverage-guided campaign: libFuzzer (atheris) mutates the byte stream that Hypothesis turns into a
        case of `strategy` (hypothesis `fuzz_one_input`), with the Python functions of the modules named in
        `instrument` instrumented for edge coverage. The same check_case oracle runs on every case. libFuzzer
        never returns, so the campaign runs in a forked child that reports through files; its counts, labels,
        samples and (unshrunk) failing cases are merged into this context. Returns the statistics dict."""
        if not os.path.isdir(os.path.join(VERIF, '.deps', 'atheris')):
            # setup.sh could not install the wheel: the campaign is skipped and said so in the evidence
            stats = {'campaign': name, 'skipped': 'atheris is not installed under .deps (see setup.sh)'}
            self.extra.setdefault('fuzz_campaigns', []).append(stats)
            return stats
        base = os.path.join(self.mkscratch(), 'fuzz-%s' % name)
        shutil.rmtree(base, ignore_errors=True)
        os.makedirs(os.path.join(base, 'corpus'))
        # starting corpus: a few pseudo-random buffers derived from the shard seed (an empty corpus starves the
        # Hypothesis byte-stream parser: short inputs are rejected as "overrun" before any case is built)
        for i, size in enumerate((64, 256, 1024, 4096, 4096, 8192)):
            blob = b''
            k = 0
            while len(blob) < size:
                blob += hashlib.sha256(('%d/%d/%d' % (self.seed, i, k)).encode()).digest()
                k += 1
            with open(os.path.join(base, 'corpus', 'seed-%d' % i), 'wb') as f:
                f.write(blob[:size])
        statf = os.path.join(base, 'stats.json')
        logf = os.path.join(base, 'libfuzzer.log')
        pid = os.fork()
        if pid == 0:
            code = 1
            try:
                _fuzz_child(self, strategy, runs, base, statf, logf, instrument, max_len)
                code = 0
            except BaseException:  # noqa
                try:
                    with open(os.path.join(base, 'child-error.txt'), 'w') as f:
                        f.write(traceback.format_exc())
                except Exception:
                    pass
            finally:
                os._exit(code)
        _, status = os.waitpid(pid, 0)
        if os.path.exists(os.path.join(base, 'child-error.txt')):
            raise HarnessError('fuzz child failed: ' + open(os.path.join(base, 'child-error.txt')).read()[-1500:])
        if not os.path.exists(statf):
            raise HarnessError('fuzz campaign %s left no statistics (exit status %r): %s'
                               % (name, status, open(logf).read()[-800:] if os.path.exists(logf) else ''))
        st = json.load(open(statf))
        r = st['result']
        self.evals += r['evals']
        self.discards += r['discards']
        self.excluded_known += r['excluded_known']
        self.nontrivial.update(r['nontrivial'])
        for k, v in r['labels'].items():
            self.labels[k] += v
        for smp in r['samples']:
            self.sample(smp)
        self.failures.extend(r['failures'])
        log = open(logf, errors='replace').read() if os.path.exists(logf) else ''
        cov = re.findall(r'cov: (\d+) ft: (\d+) corp: (\d+)', log)
        stats = {'campaign': name, 'engine': 'atheris/libFuzzer over hypothesis.fuzz_one_input', 'runs_requested': runs,
                 'inputs_fed': st['fed'], 'cases_evaluated': r['evals'], 'failing_cases': len(r['failures']),
                 'edge_coverage': int(cov[-1][0]) if cov else None, 'features': int(cov[-1][1]) if cov else None,
                 'corpus': int(cov[-1][2]) if cov else None, 'finished': 'Done ' in log}
        self.extra.setdefault('fuzz_campaigns', []).append(stats)
        self.labels['fuzz-evaluated'] += r['evals']
        return stats

    def result(self):
        return {
            'shard': self.shard, 'spec': self.spec, 'seed': self.seed,
            'evals': self.evals, 'discards': self.discards,
            'excluded_known': self.excluded_known,
            'nontrivial': sorted(self.nontrivial),
            'labels': dict(self.labels), 'samples': self.samples,
            'failures': self.failures, 'extra': self.extra,
        }


def _fuzz_child(parent, strategy, runs, base, statf, logf, instrument, max_len):
    """Body of the forked fuzz process (never returns normally: libFuzzer exits the process)."""
    import types
    deps = os.path.join(VERIF, '.deps')
    if deps not in sys.path:
        sys.path.insert(0, deps)
    import atheris
    from hypothesis import given, settings, HealthCheck, Phase
    # instrument the already imported functions of the code under test (bytecode is patched in place)
    seen = set()

    def instr(fn):
        code = getattr(fn, '__code__', None)
        if code is None or id(fn) in seen:
            return
        seen.add(id(fn))
        try:
            atheris.instrument_func(fn)
        except Exception:
            pass
    for mname, m in list(sys.modules.items()):
        if m is None or not any(mname == p or mname.startswith(p + '.') for p in instrument):
            continue
        if not getattr(m, '__file__', None) or not str(m.__file__).endswith('.py'):
            continue
        for obj in list(vars(m).values()):
            if isinstance(obj, types.FunctionType) and obj.__module__ == mname:
                instr(obj)
            elif isinstance(obj, type) and obj.__module__ == mname:
                for v in list(vars(obj).values()):
                    f = v.__func__ if isinstance(v, (staticmethod, classmethod)) else v
                    if isinstance(f, types.FunctionType):
                        instr(f)
    ctx = Ctx(parent.mod, parent.tier, parent.base_seed, parent.shard, parent.spec)
    ctx.scratch = os.path.join(base, 'scratch')
    state = {'fed': 0, 'written': 0}

    def dump():
        res = ctx.result()
        res['failures'] = res['failures'][:25]
        tmp = statf + '.tmp'
        with open(tmp, 'w') as f:
            json.dump({'fed': state['fed'], 'result': res}, f, default=repr)
        os.replace(tmp, statf)

    @settings(database=None, deadline=None, suppress_health_check=list(HealthCheck), phases=[Phase.generate],
              print_blob=False, report_multiple_bugs=False)
    @given(strategy)
    def prop(case):
        known_clauses = set(f['clause'] for f in ctx.failures)
        n = len(ctx.failures)
        ctx.run_case(case, reraise=False)
        if len(ctx.failures) > n and ctx.failures[-1]['clause'] in known_clauses:
            ctx.failures.pop()          # one (unshrunk) witness per clause is enough

    fuzz_one = prop.hypothesis.fuzz_one_input

    def one(data):
        state['fed'] += 1
        fuzz_one(data)
        if state['fed'] % 200 == 0 or state['fed'] >= runs:
            dump()

    dump()
    fd = os.open(logf, os.O_WRONLY | os.O_CREAT | os.O_TRUNC, 0o644)
    os.dup2(fd, 2)
    argv = ['fuzz', '-runs=%d' % runs, '-seed=%d' % (parent.seed % (2 ** 31 - 1) or 1), '-max_len=%d' % max_len,
            '-verbosity=1', '-print_final_stats=1', '-len_control=0', os.path.join(base, 'corpus')]
    atheris.Setup(argv, one)
    atheris.Fuzz()


# ---------------------------------------------------------------------------
_KNOWN = None


def load_known():
    global _KNOWN
    if _KNOWN is None:
        p = os.path.join(VERIF, 'known_findings.json')
        _KNOWN = json.load(open(p)) if os.path.exists(p) else {'findings': []}
    return _KNOWN


def open_known_keys(pid):
    return set(f['key'] for f in load_known()['findings']
               if f['property'] == pid and f.get('status') == 'open')


def _worker(args):
    modname, tier, seed, shard, spec = args
    os.environ.setdefault('PYTHONHASHSEED', '0')
    try:
        mod = importlib.import_module(modname)
        ctx = Ctx(mod, tier, seed, shard, spec)
        try:
            mod.run_shard(ctx, spec)
        finally:
            shutil.rmtree(ctx.scratch, ignore_errors=True)
        return ctx.result()
    except HarnessError as e:
        return {'shard': shard, 'harness_error': '%s\n%s' % (e, traceback.format_exc())}
    except BaseException as e:  # noqa
        return {'shard': shard, 'harness_error': 'uncaught %r\n%s' % (e, traceback.format_exc())}


def _truncate(obj, limit=4000):
    s = json.dumps(obj, default=repr)
    if len(s) <= limit:
        return obj
    return {'truncated_json': s[:limit] + '...'}


def write_evidence(mod, tier, seed, agg, wall, violations):
    cov = {
        'evaluations': agg['evals'],
        'distinct_nontrivial': len(agg['nontrivial']),
        'rule': mod.RULE,
        'samples': [_truncate(s) for s in agg['samples'][:6]],
        'labels': dict(sorted(agg['labels'].items())),
        'discarded': agg['discards'],
        'excluded_known': agg['excluded_known'],
        'shards': agg['shards'],
        'replayed_files': agg['replayed'],
        'exhaustive': bool(agg['extra'].get('exhaustive', False)),
    }
    for k, v in agg['extra'].items():
        if k not in cov:
            cov[k] = v
    if mod.LEVEL == 'translation_validation':
        cov['programs'] = agg['evals']
        cov['disagreements_checked'] = agg['extra'].get('disagreements_checked', agg['evals'])
    ev = {
        'property_id': mod.ID, 'tier': tier, 'seed': seed, 'level': mod.LEVEL,
        'coverage': cov, 'assumptions': list(mod.ASSUMPTIONS),
        'wall_s': round(wall, 2), 'violations': violations,
    }
    d = os.path.join(OUT, 'evidence')
    os.makedirs(d, exist_ok=True)
    tmp = os.path.join(d, '.%s.json.tmp' % mod.ID)
    with open(tmp, 'w') as f:
        json.dump(ev, f, indent=1, default=repr)
        f.write('\n')
    os.replace(tmp, os.path.join(d, '%s.json' % mod.ID))


def replay_one(mod, path):
    data = json.load(open(path))
    ctx = Ctx(mod, 'quick', 0, 0, {'replay': path})
    try:
        ok = ctx.run_case(data['case'], reraise=False)
    finally:
        shutil.rmtree(ctx.scratch, ignore_errors=True)
    return ok, ctx


def main(argv=None):
    ap = argparse.ArgumentParser()
    ap.add_argument('id')
    ap.add_argument('--tier', default=os.environ.get('VERIF_TIER', 'quick'),
                    choices=['quick', 'thorough'])
    ap.add_argument('--replay')
    ap.add_argument('--shards', type=int)
    a = ap.parse_args(argv)
    try:
        seed = int(os.environ.get('VERIF_SEED', '1'))
    except ValueError:
        seed = 1
    pid = a.id.upper()
    modname = 'checks.%s' % pid.lower()
    sys.path.insert(0, VERIF)
    t0 = time.time()
    try:
        mod = importlib.import_module(modname)
    except Exception:
        traceback.print_exc()
        print('HARNESS-ERROR: cannot import %s' % modname)
        return 2

    if a.replay:
        try:
            if hasattr(mod, 'setup'):
                mod.setup('quick')
            ok, ctx = replay_one(mod, a.replay)
        except Exception:
            traceback.print_exc()
            return 2
        if ok:
            print('replay %s: property holds' % a.replay)
            return 0
        f = ctx.failures[-1]
        print('replay %s: %s: %s' % (a.replay, f['clause'], f['detail']))
        print('VIOLATION property=%s replay=%s' % (pid, a.replay))
        return 1

    try:
        if hasattr(mod, 'setup'):
            mod.setup(a.tier)
    except Exception:
        traceback.print_exc()
        print('HARNESS-ERROR: setup failed')
        return 2

    agg = {'evals': 0, 'discards': 0, 'excluded_known': 0, 'nontrivial': set(),
           'labels': collections.Counter(), 'samples': [], 'failures': [],
           'extra': {}, 'shards': 0, 'replayed': 0}
    harness_errors = []

    # 0. known findings: re-confirm each open one from its witness
    known_lines = []
    for f in load_known()['findings']:
        if f['property'] != pid or f.get('status') != 'open':
            continue
        w = os.path.join(VERIF, f['witness'])
        try:
            ok, ctx = _replay_known(mod, w)
        except Exception:
            harness_errors.append('known witness %s: %s' % (w, traceback.format_exc()))
            continue
        if not ok:
            known_lines.append('KNOWN-FINDING: property=%s %s' % (pid, f['what']))

    # 1. replay tier (committed regression corpus)
    rdir = os.path.join(VERIF, 'replay', pid)
    if os.path.isdir(rdir):
        for fn in sorted(os.listdir(rdir)):
            if not fn.endswith('.json'):
                continue
            try:
                ok, ctx = replay_one(mod, os.path.join(rdir, fn))
            except Exception:
                harness_errors.append('replay %s: %s' % (fn, traceback.format_exc()))
                continue
            agg['replayed'] += 1
            agg['evals'] += ctx.evals
            agg['nontrivial'] |= ctx.nontrivial
            agg['labels'].update(ctx.labels)
            for fl in ctx.failures:
                fl['origin'] = 'replay/%s' % fn
                agg['failures'].append(fl)

    # 2. generated search
    specs = mod.plan(a.tier)
    scale = float(os.environ.get('VERIF_SCALE', '1') or 1)
    if scale != 1:
        # development aid: shrink/grow the generated-case budget of every shard ('n' of the shard spec); the
        # registered commands never set it
        specs = [dict(sp, n=max(1, int(sp['n'] * scale))) if isinstance(sp.get('n'), int) else sp for sp in specs]
    if a.shards:
        specs = specs[:a.shards]
    jobs = [(modname, a.tier, seed, i, spec) for i, spec in enumerate(specs)]
    if jobs:
        nproc = min(NPROC, len(jobs))
        if nproc == 1 or os.environ.get('VERIF_INPROC'):
            results = [_worker(j) for j in jobs]
        else:
            mpctx = multiprocessing.get_context(os.environ.get('VERIF_MP', 'spawn'))
            with mpctx.Pool(nproc, maxtasksperchild=1) as pool:
                results = pool.map(_worker, jobs, chunksize=1)
    else:
        results = []
    for r in results:
        if 'harness_error' in r:
            harness_errors.append('shard %s: %s' % (r['shard'], r['harness_error']))
            continue
        agg['shards'] += 1
        agg['evals'] += r['evals']
        agg['discards'] += r['discards']
        agg['excluded_known'] += r['excluded_known']
        agg['nontrivial'] |= set(r['nontrivial'])
        agg['labels'].update(r['labels'])
        for s in r['samples']:
            if len(agg['samples']) < 6:
                agg['samples'].append(s)
        for fl in r['failures']:
            fl['origin'] = 'shard %d seed %d' % (r['shard'], r['seed'])
            agg['failures'].append(fl)
        for k, v in r['extra'].items():
            if isinstance(v, (int, float)) and not isinstance(v, bool):
                agg['extra'][k] = agg['extra'].get(k, 0) + v
            elif isinstance(v, bool):
                agg['extra'][k] = agg['extra'].get(k, True) and v
            elif isinstance(v, list):
                agg['extra'].setdefault(k, [])
                agg['extra'][k] = (agg['extra'][k] + v)[:16]
            elif isinstance(v, dict):
                d = agg['extra'].setdefault(k, {})
                for kk, vv in v.items():
                    if isinstance(vv, (int, float)):
                        d[kk] = d.get(kk, 0) + vv
                    else:
                        d[kk] = vv
            else:
                agg['extra'][k] = v

    # 3. bucket failures by root-cause key (oracle clause)
    buckets = collections.OrderedDict()
    for fl in agg['failures']:
        buckets.setdefault(fl['clause'], []).append(fl)
    vdir = os.path.join(OUT, 'violations', pid)
    vlines = []
    for clause, fls in buckets.items():
        fls.sort(key=lambda f: len(json.dumps(f['case'], default=repr)))
        best = fls[0]
        os.makedirs(vdir, exist_ok=True)
        name = hashlib.sha1(clause.encode()).hexdigest()[:10] + '.json'
        path = os.path.join(vdir, name)
        with open(path, 'w') as f:
            json.dump({'property': pid, 'clause': clause, 'detail': best['detail'],
                       'origin': best.get('origin'), 'seed': seed, 'tier': a.tier,
                       'occurrences': len(fls), 'case': best['case']}, f, indent=1, default=repr)
        print('violation bucket %s (%d shards): %s' % (clause, len(fls), str(best['detail'])[:2000]))
        vlines.append('VIOLATION property=%s replay=%s' % (pid, path))

    wall = time.time() - t0
    health = []
    if not harness_errors and not vlines and hasattr(mod, 'health'):
        health = mod.health(agg, a.tier) or []
    try:
        write_evidence(mod, a.tier, seed, agg, wall, len(vlines))
    except Exception:
        harness_errors.append('evidence: ' + traceback.format_exc())

    for l in known_lines:
        print(l)
    print('%s tier=%s seed=%d evaluations=%d distinct_nontrivial=%d discarded=%d excluded_known=%d wall=%.1fs'
          % (pid, a.tier, seed, agg['evals'], len(agg['nontrivial']), agg['discards'],
             agg['excluded_known'], wall))
    if vlines:
        for l in vlines:
            print(l)
        return 1
    if harness_errors:
        for h in harness_errors:
            print('HARNESS-ERROR: %s' % h)
        return 2
    if health:
        for h in health:
            print('HARNESS-ERROR: health gate: %s' % h)
        return 2
    return 0


def _replay_known(mod, path):
    """Re-run a known finding's witness with exclusion switched off."""
    data = json.load(open(path))
    ctx = Ctx(mod, 'quick', 0, 0, {'known': path})
    ctx.no_exclusion = True
    try:
        try:
            mod.check_case(data['case'], ctx)
            return True, ctx
        except Violation:
            return False, ctx
    finally:
        shutil.rmtree(ctx.scratch, ignore_errors=True)
