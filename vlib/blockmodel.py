"""GTK-Doc comment block model, layouts, renderer and parser observation helpers
shared by checks C10 (well-formed blocks parse exactly) and C11 (robustness and
diagnostic positions).

The grammar implemented by `render` is the one documented in the module
docstring of giscanner/annotationparser.py and docs/website/annotations/
giannotations.rst; the fixture triples under tests/scanner/annotationparser
calibrate the renderer (see `load_fixtures`).
"""
import os
import re
import sys
import xml.etree.ElementTree as etree

from hypothesis import strategies as st

from vlib.runner import REPO, HarnessError

sys.path.insert(0, REPO)

import giscanner.annotationparser as AP  # noqa: E402
import giscanner.message as MSG  # noqa: E402


# --------------------------------------------------------------------------
# observing the parser
# --------------------------------------------------------------------------
class Sink(object):
    def __init__(self):
        self.chunks = []

    def write(self, s):
        self.chunks.append(s)


class _NS(object):
    def __init__(self, name):
        self.name = name


class CapLogger(MSG.MessageLogger):
    """A MessageLogger that records every log() call before delegating to the
    code under test's implementation (so counting/suppression stay observable)."""

    def __init__(self, namespace=None, enable=True, strict=False):
        MSG.MessageLogger.__init__(self, namespace=_NS(namespace) if namespace else None, output=Sink())
        self.enable_warnings(enable)
        self.enable_strict(strict)
        self.records = []

    def log(self, log_type, text, positions=None, prefix=None, marker_pos=None, marker_line=None):
        pos = positions
        if isinstance(pos, MSG.Position):
            pos = [pos]
        elif pos is None:
            pos = []
        else:
            pos = list(pos)
        self.records.append({
            'type': log_type, 'text': text,
            'pos': [[p.filename, p.line, p.column] for p in pos],
            'marker_pos': marker_pos, 'marker_line': marker_line})
        return MSG.MessageLogger.log(self, log_type, text, positions, prefix, marker_pos, marker_line)

    @property
    def output(self):
        return self._output.chunks


def install(logger):
    MSG.MessageLogger._instance = logger
    return logger


def fresh_logger(**kw):
    return install(CapLogger(**kw))


def anns_tree(anns):
    out = []
    for name, opts in anns.items():
        if not opts:
            o = None
        elif isinstance(opts, list):
            o = ['L', list(opts)]
        else:
            o = ['D', [[k, (v if v else None)] for k, v in opts.items()]]
        out.append([name, o])
    return out


def tree_of(block):
    """JSON-able, order-preserving picture of a GtkDocCommentBlock."""
    if block is None:
        return None
    return {
        'name': block.name,
        'anns': anns_tree(block.annotations),
        'params': [[n, anns_tree(p.annotations), p.description or None] for n, p in block.params.items()],
        'desc': block.description or None,
        'tags': [[n, anns_tree(t.annotations), t.value or None, t.description or None]
                 for n, t in block.tags.items()],
    }


def norm_desc(s):
    """The whitespace normalisation under which descriptions are compared:
    trailing whitespace of every line, leading/trailing blank lines and the
    indentation of the first text line are insignificant (the parser strips
    the first line but keeps it when the text starts on the line after the
    colon); inner indentation and line breaks are significant."""
    if not s:
        return None
    lines = [l.rstrip() for l in s.split('\n')]
    while lines and not lines[0]:
        lines.pop(0)
    while lines and not lines[-1]:
        lines.pop()
    if not lines:
        return None
    lines[0] = lines[0].lstrip()
    return '\n'.join(lines)


def norm_tree(t):
    if t is None:
        return None
    return {
        'name': t['name'], 'anns': t['anns'],
        'params': [[n, a, norm_desc(d)] for n, a, d in t['params']],
        'desc': norm_desc(t['desc']),
        'tags': [[n, a, v, norm_desc(d)] for n, a, v, d in t['tags']],
    }


def tree_diff(a, b):
    """First differing field of two trees (None when equal)."""
    if a == b:
        return None
    if a is None or b is None:
        return 'block: %r vs %r' % (a if a is None else a['name'], b if b is None else b['name'])
    for k in ('name', 'anns'):
        if a[k] != b[k]:
            return 'identifier %s: %r vs %r' % (k, a[k], b[k])
    pa, pb = [p[0] for p in a['params']], [p[0] for p in b['params']]
    if pa != pb:
        return 'parameter names/order: %r vs %r' % (pa, pb)
    for x, y in zip(a['params'], b['params']):
        if x[1] != y[1]:
            return 'parameter %s annotations: %r vs %r' % (x[0], x[1], y[1])
        if x[2] != y[2]:
            return 'parameter %s description: %r vs %r' % (x[0], x[2], y[2])
    if a['desc'] != b['desc']:
        return 'description: %r vs %r' % (a['desc'], b['desc'])
    ta, tb = [t[0] for t in a['tags']], [t[0] for t in b['tags']]
    if ta != tb:
        return 'tag names/order: %r vs %r' % (ta, tb)
    for x, y in zip(a['tags'], b['tags']):
        for i, what in ((1, 'annotations'), (2, 'value'), (3, 'description')):
            if x[i] != y[i]:
                return 'tag %s %s: %r vs %r' % (x[0], what, x[i], y[i])
    return 'trees differ'


# --------------------------------------------------------------------------
# the upstream fixture triples (tests/scanner/annotationparser/**/*.xml)
# --------------------------------------------------------------------------
XML_NS = 'http://schemas.gnome.org/gobject-introspection/2013/test'
FIXDIR = os.path.join(REPO, 'tests', 'scanner', 'annotationparser')


def _ns(x):
    return x.replace('{}', '{%s}' % (XML_NS, ))


def _ann_lines(anns, ind, get):
    out = []
    if anns is None:
        return out
    out.append('%s<annotations>' % ind)
    for name, options in anns:
        out.append('%s  <annotation>' % ind)
        out.append('%s    <name>%s</name>' % (ind, name))
        if options is not None:
            out.append('%s    <options>' % ind)
            for oname, oval in options:
                out.append('%s      <option>' % ind)
                if oname is not None:
                    out.append('%s        <name>%s</name>' % (ind, oname))
                if oval is not None:
                    out.append('%s        <value>%s</value>' % (ind, oval))
                out.append('%s      </option>' % ind)
            out.append('%s    </options>' % ind)
        out.append('%s  </annotation>' % ind)
    out.append('%s</annotations>' % ind)
    return out


def _parsed_anns(anns):
    """annotations of a parsed part in the neutral form used by _ann_lines
    (transcribes TestCommentBlock.parsed2tree)."""
    if not anns:
        return None
    res = []
    for name, options in anns.items():
        if options:
            if isinstance(options, list):
                o = [(x, None) for x in options]
            else:
                o = [(k, v if v else None) for k, v in options.items()]
        else:
            o = None
        res.append((name, o))
    return res


def parsed2tree(b):
    """Transcription of tests/scanner/annotationparser/test_parser.py:parsed2tree."""
    if b is None:
        return ''
    L = ['<docblock>', '  <identifier>', '    <name>%s</name>' % (b.name, )]
    L += _ann_lines(_parsed_anns(b.annotations), '    ', None)
    L.append('  </identifier>')
    if b.params:
        L.append('  <parameters>')
        for pn in b.params:
            p = b.params.get(pn)
            L.append('    <parameter>')
            L.append('      <name>%s</name>' % (pn, ))
            L += _ann_lines(_parsed_anns(p.annotations), '      ', None)
            if p.description:
                L.append('      <description>%s</description>' % (p.description, ))
            L.append('    </parameter>')
        L.append('  </parameters>')
    if b.description:
        L.append('  <description>%s</description>' % (b.description, ))
    if b.tags:
        L.append('  <tags>')
        for tn in b.tags:
            t = b.tags.get(tn)
            L.append('    <tag>')
            L.append('      <name>%s</name>' % (tn, ))
            L += _ann_lines(_parsed_anns(t.annotations), '      ', None)
            if t.value:
                L.append('      <value>%s</value>' % (t.value, ))
            if t.description:
                L.append('      <description>%s</description>' % (t.description, ))
            L.append('    </tag>')
        L.append('  </tags>')
    L.append('</docblock>')
    return '\n'.join(L)


def _expected_anns(el):
    if el is None:
        return None
    res = []
    for a in el.findall(_ns('{}annotation')):
        o = None
        if a.find(_ns('{}options')) is not None:
            o = []
            for opt in a.findall(_ns('{}options/{}option')):
                n = opt.find(_ns('{}name'))
                v = opt.find(_ns('{}value'))
                # test_parser.py formats element text with %s: a missing text is 'None'
                o.append((None if n is None else '%s' % (n.text, ), None if v is None else '%s' % (v.text, )))
        res.append(('%s' % (a.find(_ns('{}name')).text, ), o))
    return res


def expected2tree(d):
    """Transcription of test_parser.py:expected2tree."""
    if d is None:
        return ''
    L = ['<docblock>']
    if d.find(_ns('{}identifier')) is not None:
        L.append('  <identifier>')
        L.append('    <name>%s</name>' % (d.find(_ns('{}identifier/{}name')).text, ))
        L += _ann_lines(_expected_anns(d.find(_ns('{}identifier/{}annotations'))), '    ', None)
        L.append('  </identifier>')
    ps = d.find(_ns('{}parameters'))
    if ps is not None:
        L.append('  <parameters>')
        for p in ps.findall(_ns('{}parameter')):
            L.append('    <parameter>')
            L.append('      <name>%s</name>' % (p.find(_ns('{}name')).text, ))
            L += _ann_lines(_expected_anns(p.find(_ns('{}annotations'))), '      ', None)
            if p.find(_ns('{}description')) is not None:
                L.append('      <description>%s</description>' % (p.find(_ns('{}description')).text, ))
            L.append('    </parameter>')
        L.append('  </parameters>')
    de = d.find(_ns('{}description'))
    if de is not None:
        L.append('  <description>%s</description>' % (de.text, ))
    ts = d.find(_ns('{}tags'))
    if ts is not None:
        L.append('  <tags>')
        for t in ts.findall(_ns('{}tag')):
            L.append('    <tag>')
            L.append('      <name>%s</name>' % (t.find(_ns('{}name')).text, ))
            L += _ann_lines(_expected_anns(t.find(_ns('{}annotations'))), '      ', None)
            if t.find(_ns('{}value')) is not None:
                L.append('      <value>%s</value>' % (t.find(_ns('{}value')).text, ))
            if t.find(_ns('{}description')) is not None:
                L.append('      <description>%s</description>' % (t.find(_ns('{}description')).text, ))
            L.append('    </tag>')
        L.append('  </tags>')
    L.append('</docblock>')
    return '\n'.join(L)


_FIXTURES = None


def load_fixtures():
    """All <test> triples, in a stable order: list of dicts with keys
    file, idx, input, tree (expected tree text), messages, output, indent."""
    global _FIXTURES
    if _FIXTURES is not None:
        return _FIXTURES
    res = []
    files = []
    for dirpath, dirnames, filenames in os.walk(FIXDIR):
        for fn in filenames:
            if fn.endswith('.xml'):
                files.append(os.path.relpath(os.path.join(dirpath, fn), FIXDIR))
    for rel in sorted(files):
        root = etree.parse(os.path.join(FIXDIR, rel)).getroot()
        fix = root.findall(_ns('{}test/{}input'))
        fix += root.findall(_ns('.//{}description'))
        fix += root.findall(_ns('{}test/{}output'))
        for el in fix:
            if el.text:
                el.text = el.text.replace('{{?', '<!').replace('}}', '>')
        for i, t in enumerate(root.findall(_ns('{}test'))):
            out = t.find(_ns('{}output'))
            indent = True
            if out is None:
                outtext = ''
            else:
                if 'indent' in out.attrib:
                    indent = out.attrib['indent'].lower() in ('true', '1')
                outtext = out.text + '\n'
            res.append({
                'file': rel, 'idx': i, 'input': t.find(_ns('{}input')).text,
                'tree': expected2tree(t.find(_ns('{}parser/{}docblock'))),
                'messages': [w.text.strip() for w in t.findall(_ns('{}parser/{}messages/{}message'))],
                'output': outtext, 'indent': indent})
    if len(res) < 300:
        raise HarnessError('only %d annotationparser fixtures found under %s' % (len(res), FIXDIR))
    _FIXTURES = res
    return res


def run_fixture(fx):
    """Replays one triple the way test_parser.py does. Returns None or a
    (clause, detail) pair."""
    logger = fresh_logger(namespace='Test', enable=True)
    block = AP.GtkDocCommentBlockParser().parse_comment_block(fx['input'], 'test.c', 1)
    got = parsed2tree(block)
    if got != fx['tree']:
        return 'fixture-tree', '%s#%d: parsed tree differs from <parser>:\n--- expected\n%s\n--- parsed\n%s' % (
            fx['file'], fx['idx'], fx['tree'], got)
    emitted = [w[w.find(':') + 1:].strip() for w in logger.output]
    if emitted != fx['messages']:
        return 'fixture-messages', '%s#%d: messages %r, expected %r' % (fx['file'], fx['idx'], emitted, fx['messages'])
    ser = AP.GtkDocCommentBlockWriter(indent=fx['indent']).write(block)
    if ser != fx['output']:
        return 'fixture-writer', '%s#%d: serialized %r, expected %r' % (fx['file'], fx['idx'], ser, fx['output'])
    return None


# --------------------------------------------------------------------------
# block models
# --------------------------------------------------------------------------
# Annotation vocabulary: a literal transcription of the tables in
# docs/website/annotations/giannotations.rst and of GI_ANNS (deliberately not
# read from the code under test at run time).
DICT_ANNS = ('array', 'attributes')
LIST_ANNS = ('allow-none', 'nullable', 'optional', 'not', 'async-func', 'closure', 'constructor',
             'default-value', 'destroy', 'element-type', 'emitter', 'finish-func', 'foreign',
             'get-property', 'get-value-func', 'getter', 'in', 'inout', 'method', 'out', 'ref-func',
             'rename-to', 'scope', 'set-property', 'set-value-func', 'setter', 'skip', 'sync-func',
             'transfer', 'type', 'unref-func', 'virtual', 'value')
# copy-func / free-func are documented and accepted on identifiers but missing
# from GI_ANNS: the parser treats their options as one opaque string. C10 only
# ever gives them their single documented option (see report).
ONE_OPT_ANNS = ('copy-func', 'free-func')
DEPRECATED_ANNS = ('attribute', 'in-out')
KNOWN_ANNS = DICT_ANNS + LIST_ANNS + ONE_OPT_ANNS
TAG_WORDS = ('deprecated', 'returns', 'since', 'stability', 'description', 'return value', 'return',
             'returns value', 'attributes', 'get value func', 'ref func', 'rename to',
             'set value func', 'transfer', 'type', 'unref func', 'value', 'virtual')
DEPRECATED_ANN_TAG_WORDS = ('attributes', 'get value func', 'ref func', 'rename to', 'set value func',
                            'transfer', 'type', 'unref func', 'value', 'virtual')

_TAGLIKE = re.compile(r'^\s*(%s)\s*:' % '|'.join(w.replace(' ', r'\s+') for w in TAG_WORDS), re.I)
_VERSIONLIKE = re.compile(r'^[0-9.]')
_STABLIKE = re.compile(r'^(stable|unstable|private|internal)', re.I)

TOKENS = ['utf8', 'int', 'gint8', 'full', 'none', 'container', 'GLib.List(utf8)', 'Gtk.Widget',
          'GLib.HashTable(utf8,gint8)', 'foo_bar', 'n_items', 'user_data', '1', '0', '42', '-1', 'gchar*',
          'a.b-c', 'x', 'notify', 'call', 'caller-allocates', 'nullable', 'A', 'Z9', 'é', 'filename',
          'GLib.HashTable(utf8,GLib.List(int))', '%NULL', '#Foo', 'a,b', 'a:b', "'q'", '"q"', '*', '[x]',
          'async', 'forever', 'optional', 'floating', 'callee-allocates', 'guint8', 'my.key', 'length']
VALUES = ['val', 'a=b', '1', 'n_items', 'x=y=z', 'http://e.org/?a=1', 'v-1', 'é', '0', 'true']
UNKNOWN_NAMES = ['frobnicate', 'default', 'error-domains', 'null-ok', 'x', 'my-ann', 'foo2', 'returns',
                 'since', 'owner', 'a-b-c', 'z9', 'nul-terminated', 'skipp', 'arrays']

# Well-formed annotation instances per part, from the "Applies to" column and
# the option forms of giannotations.rst ('T' = a drawn token, 'K' = a drawn key).
_T = '\0T'
_WF_IDENT = [
    ['skip', []], ['rename-to', [_T]], ['transfer', ['none']], ['transfer', ['full']],
    ['transfer', ['container']], ['transfer', ['floating']], ['constructor', []], ['method', []],
    ['virtual', [_T]], ['set-property', [_T]], ['get-property', [_T]], ['setter', [_T]], ['getter', [_T]],
    ['emitter', [_T]], ['default-value', [_T]], ['ref-func', [_T]], ['unref-func', [_T]],
    ['get-value-func', [_T]], ['set-value-func', [_T]], ['copy-func', [_T]], ['free-func', [_T]],
    ['type', [_T]], ['foreign', []], ['sync-func', [_T]], ['async-func', [_T]], ['finish-func', [_T]],
    ['value', [_T]], ['attributes', [[_T, None]]], ['attributes', [[_T, _T]]],
    ['attributes', [[_T, _T], [_T, None], [_T, _T]]],
]
_WF_RET = [
    ['skip', []], ['transfer', ['none']], ['transfer', ['full']], ['transfer', ['container']],
    ['transfer', ['floating']], ['nullable', []], ['allow-none', []], ['not', ['nullable']], ['type', [_T]],
    ['array', []], ['array', [['fixed-size', '4']]], ['array', [['length', _T]]],
    ['array', [['zero-terminated', '1']]], ['array', [['zero-terminated', None]]],
    ['array', [['zero-terminated', '0'], ['length', _T]]],
    ['array', [['length', _T], ['fixed-size', '12'], ['zero-terminated', '1']]],
    ['element-type', [_T]], ['element-type', [_T, _T]], ['attributes', [[_T, _T]]],
    ['attributes', [[_T, None], [_T, _T]]],
]
_WF_PARAM = _WF_RET + [
    ['optional', []], ['not', ['optional']], ['in', []], ['out', []], ['out', ['caller-allocates']],
    ['out', ['callee-allocates']], ['inout', []], ['closure', []], ['closure', [_T]], ['destroy', [_T]],
    ['scope', ['call']], ['scope', ['async']], ['scope', ['notified']], ['scope', ['forever']],
]
_WF = {'ident': _WF_IDENT, 'param': _WF_PARAM, 'ret': _WF_RET}
_CONFLICTS = {('not', 'nullable'): ('nullable', 'allow-none'), ('not', 'optional'): ('optional', )}

WORDS = ['a', 'the', '#GtkWidget', '%NULL', 'foo_bar()', 'value', '@x', 'Returns', 'since', '(see', 'above)',
         'é', '中文', 'x:y', '<b>', '*', '**bold**', 'e.g.', '1.0', 'stable', 'Deprecated', '-', '|[', ']|',
         'text:', 'f(x)', '#Foo::bar', '#Foo:baz', 'int', '(skip)', 'a,', 'or', '&amp;', '"q"', "it's",
         '<!--', '3', '.5', 'Since', 'type', 'free()', '\\n', '%d', 'αβγ', 'A.', '@', ':', '(', ')', '=',
         # characters that str.splitlines() treats as line ends but C and GTK-Doc do not (inside a word, so that
         # stripping at line ends does not touch them)
         'page\x0cbreak', 'v\x0bt', 'fs\x1cgs\x1drs\x1eus', 'nel\x85x', 'ls\u2028ps\u2029x']
_ALPHA = list('abcdefghijklmnopqrstuvwxyzABCDEFGHIJKLMNOPQRSTUVWXYZ0123456789_-.,;:!?()[]{}<>@#%&*+=/\\|~^\'"` ') \
    + ['é', 'ß', 'Ж', '中', '€', '​', 'ñ', '\U0001F600']


def _safe_line(s, first=False, ver=False, stab=False):
    """Make a description line satisfy the generator preconditions: no line
    break, no comment tokens, does not look like a parameter or tag line; a
    first line additionally does not begin with a parenthesis or a delimiter."""
    s = s.replace('*/', '* /').replace('/*', '/ *').strip()
    if not s:
        s = 'x'
    if s[0] == '@' or _TAGLIKE.match(s):
        s = 'see ' + s
    if first:
        if s[0] in '():':
            s = 'so ' + s
        if ver and _VERSIONLIKE.match(s):
            s = 'v ' + s
        if stab and _STABLIKE.match(s):
            s = 'is ' + s
    return s



class DNA(object):
    """Deterministic reader over the bytes drawn by Hypothesis (one cheap draw
    per case; structured strategies cost 10-20 ms per block on this VM). Every
    decoder below maps byte 0 to the simplest choice so that Hypothesis'
    byte-wise shrinking simplifies the block."""

    def __init__(self, data):
        self.b = data if len(data) else b'\0'
        self.i = 0

    def u8(self):
        v = self.b[self.i % len(self.b)]
        self.i += 1
        return v

    def below(self, n):
        return self.u8() % n

    def pick(self, seq):
        return seq[self.u8() % len(seq)]

    def chance(self, num, den=8):
        """true with probability num/den; byte 0 gives False"""
        return (self.u8() % den) >= den - num


DNA_SIZE = 640
dna = st.binary(min_size=DNA_SIZE, max_size=DNA_SIZE)

_CNAMES = ['foo', 'Gtk', 'GtkWidget', 'regress_test_obj', 'A', 'x9', '_priv', 'Fooé', 'MAX_VALUE', 'G']
_DNAMES = ['bar', 'some-prop', 'notify', 'test_signal', 'a-b-c', 'B', 'x-1', 'é1', 'user_data', 'n']
_name_alpha = 'abcdefghijklmnopqrstuvwxyzABCDEFGHIJKLMNOPQRSTUVWXYZ0123456789_'
_INDENTS = [0, 0, 0, 1, 2, 4, 7, 0]


def _rand_name(d, dash):
    alpha = _name_alpha + ('-' if dash else '')
    s = ''.join(alpha[d.below(len(alpha))] for _ in range(1 + d.below(10)))
    return s.rstrip('-') or 'p'


def _cname(d):
    return _rand_name(d, False) if d.chance(3) else d.pick(_CNAMES)


def _dname(d):
    return _rand_name(d, True) if d.chance(3) else d.pick(_DNAMES)


def _line_text(d):
    k = d.below(4)
    if k == 3:
        return ''.join(_ALPHA[d.below(len(_ALPHA))] for _ in range(1 + d.below(24)))
    return ' '.join(d.pick(WORDS) for _ in range(1 + d.below(3 if k == 2 else 7)))


def _desc_lines(d, blanks, maxn=7, **kw):
    """0..maxn description lines; None is an empty line (paragraph break)"""
    n = [0, 1, 1, 2, 3, 5, maxn, 1][d.below(8)]
    out = []
    for _ in range(n):
        if blanks and out and out[-1] is not None and d.chance(2):
            out.append(None)
            continue
        out.append([d.pick(_INDENTS), _safe_line(_line_text(d), first=not out, **kw)])
    while out and out[-1] is None:
        out.pop()
    return out


def _picks(d):
    n = [0, 0, 1, 1, 2, 2, 3, 5][d.below(8)]
    return [[d.u8(), d.below(10), d.u8(), d.u8(), d.u8()] for _ in range(n)]


FORMS = ('symbol', 'property', 'signal', 'field', 'section', 'action')


def ident_name(idm):
    f, a, b = idm['form'], idm['a'], idm['b']
    return {'symbol': a, 'property': '%s:%s' % (a, b), 'signal': '%s::%s' % (a, b),
            'field': '%s.%s' % (a, b), 'section': 'SECTION:%s' % a,
            'action': 'ACTION:%s:%s' % (a, b)}[f]


def ident_text(idm):
    f, a, b = idm['form'], idm['a'], idm['b']
    return {'symbol': a, 'property': '%s:%s' % (a, b), 'signal': '%s::%s' % (a, b),
            'field': '%s.%s' % (a, b), 'section': 'SECTION:%s' % a,
            'action': '%s|%s' % (a, b)}[f]


def _build_anns(part, picks, mode):
    """picks: list of [selector, kind, t1, t2, t3] integers."""
    out = []
    seen = set()
    for sel, kind, t1, t2, t3 in picks:
        tk = [TOKENS[t % len(TOKENS)] for t in (t1, t2, t3)]
        wf = mode == 'wf' or kind < 5
        if wf:
            tab = _WF[part]
            name, opts = tab[sel % len(tab)]
            if name in DICT_ANNS:
                o, keys = [], set()
                for j, (k, v) in enumerate(opts):
                    if k == _T:
                        k = tk[j % 3].replace('=', '-')
                    if k in keys:
                        continue
                    keys.add(k)
                    if v == _T:
                        v = VALUES[(t1 + j) % len(VALUES)]
                    o.append([k, v])
                opts = o
            else:
                opts = [tk[j % 3].replace('=', '-') if x == _T else x for j, x in enumerate(opts)]
        elif kind < 8:
            # any known name, any option shape of its kind, on any part
            name = KNOWN_ANNS[sel % len(KNOWN_ANNS)]
            n = t3 % 4
            if name in DICT_ANNS:
                opts, keys = [], set()
                for j in range(n):
                    k = tk[j % 3].replace('=', '-')
                    if k in keys:
                        continue
                    keys.add(k)
                    opts.append([k, VALUES[(t2 + j) % len(VALUES)] if (t1 + j) % 3 else None])
            elif name in ONE_OPT_ANNS:
                opts = [tk[0].replace('=', '-')]
            else:
                opts = [x.replace('=', '-') for x in tk[:n]]
        else:
            name = UNKNOWN_NAMES[sel % len(UNKNOWN_NAMES)]
            n = t3 % 4
            opts = [tk[j] if (t2 + j) % 4 else VALUES[(t1 + j) % len(VALUES)] for j in range(n)]
        if name in seen:
            continue
        if wf:
            key = (name, opts[0]) if name == 'not' and opts else None
            bad = False
            for (cn, co), others in _CONFLICTS.items():
                if key == (cn, co) and seen & set(others):
                    bad = True
                if name in others and any(a[0] == cn and a[1] == [co] for a in out):
                    bad = True
            if bad:
                continue
        seen.add(name)
        out.append([name, opts])
    return out


def gen_model(d, mode='wf'):
    """A block model (JSON-able) decoded from DNA. mode 'wf': every annotation
    is a documented, valid use (no diagnostic may be produced); 'broad':
    additionally known annotations in undocumented places/arities and unknown
    annotation names (warnings allowed, errors not)."""
    form = d.pick(('symbol', 'symbol', 'property', 'signal', 'field', 'section', 'action', 'symbol'))
    a = _cname(d)
    b = None
    if form == 'symbol':
        if d.chance(1):
            a = _dname(d)
        if a.startswith('SECTION'):
            a = 's' + a
    elif form == 'section':
        a = _dname(d)
        if len(a) < 2:
            a += 'x'
    elif form == 'action':
        b = '%s.%s' % (_dname(d), _dname(d))
    else:
        b = _dname(d)
    m = {'id': {'form': form, 'a': a, 'b': b}, 'mode': mode}
    m['anns'] = [] if form in ('section', 'action') else _build_anns('ident', _picks(d), mode)
    nparams = [0, 1, 0, 1, 2, 3, 4, 6][d.below(8)]
    params, names = [], set()
    for i in range(nparams):
        n = '...' if d.chance(1) else _dname(d)
        if n.lower() == 'returns' or n == 'Varargs' or n in names:
            n = 'p%d' % i
            while n in names:       # a drawn name may itself be 'p<i>': duplicates are outside the documented grammar
                n += '_'
        names.add(n)
        params.append({'name': n, 'anns': _build_anns('param', _picks(d), mode),
                       'desc': _desc_lines(d, False, 4)})
    m['params'] = params
    m['desc'] = _desc_lines(d, True, 12) if d.chance(6) else []
    tags = []
    ntags = [0, 1, 1, 2, 0, 3, 4, 1][d.below(8)]
    for _ in range(ntags):
        t = d.pick(('returns', 'since', 'deprecated', 'stability'))
        if any(x['name'] == t for x in tags):
            continue
        tag = {'name': t, 'anns': [], 'value': None}
        if t == 'returns':
            tag['anns'] = _build_anns('ret', _picks(d), mode)
            tag['desc'] = _desc_lines(d, True)
        elif t == 'stability':
            if d.chance(6):
                tag['value'] = d.pick(('Stable', 'Unstable', 'Private', 'Internal'))
            tag['desc'] = _desc_lines(d, True, stab=tag['value'] is None)
        else:
            if d.chance(6):
                tag['value'] = d.pick(('2.0', '0.6', '3', '1.2.3', '2.30.', '10', '.5'))
            tag['desc'] = _desc_lines(d, True, ver=tag['value'] is None)
        tags.append(tag)
    m['tags'] = tags
    return m


def _exp_anns(anns):
    out = []
    for name, opts in anns:
        if not opts:
            o = None
        elif name in DICT_ANNS:
            o = ['D', [[k, v] for k, v in opts]]
        elif name in LIST_ANNS or name in ONE_OPT_ANNS:
            o = ['L', list(opts)]
        else:
            o = ['L', [' '.join(opts)]]
        out.append([name, o])
    return out


def _exp_desc(lines):
    return norm_desc('\n'.join('' if l is None else ' ' * l[0] + l[1] for l in lines))


def expected_tree(m):
    """What the documentation says the parser recovers from a rendering of m
    (already in the normalised form of norm_tree)."""
    return {
        'name': ident_name(m['id']),
        'anns': _exp_anns(m['anns']),
        'params': [[p['name'], _exp_anns(p['anns']), _exp_desc(p['desc'])] for p in m['params']],
        'desc': _exp_desc(m['desc']),
        'tags': [[t['name'], _exp_anns(t['anns']), t['value'], _exp_desc(t['desc'])] for t in m['tags']],
    }


# --------------------------------------------------------------------------
# layouts and rendering
# --------------------------------------------------------------------------
NK = 14


def gen_layout(d):
    """A layout: 'k' fixed knobs, 'r' a stream consumed cyclically for the
    per-line / per-annotation decisions. All zeros is the canonical layout."""
    return {'k': [d.below(8) for _ in range(NK)], 'r': [d.below(24) for _ in range(1 + d.below(12))]}


CANONICAL = {'k': [0] * NK, 'r': [0]}
_PRE = [' ', '', '  ', '\t', '    ', ' \t', '   ', '\t\t']
_NL = ['\n', '\r\n', '\n', '\r\n', '\r', 'mix', '\n', '\r\n']
_TRAIL = ['', '', '', ' ', '', '  ', '\t', '']


def ann_text(a):
    name, opts = a
    if not opts:
        return '(%s)' % name
    if name in DICT_ANNS:
        return '(%s %s)' % (name, ' '.join(k if v is None else '%s=%s' % (k, v) for k, v in opts))
    return '(%s %s)' % (name, ' '.join(opts))


class _Stream(object):
    def __init__(self, r):
        self.r, self.i = r, 0

    def __call__(self):
        v = self.r[self.i % len(self.r)]
        self.i += 1
        return v


def render(m, lay):
    """Render model m under layout lay. Returns (text, info): info['lines'] is
    a list parallel to the physical lines of text with (kind, part, nb, n)
    tuples, kinds: start id idc param paramc pdesc blank desc tag tagc tdesc end;
    part is the parameter/tag index, nb/n the number of annotations of that part
    on earlier lines / on this line;
    info['multiline'] tells whether an annotation field was continued."""
    K, nxt = lay['k'], _Stream(lay['r'])
    pre = _PRE[K[0]]
    jitter = K[1] >= 6           # indentation before '*' varies from line to line
    nl = _NL[K[2]]
    nospace = K[3] == 7          # ' *text' instead of ' * text' where the text is not indented
    trail = K[4] >= 5            # trailing whitespace on lines
    id_colon = K[5] < 5          # colon after an identifier without annotations
    cont = K[6]                  # propensity to continue annotations on following lines
    empty_colon = K[7] < 4       # '@x: (skip):' vs '@x: (skip)' when there is no description
    desc_next = K[8]             # propensity to start a description on the line after the colon
    blank_tags = K[9] < 5        # empty line before the tag parts
    blank_between = K[10] >= 6   # empty lines between tags
    end = ['*/', '**/', '*/', '**/', '***/', '*/', '*/', '**/'][K[11]]
    colon_sp = K[12]             # 0..7: spacing after colons
    stab_case = K[13]

    body = []                    # (text after the star's separator, kind, part)
    multiline = [False]

    def sp():
        if colon_sp < 5:
            return ' '
        return ['', ' ', '  ', ' '][nxt() % 4]

    def gap():
        return '  ' if colon_sp == 7 and nxt() % 2 else ' '

    def emit(head, anns, desc, kind, part, is_ident=False, value=None):
        cur = head
        have = False
        ck = kind + 'c'
        curkind = kind
        nb = non = 0               # annotations on earlier lines of this part / on the current line
        for a in anns:
            r = nxt()
            if cont and r % 8 < cont:
                body.append((cur, curkind, part, nb, non))
                nb, non = nb + non, 0
                curkind = ck
                cur = ' ' * (r % 5) + ann_text(a)
                multiline[0] = True
            else:
                cur += (gap() if have else sp()) + ann_text(a)
            non += 1
            have = True
        if is_ident:
            body.append((cur, curkind, part, nb, non))
            return
        if value is not None:
            cur += sp() + value
        lines = list(desc)
        if lines:
            r = nxt()
            if anns or value is not None:
                cur += ':'
            if desc_next and r % 8 < desc_next:
                body.append((cur, curkind, part, nb, non))
                cur = None
            else:
                cur += sp() + lines[0][1]
                body.append((cur, curkind, part, nb, non))
                lines = lines[1:]
            dk = kind[0] + 'desc'
            for l in lines:
                if l is None:
                    body.append(('', dk, part, 0, 0))
                else:
                    ind = l[0]
                    if cur is None and ind == 0 and nxt() % 2:
                        ind = 2
                    cur = ''
                    body.append((' ' * ind + l[1], dk, part, 0, 0))
        else:
            if (anns or value is not None) and empty_colon:
                cur += ':'
            body.append((cur, curkind, part, nb, non))

    idt = ident_text(m['id'])
    if m['id']['form'] in ('section', 'action'):
        body.append((idt + (':' if m['id']['form'] == 'action' and id_colon else ''), 'id', None, 0, 0))
    elif m['anns']:
        emit(idt + ':', m['anns'], [], 'id', None, is_ident=True)
    else:
        body.append((idt + (':' if id_colon else ''), 'id', None, 0, 0))
    for i, p in enumerate(m['params']):
        emit('@%s:' % p['name'], p['anns'], p['desc'], 'param', i)
    if m['desc']:
        body.append(('', 'blank', None, 0, 0))
        for l in m['desc']:
            body.append(('' if l is None else ' ' * l[0] + l[1], 'desc', None, 0, 0))
    if m['tags'] and blank_tags:
        body.append(('', 'blank', None, 0, 0))
    for i, t in enumerate(m['tags']):
        if i and blank_between:
            body.append(('', 'blank', None, 0, 0))
        v = t['value']
        if v is not None and t['name'] == 'stability':
            v = [v, v, v.lower(), v.upper(), v, v, v.lower(), v][stab_case]
        emit(t['name'].capitalize() + ':', t['anns'], t['desc'], 'tag', i, value=v)

    out = []
    kinds = [('start', None, 0, 0)]
    star_pre = pre
    start_pre = pre[:-1] if pre.endswith(' ') else pre
    out.append(start_pre + '/**' + (_TRAIL[nxt() % 8] if trail else ''))
    for text, kind, part, nb, non in body:
        p = star_pre
        if jitter:
            p = _PRE[nxt() % 8]
        if text == '':
            line = p + '*' + ['', ' ', '', '  '][nxt() % 4 if trail else 0]
        else:
            c = text[0]
            if nospace and (c.isalnum() or c in '@_'):
                line = p + '*' + text
            else:
                line = p + '* ' + text
            if trail:
                line += _TRAIL[nxt() % 8]
        out.append(line)
        kinds.append((kind, part, nb, non))
    out.append((star_pre if not jitter else _PRE[nxt() % 8]) + end + (_TRAIL[nxt() % 8] if trail else ''))
    kinds.append(('end', None, 0, 0))
    if nl == 'mix':
        text = ''
        for i, l in enumerate(out[:-1]):
            text += l + ['\n', '\r\n', '\r'][nxt() % 3]
        text += out[-1]
    else:
        text = nl.join(out)
    return text, {'lines': kinds, 'multiline': multiline[0], 'nl': nl, 'pre': pre, 'src': out}
