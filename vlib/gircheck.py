"""Structural validator for GIR XML (C05 oracle), independent of giscanner.

check(gir_bytes_or_path, include_dirs) -> list of (clause, detail) problems, plus stats.
Written from the C05 property statement; see DESIGN.md section 2, C05.
"""
import os
import xml.etree.ElementTree as ET

GI = '{http://www.gtk.org/introspection/core/1.0}'
C = '{http://www.gtk.org/introspection/c/1.0}'
GLIB = '{http://www.gtk.org/introspection/glib/1.0}'

FUNDAMENTALS = set('''none gpointer gboolean gint8 guint8 gint16 guint16 gint32 guint32 gint64 guint64 gchar gshort
gushort gint guint glong gulong gsize gssize gintptr guintptr gfloat gdouble gunichar GType utf8 filename
time_t off_t dev_t gid_t pid_t socklen_t uid_t'''.split())
UNBINDABLE = set(['va_list', 'long long', 'unsigned long long', 'long double'])
CONTAINERS = {'GLib.List': 1, 'GLib.SList': 1, 'GLib.HashTable': 2, 'GLib.Array': 1, 'GLib.PtrArray': 1}
DEF_TAGS = ['alias', 'record', 'union', 'class', 'interface', 'enumeration', 'bitfield', 'callback', 'constant',
            'function', 'function-macro', 'docsection']
TYPE_DEF_TAGS = set([GI + t for t in ('alias', 'record', 'union', 'class', 'interface', 'enumeration', 'bitfield', 'callback')]
                    + [GLIB + 'boxed'])
CALLABLE_TAGS = set([GI + t for t in ('function', 'method', 'constructor', 'virtual-method', 'callback')] + [GLIB + 'signal'])


def _local(tag):
    return tag.split('}', 1)[1] if '}' in tag else tag


class Namespace(object):
    def __init__(self, root, path=None):
        self.root = root
        self.path = path
        self.ns = root.find(GI + 'namespace')
        self.name = self.ns.get('name')
        self.version = self.ns.get('version')
        self.includes = [(i.get('name'), i.get('version')) for i in root.findall(GI + 'include')]
        self.types = {}
        for el in self.ns:
            if el.tag in TYPE_DEF_TAGS:
                nm = el.get('name') or el.get(GLIB + 'name')
                if nm:
                    self.types[nm] = el


class Universe(object):
    """The namespace under test plus whatever include GIRs can be found."""

    def __init__(self, include_dirs):
        self.dirs = list(include_dirs)
        self.loaded = {}
        self.missing = set()

    def load(self, name, version):
        key = name
        if key in self.loaded:
            return self.loaded[key]
        for d in self.dirs:
            p = os.path.join(d, '%s-%s.gir' % (name, version))
            if os.path.exists(p):
                nsx = Namespace(ET.parse(p).getroot(), p)
                self.loaded[key] = nsx
                for (n, v) in nsx.includes:
                    self.load(n, v)
                return nsx
        self.missing.add('%s-%s' % (name, version))
        self.loaded[key] = None
        return None


def _is_off(el, parents):
    """introspectable="0" on the element or any ancestor."""
    while el is not None:
        if el.get('introspectable') == '0':
            return True
        el = parents.get(el)
    return False


def check(gir, include_dirs=(), strict_includes=True):
    """Returns (problems, stats). problems: list of (clause, detail)."""
    if isinstance(gir, bytes):
        root = ET.fromstring(gir)
    else:
        root = ET.parse(gir).getroot()
    me = Namespace(root)
    uni = Universe(include_dirs)
    uni.loaded[me.name] = me
    visible = set([me.name])

    def walk_includes(nsx):
        for (n, v) in nsx.includes:
            dep = uni.load(n, v)
            if n not in visible:
                visible.add(n)
                if dep is not None:
                    walk_includes(dep)
    walk_includes(me)

    parents = dict((c, p) for p in root.iter() for c in p)
    problems = []
    stats = {'introspectable_elements': 0, 'demoted_elements': 0, 'types_checked': 0, 'unverifiable_refs': 0,
             'local_type_refs': 0, 'indices_checked': 0, 'pairs_checked': 0}

    def bad(clause, detail):
        problems.append((clause, detail))

    def path_of(el):
        parts = []
        while el is not None and el is not root:
            nm = el.get('name') or el.get(GLIB + 'name')
            parts.append('%s%s' % (_local(el.tag), '[%s]' % nm if nm else ''))
            el = parents.get(el)
        return '/'.join(reversed(parts))

    def resolve(name):
        """-> ('fund', None) | ('def', element) | ('unverifiable', None) | ('missing', why)"""
        if name in FUNDAMENTALS or name in UNBINDABLE:
            return 'fund', None
        if '.' in name:
            nsn, nm = name.split('.', 1)
        else:
            nsn, nm = me.name, name
        if nsn not in visible:
            return 'missing', 'namespace %s is neither this namespace nor a (transitive) include' % nsn
        nsx = uni.loaded.get(nsn)
        if nsx is None:
            return 'unverifiable', None
        el = nsx.types.get(nm)
        if el is None:
            return 'missing', 'no definition of %s in namespace %s' % (nm, nsn)
        return 'def', el

    def qualify(name, definition):
        """A name used inside `definition` (which may live in an include) as seen from here."""
        owner_ns = parents.get(definition)
        if owner_ns is None:
            for nsx in uni.loaded.values():
                if nsx is not None and definition in list(nsx.ns):
                    owner_ns = nsx.ns
                    break
        if '.' in name or name in FUNDAMENTALS or name in UNBINDABLE or owner_ns is None or owner_ns is me.ns:
            return name
        return '%s.%s' % (owner_ns.get('name'), name)

    def type_ok(tel, owner, depth=0, alias_target=False):
        """Check a <type>/<array> element that is used by an introspectable owner."""
        stats['types_checked'] += 1
        if tel.tag == GI + 'array':
            kids = [k for k in tel if k.tag in (GI + 'type', GI + 'array')]
            if not kids:
                bad('array-without-element-type', path_of(owner))
            for k in kids:
                type_ok(k, owner, depth + 1)
            nm = tel.get('name')
            if nm and nm not in ('GLib.Array', 'GLib.PtrArray', 'GLib.ByteArray'):
                bad('array-with-unknown-container', '%s: %s' % (path_of(owner), nm))
            return
        name = tel.get('name')
        if not name:
            bad('unnamed-type-in-introspectable-element', '%s (c:type %r)' % (path_of(owner), tel.get(C + 'type')))
            return
        if name in UNBINDABLE:
            bad('unbindable-type-in-introspectable-element', '%s uses %s' % (path_of(owner), name))
            return
        kind, el = resolve(name)
        if kind == 'missing':
            bad('unresolved-type-reference', '%s uses %s: %s' % (path_of(owner), name, el))
        elif kind == 'unverifiable':
            stats['unverifiable_refs'] += 1
        elif kind == 'def':
            if '.' not in name or name.startswith(me.name + '.'):
                stats['local_type_refs'] += 1
            seen = set()
            cur = el
            while cur is not None:
                if id(cur) in seen:
                    break
                seen.add(id(cur))
                if cur.get('introspectable') == '0':
                    bad('reference-to-non-introspectable-definition', '%s uses %s, which is introspectable="0"%s'
                        % (path_of(owner), name, '' if cur is el else ' through alias chain'))
                    break
                if cur.tag == GI + 'alias':
                    t = cur.find(GI + 'type')
                    if t is None or not t.get('name'):
                        bad('alias-chain-ends-in-unnamed-type', '%s uses %s' % (path_of(owner), name))
                        break
                    if t.get('name') in UNBINDABLE:
                        bad('alias-chain-ends-in-unbindable-type', '%s uses %s -> %s' % (path_of(owner), name, t.get('name')))
                        break
                    k2, e2 = resolve(qualify(t.get('name'), cur))
                    cur = e2 if k2 == 'def' else None
                else:
                    cur = None
        need = CONTAINERS.get(name)
        kids = [k for k in tel if k.tag in (GI + 'type', GI + 'array')]
        if need is not None and not alias_target:
            if len(kids) < need:
                bad('container-without-element-type', '%s: %s has %d element types' % (path_of(owner), name, len(kids)))
        for k in kids:
            type_ok(k, owner, depth + 1)

    def value_types(el):
        return [k for k in el if k.tag in (GI + 'type', GI + 'array')]

    def callable_params(cel):
        ps = cel.find(GI + 'parameters')
        return [] if ps is None else ps.findall(GI + 'parameter')

    def is_callback_type(tel):
        if tel.tag != GI + 'type' or not tel.get('name'):
            return None
        kind, el = resolve(tel.get('name'))
        seen = 0
        while kind == 'def' and el is not None and el.tag == GI + 'alias' and seen < 10:
            t = el.find(GI + 'type')
            if t is None or not t.get('name'):
                return None
            nm = qualify(t.get('name'), el)
            kind, el = resolve(nm)
            seen += 1
        if kind == 'def' and el.tag == GI + 'callback':
            q = qualify(el.get('name'), el)
            return q if '.' in q else '%s.%s' % (me.name, q)
        return None

    # ------------------------------------------------------------- per element
    for el in me.ns.iter():
        tag = el.tag
        if tag in CALLABLE_TAGS or tag in (GI + 'field', GI + 'property', GI + 'alias', GI + 'constant'):
            off = _is_off(el, parents)
            if off:
                if el.get('introspectable') == '0':
                    stats['demoted_elements'] += 1
                continue
            # a callback nested in a field is judged through the field
            stats['introspectable_elements'] += 1
        else:
            continue
        if tag in CALLABLE_TAGS:
            params = callable_params(el)
            ps = el.find(GI + 'parameters')
            if ps is not None and any(p.find(GI + 'varargs') is not None for p in ps):
                bad('varargs-in-introspectable-callable', path_of(el))
            values = list(params)
            ip = ps.find(GI + 'instance-parameter') if ps is not None else None
            if ip is not None:
                values.append(ip)
            rv = el.find(GI + 'return-value')
            if rv is not None:
                values.append(rv)
            # every value states its transfer (g-ir-compiler requires the attribute even on skipped values)
            for v in values:
                if v.get('transfer-ownership') is None:
                    bad('missing-transfer-ownership', '%s %s' % (path_of(el), _local(v.tag) + ':' + str(v.get('name'))))
            # a value marked skip="1" is not exposed to bindings; the remaining per-value
            # requirements (scope, bindable type) are not applied to it
            values = [v for v in values if v.get('skip') != '1']
            for v in values:
                if False:
                    bad('missing-transfer-ownership', '%s %s' % (path_of(el), _local(v.tag) + ':' + str(v.get('name'))))
                for t in value_types(v):
                    type_ok(t, el)
            # scope on callback parameters (signals and callback typedefs' own parameters are judged too)
            for i, p in enumerate(params):
                if p.get('skip') == '1':
                    continue
                for t in value_types(p):
                    cb = is_callback_type(t)
                    if cb and cb not in ('GLib.DestroyNotify', 'Gio.AsyncReadyCallback') and p.get('scope') is None \
                            and tag != GLIB + 'signal':
                        bad('callback-parameter-without-scope', '%s parameter %s (%s)' % (path_of(el), p.get('name'), cb))
                for attr in ('closure', 'destroy'):
                    if p.get(attr) is not None:
                        stats['indices_checked'] += 1
                        try:
                            idx = int(p.get(attr))
                        except ValueError:
                            idx = -1
                        if not (0 <= idx < len(params)):
                            bad('%s-index-out-of-range' % attr, '%s parameter %s: %s=%s with %d parameters'
                                % (path_of(el), p.get('name'), attr, p.get(attr), len(params)))
            for v in values:
                for arr in v.iter(GI + 'array'):
                    if arr.get('length') is not None:
                        stats['indices_checked'] += 1
                        try:
                            idx = int(arr.get('length'))
                        except ValueError:
                            idx = -1
                        if not (0 <= idx < len(params)):
                            bad('length-index-out-of-range', '%s %s: length=%s with %d parameters'
                                % (path_of(el), v.get('name') or 'return', arr.get('length'), len(params)))
            if el.get('invoker') is not None and tag == GI + 'virtual-method':
                stats['pairs_checked'] += 1
                owner = parents.get(el)
                if not any(m.get('name') == el.get('invoker') for m in owner.findall(GI + 'method')):
                    bad('invoker-is-not-a-method-of-the-type', '%s invoker=%s' % (path_of(el), el.get('invoker')))
            for attr, back in (('shadows', 'shadowed-by'), ('shadowed-by', 'shadows')):
                if el.get(attr) is not None:
                    stats['pairs_checked'] += 1
                    owner = parents.get(el)
                    sibs = [s for s in owner if s.tag in CALLABLE_TAGS and s is not el and s.get(back) is not None]
                    if attr == 'shadows':
                        ok = any(s.get('name') == el.get('shadows') and s.get('shadowed-by') == el.get('name') for s in sibs)
                    else:
                        ok = any(s.get('name') == el.get('shadowed-by') and s.get('shadows') == el.get('name') for s in sibs)
                    if not ok:
                        bad('shadows-pair-not-mutual', '%s %s=%s has no partner pointing back' % (path_of(el), attr, el.get(attr)))
        elif tag == GI + 'field':
            cb = el.find(GI + 'callback')
            if cb is not None and cb.get('introspectable') == '0':
                bad('introspectable-field-with-non-introspectable-callback', path_of(el))
            for t in value_types(el):
                type_ok(t, el)
            owner = parents.get(el)
            for arr in el.iter(GI + 'array'):
                if arr.get('length') is not None and cb is None:
                    stats['indices_checked'] += 1
                    nfields = len(owner.findall(GI + 'field'))
                    try:
                        idx = int(arr.get('length'))
                    except ValueError:
                        idx = -1
                    if not (0 <= idx < nfields):
                        bad('field-length-index-out-of-range', '%s length=%s with %d fields' % (path_of(el), arr.get('length'), nfields))
        elif tag == GI + 'property':
            for t in value_types(el):
                type_ok(t, el)
            owner = parents.get(el)
            for attr, back in (('setter', GLIB + 'set-property'), ('getter', GLIB + 'get-property')):
                if el.get(attr) is not None:
                    stats['pairs_checked'] += 1
                    ms = [m for m in owner.findall(GI + 'method') if m.get('name') == el.get(attr)]
                    if not ms:
                        bad('property-accessor-is-not-a-method', '%s %s=%s' % (path_of(el), attr, el.get(attr)))
                    elif all(_is_off(m, parents) for m in ms):
                        # the typelib compiler leaves such a method out and then aborts on the accessor reference
                        bad('property-accessor-not-introspectable', '%s %s=%s' % (path_of(el), attr, el.get(attr)))
                    elif not any(m.get(back) == el.get('name') for m in ms):
                        # a method can name one property only: when the property it names claims it too, this
                        # property's claim cannot be answered (two annotations/heuristics compete for one method)
                        rivals = [p for p in owner.findall(GI + 'property')
                                  if p is not el and p.get(attr) == el.get(attr) and any(m.get(back) == p.get('name') for m in ms)]
                        if rivals:
                            stats['double_claimed_accessors'] = stats.get('double_claimed_accessors', 0) + 1
                        else:
                            bad('property-accessor-not-mutual', '%s %s=%s but the method says %r'
                                % (path_of(el), attr, el.get(attr), [m.get(back) for m in ms]))
        elif tag == GI + 'alias':
            for t in value_types(el):
                type_ok(t, el, alias_target=True)
        elif tag == GI + 'constant':
            pass
    # methods naming a property
    for m in me.ns.iter(GI + 'method'):
        if _is_off(m, parents):
            continue
        for attr, back in ((GLIB + 'set-property', 'setter'), (GLIB + 'get-property', 'getter')):
            if m.get(attr) is not None:
                stats['pairs_checked'] += 1
                owner = parents.get(m)
                props = [p for p in owner.findall(GI + 'property') if p.get('name') == m.get(attr)]
                if not props:
                    bad('accessor-names-missing-property', '%s %s=%s' % (path_of(m), _local(attr), m.get(attr)))
                # (the property may name another method: with several getter candidates the scanner marks each
                # of them and elects one; the statement asks for agreement in the direction property -> method)
    # type-struct pairs
    for el in me.ns:
        ts = el.get(GLIB + 'type-struct')
        if ts is not None:
            stats['pairs_checked'] += 1
            rec = me.types.get(ts)
            if rec is None or rec.get(GLIB + 'is-gtype-struct-for') != el.get('name'):
                bad('type-struct-not-mutual', '%s glib:type-struct=%s' % (path_of(el), ts))
        back = el.get(GLIB + 'is-gtype-struct-for')
        if back is not None:
            stats['pairs_checked'] += 1
            owner = me.types.get(back)
            if owner is None or owner.get(GLIB + 'type-struct') != el.get('name'):
                bad('is-gtype-struct-for-not-mutual', '%s glib:is-gtype-struct-for=%s' % (path_of(el), back))
    stats['missing_includes'] = sorted(uni.missing)
    return problems, stats
