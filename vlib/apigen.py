"""Hypothesis generator of API descriptions for substrate P (used by C05, C07, C15, C16).

`api()` draws a JSON-able pipeline case (see vlib/pipeline.py): a namespace Foo with a fixed
cast of types of every kind (records, boxed, opaque, union, enum, flags, class, interface,
callbacks, aliases incl. chains ending in unbindable types, a skipped record, a foreign
type from a header that is not scanned), a runtime dump for the registered ones, and
1-8 callables (functions, methods, callback typedefs, virtual methods) whose parameters and
return values are drawn from a type-kind table and carry randomly drawn annotations.
The case also carries 'meta' (what was generated) for oracles and labels.
"""
from hypothesis import strategies as st

from vlib.cmodel import ty, param, CONST

NS = {'name': 'Foo', 'version': '1.0', 'id_prefixes': ['Foo'], 'sym_prefixes': ['foo']}


def T(name, ptr=0, const=False, kind='typedef'):
    return ty(name, kind, CONST if const else 0, [0] * ptr)


def B(name, ptr=0, const=False):
    return ty(name, 'basic', CONST if const else 0, [0] * ptr)


VOID = ty('void', 'void')

# name -> (type model, tags)
KINDS = {
    'int': (B('int'), 'basic'),
    'guint': (T('guint'), 'basic'),
    'gboolean': (T('gboolean'), 'basic'),
    'double': (B('double'), 'basic'),
    'gint64': (T('gint64'), 'basic'),
    'gsize': (T('gsize'), 'basic'),
    'GType': (T('GType'), 'basic'),
    'enum': (T('FooKind'), 'basic enum'),
    'flags': (T('FooFlags'), 'basic enum'),
    'alias-int': (T('FooAliasInt'), 'basic alias'),
    'longlong': (B('long long'), 'unbindable'),
    'ulonglong': (B('unsigned long long'), 'unbindable'),
    'longdouble': (B('long double'), 'unbindable'),
    'va_list': (T('va_list'), 'unbindable'),
    'alias-va': (T('FooAliasVa'), 'unbindable alias'),
    'alias-alias-va': (T('FooAliasAliasVa'), 'unbindable alias chain'),
    'alias-ll': (T('FooAliasLL'), 'unbindable alias'),
    'alias-unknown': (T('FooAliasUnknown', 1), 'unbindable alias'),
    'str': (B('char', 1), 'pointer string'),
    'cstr': (B('char', 1, True), 'pointer string'),
    'strv': (B('char', 2), 'pointer'),
    'gpointer': (T('gpointer'), 'pointer untyped'),
    'gconstpointer': (T('gconstpointer'), 'pointer untyped'),
    'int*': (B('int', 1), 'pointer outish'),
    'gboolean*': (T('gboolean', 1), 'pointer outish'),
    'guint8*': (T('guint8', 1), 'pointer outish'),
    'rec*': (T('FooRec', 1), 'pointer record'),
    'rec**': (T('FooRec', 2), 'pointer record outish'),
    'crec*': (T('FooRec', 1, True), 'pointer record'),
    'boxed*': (T('FooBoxed', 1), 'pointer record'),
    'opaque*': (T('FooOpaque', 1), 'pointer record'),
    'union*': (T('FooUnion', 1), 'pointer record'),
    'rec': (T('FooRec'), 'record byvalue'),
    'skipped*': (T('FooSkipped', 1), 'pointer record skipped'),
    'obj*': (T('FooObj', 1), 'pointer object'),
    'subobj*': (T('FooSubObj', 1), 'pointer object'),
    'iface*': (T('FooIface', 1), 'pointer object'),
    'GObject*': (T('GObject', 1), 'pointer object'),
    'GVariant*': (T('GVariant', 1), 'pointer'),
    'GClosure*': (T('GClosure', 1), 'pointer'),
    'GCancellable*': (T('GCancellable', 1), 'pointer object'),
    'GDateTime*': (T('GDateTime', 1), 'pointer record'),
    'GList*': (T('GList', 1), 'pointer container'),
    'GSList*': (T('GSList', 1), 'pointer container'),
    'GHashTable*': (T('GHashTable', 1), 'pointer container'),
    'GArray*': (T('GArray', 1), 'pointer container'),
    'GPtrArray*': (T('GPtrArray', 1), 'pointer container'),
    'GByteArray*': (T('GByteArray', 1), 'pointer container'),
    'GError**': (T('GError', 2), 'pointer error'),
    'GError*': (T('GError', 1), 'pointer record'),
    'cb': (T('FooCallback'), 'callback'),
    'cb2': (T('FooNotifyFunc'), 'callback'),
    'GDestroyNotify': (T('GDestroyNotify'), 'callback destroy'),
    'GAsyncReadyCallback': (T('GAsyncReadyCallback'), 'callback async'),
    'GCallback': (T('GCallback'), 'callback'),
    'FooBarThing*': (T('FooBarThing', 1), 'pointer record'),
    'FooBarId': (T('FooBarId'), 'basic alias'),
    'FooBarHandle': (T('FooBarHandle'), 'basic alias chain'),
    'foreignrec*': (T('FooForeign', 1), 'pointer record'),
    'foreign*': (T('XOther', 1), 'pointer unresolved'),
    'foreign': (T('XOtherVal'), 'unresolved'),
}
KIND_NAMES = sorted(KINDS) + ['usercb'] * 5      # 'usercb' = a callback typedef generated in the same case


def kind_type(k):
    """Type model of a parameter kind; 'usercb:FooFunc3' names a generated callback typedef."""
    if k.startswith('usercb:'):
        return T(k.split(':', 1)[1])
    return KINDS[k][0]


def kind_tags(k):
    if k.startswith('usercb'):
        return 'callback'
    return KINDS[k][1]
RET_KINDS = ['void'] + [k for k in sorted(KINDS) if k not in ('GError**',)]

FUND_TYPES = ['gint', 'guint', 'utf8', 'filename', 'gpointer', 'gboolean', 'guint8', 'gdouble', 'gint64', 'gsize',
              'GType', 'gunichar', 'none', 'gchar']
USER_TYPES = FUND_TYPES + ['Foo.Rec', 'Rec', 'FooRec', 'Foo.Obj', 'FooObj*', 'GObject.Object', 'GLib.Variant', 'Foo.Kind',
                           'Foo.Missing', 'Bar.Baz', 'long long', 'va_list', 'Foo.Skipped', 'FooAliasVa', 'GLib.List',
                           'GLib.HashTable(utf8,gint)', 'GLib.List(utf8)', 'int', 'char*', 'XOther']


def fixed_decls(order_seed, with_gobject=True):
    """The cast of types. order_seed permutes the alias declarations (both orders of a chain)."""
    d = []
    d.append({'d': 'typedef', 'name': 'XOther', 'type': ty('_XOther', 'struct'), 'file': None})
    d.append({'d': 'typedef', 'name': 'XOtherVal', 'type': B('int'), 'file': None})
    # types of the included fixture namespace FooBar (its name extends this namespace's name)
    d.append({'d': 'typedef', 'name': 'FooBarThing', 'type': ty('_FooBarThing', 'struct'), 'file': None})
    d.append({'d': 'typedef', 'name': 'FooBarId', 'type': T('guint32'), 'file': None})
    d.append({'d': 'typedef', 'name': 'FooBarHandle', 'type': T('FooBarId'), 'file': None})
    aliases = [
        {'d': 'typedef', 'name': 'FooAliasInt', 'type': T('gint')},
        {'d': 'typedef', 'name': 'FooAliasVa', 'type': T('va_list')},
        {'d': 'typedef', 'name': 'FooAliasAliasVa', 'type': T('FooAliasVa')},
        {'d': 'typedef', 'name': 'FooAliasLL', 'type': B('long long')},
        {'d': 'typedef', 'name': 'FooAliasUnknown', 'type': T('XOther')},
    ]
    # C requires a typedef name to be declared before it is used, so FooAliasVa always precedes
    # FooAliasAliasVa; only independent declarations are permuted.
    if order_seed % 2:
        aliases = aliases[3:] + aliases[:3]
    if (order_seed // 2) % 2:
        aliases = [aliases[0]] + aliases[1:][::-1] if aliases[0]['name'] == 'FooAliasInt' else aliases
        aliases.sort(key=lambda a: a['name'] == 'FooAliasAliasVa')
    d.extend(aliases)
    d.append({'d': 'enum', 'name': 'FooKind', 'tag': None, 'flags': False,
              'members': [{'name': 'FOO_KIND_A', 'value': None}, {'name': 'FOO_KIND_B', 'value': None}]})
    d.append({'d': 'enum', 'name': 'FooFlags', 'tag': None, 'flags': True,
              'members': [{'name': 'FOO_FLAGS_X', 'value': 1, 'shift': True}, {'name': 'FOO_FLAGS_Y', 'value': 2, 'shift': True}]})
    d.append({'d': 'compound', 'kind': 'struct', 'tag': '_FooRec', 'typedef': 'FooRec', 'fields': None})
    d.append({'d': 'compound', 'kind': 'struct', 'tag': '_FooOpaque', 'typedef': 'FooOpaque', 'fields': None})
    d.append({'d': 'compound', 'kind': 'struct', 'tag': '_FooForeign', 'typedef': 'FooForeign', 'fields': None})
    d.append({'d': 'compound', 'kind': 'struct', 'tag': '_FooBoxed', 'typedef': 'FooBoxed',
              'fields': [{'name': 'refs', 'type': B('int')}]})
    d.append({'d': 'compound', 'kind': 'struct', 'tag': '_FooSkipped', 'typedef': 'FooSkipped',
              'fields': [{'name': 'v', 'type': B('int')}]})
    d.append({'d': 'compound', 'kind': 'union', 'tag': '_FooUnion', 'typedef': 'FooUnion',
              'fields': [{'name': 'i', 'type': B('int')}, {'name': 'd', 'type': B('double')}]})
    d.append({'d': 'callback', 'name': 'FooCallback', 'ret': VOID,
              'params': [param('v', B('int')), param('user_data', T('gpointer'))]})
    d.append({'d': 'callback', 'name': 'FooNotifyFunc', 'ret': T('gboolean'),
              'params': [param('rec', T('FooRec', 1)), param('data', T('gpointer'))]})
    d.append({'d': 'function', 'name': 'foo_boxed_get_type', 'ret': T('GType'), 'params': []})
    if with_gobject:
        d.append({'d': 'compound', 'kind': 'struct', 'tag': '_FooObj', 'typedef': 'FooObj', 'fields': None})
        d.append({'d': 'compound', 'kind': 'struct', 'tag': '_FooObjClass', 'typedef': 'FooObjClass', 'fields': None})
        d.append({'d': 'compound', 'kind': 'struct', 'tag': '_FooSubObj', 'typedef': 'FooSubObj', 'fields': None})
        d.append({'d': 'compound', 'kind': 'struct', 'tag': '_FooSubObjClass', 'typedef': 'FooSubObjClass',
                  'fields': [{'name': 'parent_class', 'type': T('FooObjClass')}]})
        d.append({'d': 'compound', 'kind': 'struct', 'tag': '_FooIface', 'typedef': 'FooIface', 'fields': None})
        d.append({'d': 'function', 'name': 'foo_obj_get_type', 'ret': T('GType'), 'params': []})
        d.append({'d': 'function', 'name': 'foo_sub_obj_get_type', 'ret': T('GType'), 'params': []})
        d.append({'d': 'function', 'name': 'foo_iface_get_type', 'ret': T('GType'), 'params': []})
    return d


REC_FIELDS_POOL = ['int', 'str', 'gpointer', 'rec*', 'cb', 'GList*', 'longlong', 'foreign*', 'enum', 'obj*', 'alias-va',
                   'guint8*', 'gsize', 'double', 'boxed*', 'alias-alias-va', 'GHashTable*', 'skipped*']


@st.composite
def _annots(draw, names, hostile, is_return=False):
    """A list of annotation strings for one parameter / return value."""
    if draw(st.integers(0, 3)) == 0:
        return []
    if not is_return and draw(st.integers(0, 5)) == 0:
        # combinations of direction / nullability / optionality that each map to their own GIR attribute
        return list(draw(st.sampled_from([
            ['(out)', '(optional)', '(nullable)'], ['(inout)', '(optional)', '(nullable)'], ['(inout)', '(nullable)'],
            ['(out)', '(nullable)'], ['(out)', '(optional)'], ['(out caller-allocates)', '(optional)'],
            ['(out)', '(optional)', '(nullable)', '(transfer full)'], ['(inout)', '(optional)'], ['(nullable)', '(transfer none)'],
            ['(out)', '(allow-none)'], ['(inout)', '(allow-none)'], ['(out)', '(skip)'], ['(out)', '(optional)', '(not nullable)']])))
    out = []
    n = draw(st.integers(1, 3))
    other = st.sampled_from(names) if names else st.just('no_such_param')
    for _ in range(n):
        a = draw(st.sampled_from(['transfer', 'transfer', 'dir', 'nullable', 'optional', 'allow-none', 'skip', 'array',
                                  'element-type', 'type', 'scope', 'closure', 'destroy', 'attributes', 'not']))
        if a == 'transfer':
            out.append('(transfer %s)' % draw(st.sampled_from(['none', 'full', 'container', 'floating'])))
        elif a == 'dir':
            if not is_return:
                out.append(draw(st.sampled_from(['(in)', '(out)', '(inout)', '(out caller-allocates)', '(out callee-allocates)'])))
        elif a == 'nullable':
            out.append('(nullable)')
        elif a == 'optional':
            out.append('(optional)')
        elif a == 'allow-none':
            out.append('(allow-none)')
        elif a == 'not':
            out.append(draw(st.sampled_from(['(not nullable)', '(not optional)'])))
        elif a == 'skip':
            out.append('(skip)')
        elif a == 'array':
            opts = []
            if draw(st.booleans()):
                tgt = draw(other)
                if hostile and draw(st.integers(0, 19)) == 0:
                    tgt = 'no_such_param'
                opts.append('length=%s' % tgt)
            if draw(st.integers(0, 2)) == 0:
                opts.append('fixed-size=%d' % draw(st.integers(0, 8)))
            if draw(st.integers(0, 2)) == 0:
                opts.append(draw(st.sampled_from(['zero-terminated', 'zero-terminated=1', 'zero-terminated=0'])))
            out.append('(array%s)' % (' ' + ' '.join(opts) if opts else ''))
        elif a == 'element-type':
            k = draw(st.integers(1, 2))
            out.append('(element-type %s)' % ' '.join(draw(st.sampled_from(USER_TYPES)) for _ in range(k)))
        elif a == 'type':
            out.append('(type %s)' % draw(st.sampled_from(USER_TYPES)))
        elif a == 'scope':
            if not is_return:
                out.append('(scope %s)' % draw(st.sampled_from(['call', 'async', 'notified', 'forever'])))
        elif a == 'closure':
            if not is_return:
                tgt = draw(other)
                if hostile and draw(st.integers(0, 19)) == 0:
                    tgt = 'no_such_param'
                out.append(draw(st.sampled_from(['(closure %s)' % tgt, '(closure)'])))
        elif a == 'destroy':
            if not is_return:
                out.append('(destroy %s)' % draw(other))
        elif a == 'attributes':
            out.append('(attributes k=v%s)' % draw(st.sampled_from(['', ' key2=v2', ' empty'])))
    # the parser refuses duplicate annotation names with a warning; keep them unique
    seen = set()
    uniq = []
    for a in out:
        nm = a[1:].split(' ')[0].rstrip(')')
        if nm in seen:
            continue
        seen.add(nm)
        uniq.append(a)
    return uniq


@st.composite
def _callable(draw, idx, hostile, annotate):
    shape = draw(st.sampled_from(['function', 'function', 'method-rec', 'method-obj', 'callback', 'ctor', 'vfunc', 'inline',
                                  'method-plural']))
    n = draw(st.integers(0, 5))
    kinds = draw(st.lists(st.sampled_from(KIND_NAMES), min_size=n, max_size=n))
    if draw(st.integers(0, 3)) == 0:
        i = draw(st.integers(0, len(kinds)))
        kinds[i:i] = draw(st.sampled_from([['cb', 'gpointer'], ['cb', 'gpointer', 'GDestroyNotify'],
                                           ['GCancellable*', 'GAsyncReadyCallback', 'gpointer'], ['guint8*', 'gsize'],
                                           ['strv', 'int'], ['rec**', 'int*']]))
    if draw(st.integers(0, 4)) == 0:
        kinds.append('GError**')
    varargs = hostile and draw(st.integers(0, 11)) == 0
    ret = draw(st.sampled_from(RET_KINDS))
    names = []
    for i, k in enumerate(kinds):
        nm = 'p%d' % i
        if k == 'gpointer' and i > 0 and 'callback' in kind_tags(kinds[i - 1]):
            nm = 'user_data' if 'user_data' not in names else 'more_data%d' % i
        if k == 'GError**':
            nm = 'error'
        names.append(nm)
    ann = {}
    if annotate:
        for nm in names:
            ann[nm] = draw(_annots(names, hostile))
        ann['Returns'] = draw(_annots(names, hostile, True))
    if annotate and names and ret in ('int*', 'guint8*', 'strv', 'rec**', 'gpointer') and draw(st.integers(0, 2)) == 0:
        ann['Returns'] = ['(array length=%s)' % names[-1], '(transfer full)']
    ident_ann = []
    if annotate and draw(st.integers(0, 5)) == 0:
        ident_ann.append(draw(st.sampled_from(['(skip)', '(method)', '(constructor)', '(rename-to foo_renamed_%d)' % idx,
                                               '(attributes a=b)', '(finish-func finish_%d)' % idx])))
    return {'shape': shape, 'idx': idx, 'kinds': kinds, 'names': names, 'ret': ret, 'varargs': varargs, 'ann': ann,
            'ident_ann': ident_ann, 'doc': draw(st.sampled_from(['', 'Does things.', 'Line one.\n\nPara two with <markup> & "quotes".'])),
            'since': draw(st.sampled_from([None, None, '1.2'])), 'deprecated': draw(st.sampled_from([None, None, None, '1.4: Use something else']))}


def _cb_chain(draw, idx):
    def mk(shape, i, kinds, ret='void'):
        names = ['p%d' % j for j in range(len(kinds))]
        return {'shape': shape, 'idx': i, 'kinds': list(kinds), 'names': names, 'ret': ret, 'varargs': False, 'ann': {},
                'ident_ann': [], 'doc': '', 'since': None, 'deprecated': None, 'chain': True}
    bad = draw(st.sampled_from(['va_list', 'longlong', 'alias-va', 'foreign', 'alias-unknown', 'longdouble']))
    b = mk('callback', idx, [draw(st.sampled_from(['int', 'obj*', 'str'])), bad])
    a = mk('callback', idx + 1, ['usercb:FooFunc%d' % idx, 'gpointer'])
    user_shape = draw(st.sampled_from(['vfunc', 'vfunc', 'method-obj', 'method-rec', 'function', 'ctor']))
    u = mk(user_shape, idx + 2, ['usercb:FooFunc%d' % (idx + 1), 'gpointer'], draw(st.sampled_from(['void', 'int', 'obj*'])))
    u['names'] = ['func', 'user_data']
    a['names'] = ['inner', 'user_data']
    return [b, a, u]


ARRAYABLE = ('strv', 'int*', 'guint8*', 'rec**', 'gboolean*')
LENGTHISH = ('int', 'guint', 'gsize')


def _twin(draw, callables):
    """A second callable with the signature and annotations of an existing one, differing in ONE annotation detail of one
    value (an array that is / is not zero-terminated, with the same element type and the same length parameter or fixed
    size; a transfer mode; nullable). Two values that differ in one flag only are what a cache or a de-duplication keyed
    on too little would confuse; the pair is forced onto both callables so that both variants are in one namespace."""
    import copy
    base = callables[draw(st.integers(0, len(callables) - 1))]
    vals = [(nm, k) for nm, k in zip(base['names'], base['kinds'])]
    if base['ret'] != 'void':
        vals.append(('Returns', base['ret']))
    arr = [nm for nm, k in vals if k in ARRAYABLE]
    op = draw(st.sampled_from(['zt', 'zt', 'zt', 'transfer', 'nullable']))
    t = copy.deepcopy(base)
    t['idx'] = len(callables)
    t['ident_ann'] = []
    t['twin_of'] = base['idx']
    if op == 'zt':
        if not arr:
            return None
        nm = draw(st.sampled_from(arr))
        lens = [n2 for n2, k in zip(base['names'], base['kinds']) if k in LENGTHISH and n2 != nm]
        dim = draw(st.sampled_from(['fixed-size=4'] + ['length=%s' % x for x in lens] * 2))
        keep = [a for a in (base['ann'].get(nm) or []) if not a.startswith('(array') and not a.startswith('(type')
                and not a.startswith('(element-type')]
        first = draw(st.booleans())
        base['ann'][nm] = keep + ['(array %s%s)' % (dim, ' zero-terminated=1' if first else '')]
        t['ann'][nm] = keep + ['(array %s%s)' % (dim, '' if first else ' zero-terminated=1')]
        t['twin_op'] = 'zero-terminated'
    elif op == 'transfer':
        ptrs = [nm for nm, k in vals if 'pointer' in kind_tags(k)]
        if not ptrs:
            return None
        nm = draw(st.sampled_from(ptrs))
        keep = [a for a in (base['ann'].get(nm) or []) if not a.startswith('(transfer')]
        a, b = draw(st.sampled_from([('full', 'none'), ('none', 'full'), ('container', 'full'), ('full', 'container')]))
        base['ann'][nm] = keep + ['(transfer %s)' % a]
        t['ann'][nm] = keep + ['(transfer %s)' % b]
        t['twin_op'] = 'transfer'
    else:
        ptrs = [nm for nm, k in vals if 'pointer' in kind_tags(k)]
        if not ptrs:
            return None
        nm = draw(st.sampled_from(ptrs))
        keep = [a for a in (base['ann'].get(nm) or []) if a not in ('(nullable)', '(allow-none)', '(not nullable)', '(optional)', '(not optional)')]
        base['ann'][nm] = keep + ['(nullable)']
        t['ann'][nm] = keep
        t['twin_op'] = 'nullable'
    return t


def _callable_decl(c):
    params = [param(nm, kind_type(k)) for nm, k in zip(c['names'], c['kinds'])]
    if c['varargs']:
        params.append({'ellipsis': True})
    ret = VOID if c['ret'] == 'void' else KINDS[c['ret']][0]
    i = c['idx']
    sh = c['shape']
    if sh in ('function', 'inline'):
        return 'foo_do_%d' % i, {'d': 'function', 'name': 'foo_do_%d' % i, 'ret': ret, 'params': params, 'inline': sh == 'inline'}
    if sh == 'method-rec':
        return 'foo_boxed_act_%d' % i, {'d': 'function', 'name': 'foo_boxed_act_%d' % i, 'ret': ret,
                                        'params': [param('self', T('FooBoxed', 1))] + params}
    if sh == 'method-plural':
        # foo_boxeds_x (FooBoxed *self, ...): carries the type's prefix without the separating underscore; the scanner
        # keeps the function and adds a moved-to method copy for compatibility
        return 'foo_boxeds_act_%d' % i, {'d': 'function', 'name': 'foo_boxeds_act_%d' % i, 'ret': ret,
                                         'params': [param('self', T('FooBoxed', 1))] + params}
    if sh == 'method-obj':
        return 'foo_obj_act_%d' % i, {'d': 'function', 'name': 'foo_obj_act_%d' % i, 'ret': ret,
                                      'params': [param('self', T('FooObj', 1))] + params}
    if sh == 'ctor':
        return 'foo_obj_new_%d' % i, {'d': 'function', 'name': 'foo_obj_new_%d' % i, 'ret': T('FooObj', 1), 'params': params}
    if sh == 'callback':
        return 'FooFunc%d' % i, {'d': 'callback', 'name': 'FooFunc%d' % i, 'ret': ret, 'params': params}
    return None, None       # vfunc: rendered into the class struct


def _block(ident, c, extra_ident_ann=()):
    lines = ['/**', ' * %s:%s' % (ident, (' ' + ' '.join(list(c['ident_ann']) + list(extra_ident_ann))) if (c['ident_ann'] or extra_ident_ann) else '')]
    for nm in c['names']:
        a = c['ann'].get(nm) or []
        lines.append(' * @%s:%s a parameter' % (nm, (' ' + ' '.join(a) + ':') if a else ''))
    if c['varargs']:
        lines.append(' * @...: more')
    if c['doc']:
        lines.append(' *')
        for l in c['doc'].split('\n'):
            lines.append(' * ' + l if l else ' *')
    if c['ret'] != 'void' or c['ann'].get('Returns'):
        a = c['ann'].get('Returns') or []
        lines.append(' *')
        lines.append(' * Returns:%s a value' % ((' ' + ' '.join(a) + ':') if a else ''))
    if c['since']:
        lines.append(' * Since: %s' % c['since'])
    if c['deprecated']:
        lines.append(' * Deprecated: %s' % c['deprecated'])
    lines.append(' */')
    return '\n'.join(lines)


@st.composite
def api(draw, hostile=True, annotate=True, max_callables=6, with_gobject=True):
    order_seed = draw(st.integers(0, 3))
    decls = fixed_decls(order_seed, with_gobject)
    n = draw(st.integers(1, max_callables))
    callables = [draw(_callable(i, hostile, annotate)) for i in range(n)]
    if hostile and draw(st.integers(0, 2)) == 0:
        # a chain user -> callback A -> callback B where only B has an unbindable parameter: whether the user is demoted
        # depends on A having been demoted before the user is looked at (namespace order: a class or record declared
        # before the callback typedefs is analysed first)
        callables.extend(_cb_chain(draw, len(callables)))
    twin = None
    if annotate and draw(st.booleans()):
        twin = _twin(draw, callables)
        if twin is not None:
            callables.append(twin)
    rec_fields = draw(st.lists(st.sampled_from(REC_FIELDS_POOL + ['usercb'] * 4), min_size=1, max_size=5))
    # resolve 'usercb' to one of the callback typedefs generated in this case (the fixed FooCallback otherwise)
    cbs = ['FooFunc%d' % c['idx'] for c in callables if c['shape'] == 'callback']

    def _res(k, own=None):
        if k != 'usercb':
            return k
        # C needs the typedef before its use: callback typedefs are emitted first (see below) and may
        # only refer to callback typedefs with a smaller index
        cands = [x for x in cbs if x != own]
        if own in cbs:
            cands = [x for x in cbs if int(x[7:]) < int(own[7:])]
        if not cands:
            return 'cb'
        return 'usercb:' + draw(st.sampled_from(cands))
    for c in callables:
        c['kinds'] = [_res(k, 'FooFunc%d' % c['idx']) for k in c['kinds']]
    rec_fields = [_res(k) for k in rec_fields]
    comments = []
    vfuncs = []
    for c in sorted(callables, key=lambda c: (c['shape'] != 'callback', c['idx'])):
        ident, d = _callable_decl(c)
        if d is None:
            vfuncs.append(c)
            continue
        decls.append(d)
        if annotate and (c['ann'] or c['ident_ann'] or c['doc'] or c['since'] or c['deprecated']):
            comments.append([_block(ident, c), '/src/foo.c', 10 + 40 * c['idx']])
    # record body (fields incl. a length-annotated pair) - declared after the forward typedef
    fields = []
    for j, k in enumerate(rec_fields):
        fields.append({'name': 'f%d' % j, 'type': kind_type(k)})
    decls.append({'d': 'compound', 'kind': 'struct', 'tag': '_FooRec', 'typedef': None, 'fields': fields})
    if draw(st.booleans()):
        # functions that pair with an enumeration as its static functions (declared in non-sorted order)
        decls.append({'d': 'function', 'name': 'foo_kind_to_string', 'ret': B('char', 1, True), 'params': [param('kind', T('FooKind'))]})
        decls.append({'d': 'function', 'name': 'foo_kind_from_string', 'ret': T('FooKind'), 'params': [param('s', B('char', 1, True))]})
    if with_gobject and draw(st.booleans()):
        # static functions of the class, declared in non-sorted order (the writer sorts them by name)
        decls.append({'d': 'function', 'name': 'foo_obj_zeta_count', 'ret': B('int'), 'params': []})
        decls.append({'d': 'function', 'name': 'foo_obj_alpha_reset', 'ret': VOID, 'params': [param('level', B('int'))]})
    if annotate:
        comments.append(['/**\n * FooForeign: (foreign)\n *\n * Managed elsewhere.\n */', '/src/foo.c', 1100])
    if annotate and draw(st.booleans()):
        comments.append(['/**\n * FooSkipped: (skip)\n *\n * Not for bindings.\n */', '/src/foo.c', 1000])
    dump = None
    if with_gobject:
        cls_fields = [{'name': 'parent_class', 'type': T('GObjectClass')}]
        for c in vfuncs:
            params = [param('self', T('FooObj', 1))] + [param(nm, kind_type(k)) for nm, k in zip(c['names'], c['kinds'])]
            ret = VOID if c['ret'] == 'void' else KINDS[c['ret']][0]
            cls_fields.append({'name': 'slot_%d' % c['idx'], 'type': {'fp': {'ret': ret, 'params': params}}})
            if annotate and c['ann']:
                comments.append([_block('FooObjClass::slot_%d' % c['idx'], c), '/src/foo.c', 10 + 40 * c['idx']])
        decls.append({'d': 'compound', 'kind': 'struct', 'tag': '_FooObj', 'typedef': None,
                      'fields': [{'name': 'parent_instance', 'type': T('GObject')}]})
        decls.append({'d': 'compound', 'kind': 'struct', 'tag': '_FooObjClass', 'typedef': None, 'fields': cls_fields})
        decls.append({'d': 'compound', 'kind': 'struct', 'tag': '_FooSubObj', 'typedef': None,
                      'fields': [{'name': 'parent_instance', 'type': T('FooObj')}]})
        props = []
        for j in range(draw(st.integers(0, 3))):
            ptype = draw(st.sampled_from(['gint', 'gchararray', 'GObject', 'FooObj', 'FooKind', 'gboolean', 'FooHiddenType',
                                          'FooBoxed', 'gpointer', 'GStrv']))
            props.append('<property name="prop-%d" type="%s" flags="%d"%s/>'
                         % (j, ptype, draw(st.sampled_from([1, 2, 3, 7, 11, 227])),
                            draw(st.sampled_from(['', ' default-value="0"', ' default-value=""', ' default-value="a &lt;b&gt;"']))))
        # accessor methods for some properties, sometimes with an explicit (set-property)/(get-property) annotation that
        # names the same, another or no existing property, and property blocks with (setter)/(getter)
        acc_types = {'gint': B('int'), 'gchararray': B('char', 1, True), 'gboolean': T('gboolean'), 'FooObj': T('FooObj', 1),
                     'GObject': T('GObject', 1), 'FooKind': T('FooKind')}
        nprops = len(props)
        for j, ptxt in enumerate(props):
            ptype = ptxt.split('type="')[1].split('"')[0]
            if ptype not in acc_types or not draw(st.booleans()):
                continue
            for which in ('set', 'get'):
                if not draw(st.integers(0, 3)):
                    continue
                fname = 'foo_obj_%s_prop_%d' % (which, j)
                if which == 'set':
                    decls.append({'d': 'function', 'name': fname, 'ret': VOID,
                                  'params': [param('self', T('FooObj', 1)), param('value', acc_types[ptype])]})
                else:
                    decls.append({'d': 'function', 'name': fname, 'ret': acc_types[ptype], 'params': [param('self', T('FooObj', 1))]})
                if annotate and draw(st.integers(0, 2)) == 0:
                    tgt = draw(st.integers(0, nprops))      # nprops itself: a property that does not exist
                    comments.append(['/**\n * %s: (%s-property prop-%d)\n * @self: an object\n%s *\n * Accessor.\n%s */'
                                     % (fname, which, tgt, ' * @value: (transfer none): a value\n' if which == 'set' else '',
                                        ' *\n * Returns: (transfer none): the value\n' if which == 'get' else ''),
                                     '/src/foo.c', 2000 + 20 * j + (which == 'get')])
            if annotate and draw(st.integers(0, 3)) == 0:
                k = draw(st.integers(0, nprops))
                comments.append(['/**\n * FooObj:prop-%d: (%s %s_prop_%d)\n *\n * A property.\n */'
                                 % (j, draw(st.sampled_from(['setter', 'getter'])), draw(st.sampled_from(['set', 'get'])), k),
                                 '/src/foo.c', 2400 + 10 * j])
        sigs = []
        for j in range(draw(st.integers(0, 2))):
            ptypes = draw(st.lists(st.sampled_from(['gint', 'gchararray', 'FooObj', 'FooBoxed', 'FooHiddenType', 'gpointer',
                                                    'GObject', 'FooKind']), max_size=3))
            sigs.append('<signal name="sig-%d" return="%s" when="%s"%s>%s</signal>'
                        % (j, draw(st.sampled_from(['void', 'gboolean', 'FooHiddenType', 'gchararray'])),
                           draw(st.sampled_from(['first', 'last', 'cleanup'])),
                           draw(st.sampled_from(['', ' detailed="1"', ' action="1" no-hooks="1"'])),
                           ''.join('<param type="%s"/>' % p for p in ptypes)))
        # a second interface whose prerequisites are drawn: a class of this namespace (GtkCellEditable requires
        # GtkWidget), another interface, a class of an included namespace, several of them; optionally implemented
        extra_iface = ''
        extra_impl = ''
        if draw(st.integers(0, 2)) == 0:
            prereqs = draw(st.lists(st.sampled_from(['FooObj', 'FooIface', 'GObject', 'FooSubObj', 'GInitiallyUnowned']),
                                    min_size=0, max_size=3, unique=True))
            decls.append({'d': 'compound', 'kind': 'struct', 'tag': '_FooEditable', 'typedef': 'FooEditable', 'fields': None})
            decls.append({'d': 'function', 'name': 'foo_editable_get_type', 'ret': T('GType'), 'params': []})
            extra_iface = ('<interface name="FooEditable" get-type="foo_editable_get_type">%s</interface>\n'
                           % ''.join('<prerequisite name="%s"/>' % q for q in prereqs))
            if draw(st.booleans()) and 'FooSubObj' not in prereqs:
                extra_impl = '<implements name="FooEditable"/>'
        dump = ('<?xml version="1.0"?>\n<dump>\n'
                '<class name="FooObj" get-type="foo_obj_get_type" parents="GObject">\n<implements name="FooIface"/>\n%s\n%s\n</class>\n'
                '<class name="FooSubObj" get-type="foo_sub_obj_get_type" parents="FooObj,GObject">%s</class>\n'
                '<interface name="FooIface" get-type="foo_iface_get_type"><prerequisite name="GObject"/></interface>\n'
                '%s'
                '<boxed name="FooBoxed" get-type="foo_boxed_get_type"/>\n'
                '</dump>\n' % ('\n'.join(props), '\n'.join(sigs), extra_impl, extra_iface))
    else:
        dump = ('<?xml version="1.0"?>\n<dump>\n<boxed name="FooBoxed" get-type="foo_boxed_get_type"/>\n</dump>\n')
    return {'ns': NS, 'includes': ['Gio-2.0', 'FooBar-1.0'], 'decls': decls, 'comments': comments, 'dump': dump,
            'meta': {'callables': callables, 'rec_fields': rec_fields, 'order_seed': order_seed}}


def expects_fatal(case):
    """Deliberate fatal shapes: an annotation naming a parameter that does not exist."""
    for c in case['meta']['callables']:
        for anns in c['ann'].values():
            for a in anns:
                if 'no_such_param' in a:
                    return True
    return False
