"""Substrate P, part 2: a small JSON-able model of C header declarations with two
total renderers:

  to_symbols(decls)      -> the symbol list the flex/bison front end would hand to
                            Transformer.parse (mirrors the grammar actions of
                            giscanner/scannerparser.y one for one; DESIGN appendix D)
  to_header_text(decls)  -> the same declarations as C source (for replay files and
                            the gcc -fsyntax-only generator-soundness gate)

Type  := {'base': 'int'|'unsigned long'|'gint'|'FooBar'|'_FooBar'|'void',
          'kind': 'void'|'basic'|'typedef'|'struct'|'union'|'enum',
          'q': 0|CONST|VOLATILE (qualifiers of the specifier),
          'ptrs': [q, ...]   one entry per '*', in source order (first = next to the specifier),
          'dims': [N|None, ...]  array dimensions in source order,
          'fp': {'ret': Type, 'params': [Param]}   function pointer: (*name)(params), 'ptrs' then
                                                   apply to the *return* type spelling
         }
Param := {'name': str|None, 'type': Type} | {'ellipsis': True}

Decl  := {'d': 'function', 'name', 'ret': Type, 'params': [Param], 'inline': bool}
       | {'d': 'typedef', 'name', 'type': Type}                         # alias / forward struct typedef
       | {'d': 'callback', 'name', 'ret', 'params', 'ptr': bool}        # typedef R (*N)(..) / typedef R N(..)
       | {'d': 'compound', 'kind': 'struct'|'union', 'tag': str|None, 'typedef': str|None,
          'fields': [Field]|None}                                        # see _compound()
       | {'d': 'enum', 'name': typedef name, 'tag': str|None, 'flags': bool, 'members': [Member]}
       | {'d': 'const', 'name', 'value': {...}}                          # object-like macro
       | {'d': 'macro', 'name', 'params': [str]}                         # function-like macro
       | {'d': 'var', 'name', 'type'}
   every decl may carry 'file' (default 'foo.h'); file None = declared in a header that is
   included but not scanned (only makes the typedef name known; produces no symbol).
   Optional 'line' (line reported for the decl's symbol; default: a running counter) and, for a
   compound with tag and body, 'line_body' (line of the STRUCT/UNION symbol, i.e. of the `}`).
   Field 'private' is the author's intent (which marker precedes the member); what the front end
   makes of the rendered text is effective_fields().
Field := {'name', 'type', 'private': bool, 'bits': int|None}
       | {'name': str|None, 'anon': 'struct'|'union', 'fields': [Field], 'private': bool}
Member:= {'name', 'value': int|None (None = implicit), 'shift': bool, 'private': bool}
"""
from vlib import stubscanner
from vlib.stubscanner import RawSymbol as S, RawType as T

CONST = 1 << 1
VOLATILE = 1 << 3

(SYM_INVALID, SYM_ELLIPSIS, SYM_CONST, SYM_OBJECT, SYM_FUNCTION, SYM_FUNCTION_MACRO,
 SYM_STRUCT, SYM_UNION, SYM_ENUM, SYM_TYPEDEF, SYM_MEMBER) = range(11)
(CT_INVALID, CT_VOID, CT_BASIC, CT_TYPEDEF, CT_STRUCT, CT_UNION, CT_ENUM, CT_POINTER,
 CT_ARRAY, CT_FUNCTION) = range(10)
FUNCTION_INLINE = 1 << 1
STORAGE_TYPEDEF = 1 << 1

_KIND = {'void': CT_VOID, 'basic': CT_BASIC, 'typedef': CT_TYPEDEF, 'struct': CT_STRUCT,
         'union': CT_UNION, 'enum': CT_ENUM}


# ---------------------------------------------------------------- constructors
def ty(base, kind=None, q=0, ptrs=(), dims=()):
    if kind is None:
        kind = 'void' if base == 'void' else ('basic' if base in BASIC_WORDS or ' ' in base else 'typedef')
    return {'base': base, 'kind': kind, 'q': q, 'ptrs': list(ptrs), 'dims': list(dims)}


BASIC_WORDS = set(['char', 'short', 'int', 'long', 'float', 'double', 'signed', 'unsigned', '_Bool',
                   'signed char', 'unsigned char', 'unsigned short', 'unsigned int', 'unsigned long',
                   'long long', 'unsigned long long', 'long double', 'long int', 'short int',
                   'unsigned long int', 'unsigned short int', 'long long int', 'unsigned long long int',
                   'signed int', 'signed long', 'signed short'])


def param(name, type_):
    return {'name': name, 'type': type_}


# ---------------------------------------------------------------- to_symbols
class _Ctx(object):
    def __init__(self, default_file):
        self.file = default_file
        self.line = 0


def _spec(t, extra_children=None, storage=0, fspec=0, is_bitfield=0):
    k = t['kind']
    if k == 'void':
        return T(CT_VOID, None, None, t.get('q', 0), storage=storage, function_specifier=fspec)
    if k in ('struct', 'union', 'enum'):
        return T(_KIND[k], t['base'], None, t.get('q', 0), children=extra_children,
                 storage=storage, function_specifier=fspec, is_bitfield=is_bitfield)
    return T(_KIND[k], t['base'], None, t.get('q', 0), storage=storage, function_specifier=fspec)


def _type_chain(t, cx, spec_node=None, storage=0, fspec=0):
    """Chain for a declarator of type t, outermost node first."""
    if t.get('fp') is not None:
        fp = t['fp']
        ret = _type_chain(fp['ret'], cx, storage=storage, fspec=fspec)
        func = T(CT_FUNCTION, None, ret, 0, children=_params(fp['params'], cx))
        node = T(CT_POINTER, None, func, 0)
        for d in reversed(t.get('dims', [])):
            node = _array(d, node, cx)
        return node
    node = spec_node if spec_node is not None else _spec(t, storage=storage, fspec=fspec)
    for q in t.get('ptrs', []):
        node = T(CT_POINTER, None, node, q)
    for d in reversed(t.get('dims', [])):
        node = _array(d, node, cx)
    return node


def _array(dim, base, cx):
    kids = []
    if dim is not None:
        kids = [S(SYM_CONST, None, None, cx.line, cx.file, const_int=dim)]
    return T(CT_ARRAY, None, base, 0, children=kids)


def _params(params, cx):
    """`(void)` is represented by an empty list: the grammar drops it."""
    out = []
    for p in params:
        if p.get('ellipsis'):
            out.append(S(SYM_ELLIPSIS, None, None, cx.line, cx.file))
        else:
            out.append(S(SYM_INVALID, p.get('name'), _type_chain(p['type'], cx), cx.line, cx.file))
    return out


def _type_has_tag_keyword(t):
    """Does the C spelling of t contain a struct/union/enum keyword?"""
    if t.get('fp') is not None:
        fp = t['fp']
        return _type_has_tag_keyword(fp['ret']) or any(_type_has_tag_keyword(p['type']) for p in fp['params']
                                                       if not p.get('ellipsis'))
    return t.get('kind') in ('struct', 'union', 'enum')


def effective_fields(fields, _state=None):
    """Copy of `fields` whose 'private' flags are what the front end computes for the text that
    to_header_text() renders.  scanner->private is set by the /*< private >*/ and /*< public >*/
    markers, *reset to FALSE by every struct/union/enum keyword* (scannerparser.y struct_or_union,
    enum_keyword: also the keyword of a member's own type, `struct _Priv *priv;`), and sampled when
    the member's `;` has been read (struct_declaration).  The renderer emits a marker only when the
    model flag differs from the previous member's, so a private member spelled with a tag keyword,
    and the members after it, come out public; and the state a nested anonymous struct/union ends
    in leaks to the members that follow it."""
    st = _state if _state is not None else [False]
    out = []
    believed = False                      # _fields_text's own idea of the marker state
    for f in fields:
        want = bool(f.get('private'))
        if want != believed:
            believed = want
            st[0] = want                  # marker rendered before the member
        g = dict(f)
        if f.get('anon'):
            st[0] = False                 # keyword of the nested compound
            g['fields'] = effective_fields(f['fields'], st)
        elif _type_has_tag_keyword(f['type']):
            st[0] = False
        g['private'] = st[0]
        out.append(g)
    return out


def _fields(fields, cx, _effective=False):
    if not _effective:
        fields = effective_fields(fields)
    out = []
    for f in fields:
        if f.get('anon'):
            kind = CT_STRUCT if f['anon'] == 'struct' else CT_UNION
            base = T(kind, None, None, 0, children=_fields(f['fields'], cx, True))
            for d in reversed(f.get('dims', [])):
                base = _array(d, base, cx)
            s = S(SYM_MEMBER, f.get('name'), base, cx.line, cx.file, private=bool(f.get('private')))
        else:
            # `T : 3;` (struct_declarator ':' constant_expression) makes a fresh symbol: no const_int
            bits = f.get('bits') if f.get('name') is not None else None
            s = S(SYM_MEMBER, f['name'], _type_chain(f['type'], cx), cx.line, cx.file,
                  private=bool(f.get('private')), const_int=bits)
        out.append(s)
    return out


def enum_values(members):
    """Explicit values as written, implicit ones counting up from the previous."""
    vals = []
    last = -1
    for m in members:
        v = m.get('value')
        if v is None:
            v = last + 1
        last = v
        vals.append(v)
    return vals


def _s32(v):
    v &= (1 << 32) - 1
    return v - (1 << 32) if v >= (1 << 31) else v


def frontend_enum_values(members):
    """What scannerparser.y computes: explicit values are gint64, but the running value for the
    implicit ones is kept in `static int last_enum_value` (line 53, 1142, 1151), so it is truncated
    to 32 bits after every enumerator.  enum_values() above is the C meaning."""
    vals = []
    last = -1
    for m in members:
        v = m.get('value')
        if v is None:
            last = _s32(last + 1)
            v = last
        else:
            v = _s64(v)
            last = _s32(v)
        vals.append(v)
    return vals


def cast_is_lexed_as_type(t):
    """During the macro scan the lexer returns IDENTIFIER/TYPEDEF_NAME for every word that is not
    matched by a rule placed before scannerlexer.l line 207: `int`, `unsigned`, `char`, `const`,
    `struct`, `void` ... are plain identifiers there, so `((unsigned char) 5)` is a syntax error and
    the macro yields no symbol.  Only typedef names (and _Bool/bool) make a cast."""
    if t.get('fp') is not None or t.get('q'):
        return False
    if t['kind'] == 'typedef':
        return True
    return t['kind'] == 'basic' and t['base'] in ('_Bool', 'bool')


def _s64(v):
    v &= (1 << 64) - 1
    return v - (1 << 64) if v >= (1 << 63) else v


def const_python_value(val):
    """What giscannermodule.c hands to Python for an integer macro body."""
    lit = val['lit'] & ((1 << 64) - 1)     # g_ascii_strtoull into guint64
    v = lit
    if val.get('neg'):
        v = -v
    if val.get('compl'):
        v = ~v
    v &= (1 << 64) - 1
    if val.get('usuffix'):
        return v                            # PyLong_FromUnsignedLongLong
    return _s64(v)                          # PyLong_FromLongLong


def to_symbols(decls, default_file='/src/foo.h'):
    """Returns raw symbols in the order SourceScanner.get_symbols() yields them:
    everything from parse_files first, then the macro scan's symbols."""
    stubscanner.install()
    cx = _Ctx(default_file)
    normal, macros = [], []
    for d in decls:
        cx.line += 2
        if d.get('line') is not None:
            cx.line = d['line']
        if 'file' in d and d['file'] is None:
            continue        # declared in an included, not scanned, header
        cx.file = d.get('file', default_file)
        if cx.file.endswith(('.c', '.cpp')) and d['d'] not in ('const', 'macro'):
            continue        # .c files are only lexed for comments
        k = d['d']
        if k == 'function':
            spec = None
            chain = _type_chain(d['ret'], cx, fspec=FUNCTION_INLINE if d.get('inline') else 0)
            func = T(CT_FUNCTION, None, chain, 0, children=_params(d['params'], cx))
            normal.append(S(SYM_FUNCTION, d['name'], func, cx.line, cx.file))
        elif k == 'typedef':
            normal.append(S(SYM_TYPEDEF, d['name'], _type_chain(d['type'], cx, storage=STORAGE_TYPEDEF),
                            cx.line, cx.file))
        elif k == 'callback':
            ret = _type_chain(d['ret'], cx, storage=STORAGE_TYPEDEF)
            func = T(CT_FUNCTION, None, ret, 0, children=_params(d['params'], cx))
            base = T(CT_POINTER, None, func, 0) if d.get('ptr', True) else func
            normal.append(S(SYM_TYPEDEF, d['name'], base, cx.line, cx.file))
        elif k == 'compound':
            ckind = CT_STRUCT if d['kind'] == 'struct' else CT_UNION
            skind = SYM_STRUCT if d['kind'] == 'struct' else SYM_UNION
            has_body = d.get('fields') is not None
            kids = _fields(d['fields'], cx) if has_body else []
            if d.get('tag') and has_body:
                normal.append(S(skind, d['tag'], T(ckind, d['tag'], None, 0, children=kids),
                                d.get('line_body') or cx.line, cx.file))
            if d.get('typedef'):
                base = T(ckind, d.get('tag'), None, 0, children=kids, storage=STORAGE_TYPEDEF)
                for q in d.get('typedef_ptrs', []):
                    base = T(CT_POINTER, None, base, q)
                normal.append(S(SYM_TYPEDEF, d['typedef'], base, cx.line, cx.file))
        elif k == 'enum':
            vals = frontend_enum_values(d['members'])
            kids = [S(SYM_OBJECT, m['name'], None, cx.line, cx.file, private=bool(m.get('private')),
                      const_int=_s64(v)) for m, v in zip(d['members'], vals)]
            isbf = 1 if (d.get('flags') or any(m.get('shift') for m in d['members'])) else 0
            if d.get('name'):
                normal.append(S(SYM_TYPEDEF, d['name'],
                                T(CT_ENUM, d.get('tag'), None, 0, children=kids, is_bitfield=isbf,
                                  storage=STORAGE_TYPEDEF), cx.line, cx.file))
            # a bare `enum tag {...};` produces no symbol
        elif k == 'var':
            normal.append(S(SYM_OBJECT, d['name'], _type_chain(d['type'], cx), cx.line, cx.file))
        elif k == 'const':
            v = d['value']
            kw = {}
            if v['k'] == 'int':
                kw['const_int'] = const_python_value(v)
            elif v['k'] == 'str':
                kw['const_string'] = v['s']
            elif v['k'] == 'double':
                kw['const_double'] = float(v['f'])
            elif v['k'] == 'bool':
                kw['const_boolean'] = bool(v['b'])
            base = None
            if v.get('cast') is not None:
                if not cast_is_lexed_as_type(v['cast']):
                    continue        # syntax error in the macro scan: nothing is emitted
                if v['k'] != 'bool':
                    # type_name: specifier_qualifier_list abstract_declarator has no action, so
                    # $$ = $1: pointer stars of the cast are dropped (scannerparser.y 1330-1333)
                    base = _spec(v['cast'])
            elif v.get('wrap') in ('G_GINT64_CONSTANT', 'G_GUINT64_CONSTANT'):
                uns = v.get('wrap') == 'G_GUINT64_CONSTANT' or v.get('usuffix')
                base = T(CT_BASIC, 'guint64' if uns else 'gint64')
            macros.append(S(SYM_CONST, d['name'], base, cx.line, cx.file, **kw))
        elif k == 'macro':
            kids = [S(SYM_ELLIPSIS, None, None, cx.line, cx.file) if p == '...'
                    else S(SYM_INVALID, p, None, cx.line, cx.file) for p in d['params']]
            macros.append(S(SYM_FUNCTION_MACRO, d['name'], T(CT_FUNCTION, None, None, 0, children=kids),
                            cx.line, cx.file))
        else:
            raise ValueError('unknown decl kind %r' % (k,))
    return normal + macros


def wrap_symbols(raw):
    stubscanner.install()
    from giscanner.sourcescanner import SourceSymbol
    return [SourceSymbol(None, r) for r in raw]


# ---------------------------------------------------------------- to_header_text
def _q(q):
    s = ''
    if q & CONST:
        s += 'const '
    if q & VOLATILE:
        s += 'volatile '
    return s


def _spec_text(t):
    k = t['kind']
    base = t['base']
    if k in ('struct', 'union', 'enum'):
        base = '%s %s' % (k, base)
    return _q(t.get('q', 0)) + base


def decl_text(t, name):
    """C declarator text for `name` of type t."""
    name = name or ''
    if t.get('fp') is not None:
        fp = t['fp']
        inner = '(*%s%s)' % (name, ''.join('[%s]' % ('' if d is None else d) for d in t.get('dims', [])))
        return decl_text(fp['ret'], inner + '(' + _params_text(fp['params']) + ')')
    stars = ''
    for q in t.get('ptrs', []):
        stars += '*' + (' ' + _q(q) if q else '')
    dims = ''.join('[%s]' % ('' if d is None else d) for d in t.get('dims', []))
    return ('%s %s%s%s' % (_spec_text(t), stars, name, dims)).rstrip()


def _params_text(params):
    if not params:
        return 'void'
    out = []
    for p in params:
        if p.get('ellipsis'):
            out.append('...')
        else:
            out.append(decl_text(p['type'], p.get('name')))
    return ', '.join(out)


def _fields_text(fields, indent='  '):
    out = []
    priv = False
    for f in fields:
        if bool(f.get('private')) != priv:
            priv = bool(f.get('private'))
            out.append('%s/*< %s >*/' % (indent, 'private' if priv else 'public'))
        if f.get('anon'):
            out.append('%s%s {' % (indent, f['anon']))
            out.extend(_fields_text(f['fields'], indent + '  '))
            dims = ''.join('[%s]' % ('' if d is None else d) for d in f.get('dims', []))
            out.append('%s} %s%s;' % (indent, f.get('name') or '', dims))
        else:
            bits = ' : %d' % f['bits'] if f.get('bits') is not None else ''
            out.append('%s%s%s;' % (indent, decl_text(f['type'], f['name']), bits))
    return out


def const_text(v):
    if v['k'] == 'int':
        s = ('0x%x' % v['lit']) if v.get('hex') else str(v['lit'])
        if v.get('usuffix'):
            s += 'U'
        if v.get('wrap'):
            s = '%s (%s)' % (v['wrap'], s)
        if v.get('neg'):
            s = '-' + s
        if v.get('compl'):
            s = '~' + s
        if v.get('cast') is not None:
            s = '((%s) %s)' % (decl_text(v['cast'], ''), s)
        return s
    if v['k'] == 'str':
        return '"' + ''.join(_c_escape(c) for c in v['s']) + '"'
    if v['k'] == 'double':
        return repr(float(v['f']))
    return 'TRUE' if v['b'] else 'FALSE'


def _c_escape(c):
    if c == '"':
        return '\\"'
    if c == '\\':
        return '\\\\'
    if c == '\n':
        return '\\n'
    if c == '\t':
        return '\\t'
    if ord(c) < 0x20 or ord(c) == 0x7f:
        return '\\%03o' % ord(c)
    return c


def to_header_text(decls, only_file=None):
    out = []
    for d in decls:
        if only_file is not None and d.get('file', '/src/foo.h') != only_file:
            continue
        k = d['d']
        if k == 'function':
            out.append('%s%s (%s);' % ('static inline ' if d.get('inline') else '',
                                        decl_text(d['ret'], d['name']), _params_text(d['params'])))
        elif k == 'typedef':
            out.append('typedef %s;' % decl_text(d['type'], d['name']))
        elif k == 'callback':
            nm = '(*%s)' % d['name'] if d.get('ptr', True) else d['name']
            out.append('typedef %s (%s);' % (decl_text(d['ret'], nm), _params_text(d['params'])))
        elif k == 'compound':
            head = d['kind'] + (' ' + d['tag'] if d.get('tag') else '')
            if d.get('fields') is not None:
                body = ' {\n' + '\n'.join(_fields_text(d['fields']) or ['  /* no fields */']) + '\n}'
            else:
                body = ''
            if d.get('typedef'):
                stars = ''.join('*' + (' ' + _q(q) if q else '') for q in d.get('typedef_ptrs', []))
                out.append('typedef %s%s %s%s;' % (head, body, stars, d['typedef']))
            else:
                out.append('%s%s;' % (head, body))
        elif k == 'enum':
            lines = []
            priv = False
            for m in d['members']:
                if bool(m.get('private')) != priv:
                    priv = bool(m.get('private'))
                    lines.append('  /*< %s >*/' % ('private' if priv else 'public'))
                if m.get('value') is None:
                    lines.append('  %s,' % m['name'])
                elif m.get('shift'):
                    # always spelled with `<<` so that the text sets is_bitfield like to_symbols does
                    v = abs(m['value'])
                    tz = (v & -v).bit_length() - 1 if v else 0
                    txt = '%d << %d' % (v >> tz, tz)
                    lines.append('  %s = %s,' % (m['name'], txt if m['value'] >= 0 else '-(%s)' % txt))
                else:
                    lines.append('  %s = %d,' % (m['name'], m['value']))
            flags = ' /*< flags >*/' if d.get('flags') else ''
            tag = ' ' + d['tag'] if d.get('tag') else ''
            if d.get('name'):
                out.append('typedef enum%s%s {\n%s\n} %s;' % (flags, tag, '\n'.join(lines), d['name']))
            else:
                out.append('enum%s%s {\n%s\n};' % (flags, tag, '\n'.join(lines)))
        elif k == 'var':
            out.append('extern %s;' % decl_text(d['type'], d['name']))
        elif k == 'const':
            out.append('#define %s %s' % (d['name'], const_text(d['value'])))
        elif k == 'macro':
            out.append('#define %s(%s) do { } while (0)' % (d['name'], ', '.join(d['params'])))
    return '\n\n'.join(out) + '\n'
