"""Persistent pipeline worker: reads one JSON request per line on stdin, runs the scanner pipeline
(substrate P) and writes one JSON reply per line. Started by checks that need to vary process-level
state (PYTHONHASHSEED for C16).  Request: {'case': ..., 'cache': bool, 'xdg': dir|None, 'scratch': dir}
Reply: {'gir': str|None, 'fatal': str|None, 'error': str|None, 'ndiags': int}"""
import json
import os
import sys
import traceback


def main():
    sys.path.insert(0, os.path.dirname(os.path.dirname(os.path.abspath(__file__))))
    from vlib import pipeline
    pipeline.M()
    out = sys.stdout
    out.write(json.dumps({'ready': True, 'hashseed': os.environ.get('PYTHONHASHSEED')}) + '\n')
    out.flush()
    for line in sys.stdin:
        req = json.loads(line)
        rep = {'gir': None, 'fatal': None, 'error': None, 'ndiags': 0}
        try:
            if req.get('xdg'):
                os.environ['XDG_CACHE_HOME'] = req['xdg']
            res = pipeline.run(req['case'], req['scratch'], cache=bool(req.get('cache')))
            rep['fatal'] = res.fatal
            rep['gir'] = res.gir.decode('utf-8') if res.gir is not None else None
            rep['ndiags'] = len(res.diags)
            rep['diags'] = sorted(set(d.text for d in res.diags))[:50]
        except Exception as e:
            rep['error'] = '%s: %s' % (type(e).__name__, e)
            rep['trace'] = traceback.format_exc()[-1500:]
        out.write(json.dumps(rep) + '\n')
        out.flush()


if __name__ == '__main__':
    main()
