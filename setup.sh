#!/bin/sh
# Offline setup: hypothesis into /venv (already there on this image; idempotent),
# atheris into /verif/.deps for the fuzz targets.
set -e
cd "$(dirname "$0")"
/venv/bin/python -c 'import hypothesis' 2>/dev/null || \
  /venv/bin/pip install --no-index --find-links /opt/veriftools/wheels hypothesis
if [ ! -d .deps/atheris ]; then
  /venv/bin/pip install --no-index --find-links /opt/veriftools/wheels --target .deps atheris >/dev/null 2>&1 || \
    echo "atheris not installable; fuzz campaigns (thorough tier only) will be skipped"
fi
exit 0
