#!/venv/bin/python
"""Confirm an independently written bug injection and run our check against it.

usage: tools/seedtest.py <ID> <seed worktree> [name]
 1. in the seed worktree: demo exits 1 with patch.diff applied, 0 with it reverted
 2. the repository test-suite numbers are unchanged by the patch (267 passed)
 3. our quick check, run against a scratch copy of /repo + patch (VERIF_REPO), must report a violation
Keeps patch.diff, the demo and meta.json (extended with what was run) under /verif/seeded/<ID>/<name>/.
"""
import json
import os
import re
import shutil
import subprocess
import sys
import tempfile

VERIF = os.path.dirname(os.path.dirname(os.path.abspath(__file__)))


def sh(cmd, cwd=None, env=None, timeout=3600):
    p = subprocess.run(cmd, shell=True, cwd=cwd, env=env, stdout=subprocess.PIPE, stderr=subprocess.STDOUT, text=True, timeout=timeout)
    return p.returncode, p.stdout


def main():
    pid, wt = sys.argv[1].upper(), sys.argv[2].rstrip('/')
    name = sys.argv[3] if len(sys.argv) > 3 else 'seed1'
    extra_checks = [c.upper() for c in sys.argv[4:]]
    demo = sorted(f for f in os.listdir(wt) if f.startswith('demo_') and os.path.isfile(os.path.join(wt, f)))
    if not demo or not os.path.exists(os.path.join(wt, 'patch.diff')):
        print('missing demo or patch.diff in', wt)
        return 2
    demo = demo[0]
    runner = {'py': '/venv/bin/python %s' % demo, 'sh': 'sh %s' % demo}.get(demo.rsplit('.', 1)[-1], './' + demo)
    report = {'ran': []}
    # 1. demo with / without
    rc, out = sh('git apply -R --check patch.diff', cwd=wt)
    applied = rc == 0
    if not applied:
        sh('git apply patch.diff', cwd=wt)
    rc1, out1 = sh(runner, cwd=wt)
    sh('git apply -R patch.diff', cwd=wt)
    rc0, out0 = sh(runner, cwd=wt)
    sh('git apply patch.diff', cwd=wt)
    report['demo_with_patch_rc'] = rc1
    report['demo_without_patch_rc'] = rc0
    report['ran'].append('%s in the seed worktree with patch.diff applied (exit %d) and reverted (exit %d)' % (runner, rc1, rc0))
    ok_demo = (rc1 != 0 and rc0 == 0)
    # 2. test suite
    rc, out = sh('/venv/bin/python -m pytest -q -p no:cacheprovider --timeout=900 --continue-on-collection-errors 2>&1 | tail -1', cwd=wt)
    m = re.search(r'(\d+) passed', out)
    report['suite_with_patch'] = out.strip()
    ok_suite = bool(m) and int(m.group(1)) == 267
    report['ran'].append('pytest in the seed worktree with the patch applied: %s' % out.strip())
    # 3. our checks against /repo + patch
    base = tempfile.mkdtemp(prefix='verif-seedtest-')
    results = {}
    try:
        repo = os.path.join(base, 'repo')
        seed_base = os.environ.get('SEED_BASE')
        if seed_base:
            # the injection was written against an older /repo (a later fix: commit touches the same lines)
            os.makedirs(repo)
            sh('git -C /repo archive %s | tar -x -C %s' % (seed_base, repo))
            report['base'] = seed_base
        else:
            subprocess.check_call(['rsync', '-a', '--exclude', '.git', '/repo/', repo + '/'])
        rc, out = sh('patch -p1 --no-backup-if-mismatch < %s' % os.path.join(wt, 'patch.diff'), cwd=repo)
        if rc != 0:
            print('patch does not apply to /repo copy:\n' + out)
            return 2
        for cid in [pid] + extra_checks:
            env = dict(os.environ, VERIF_REPO=repo, VERIF_OUT=os.path.join(base, 'out'))
            tier = os.environ.get('SEED_TIER', 'quick')
            rc, out = sh('%s %s --tier %s' % (os.path.join(VERIF, 'run_check.py'), cid, tier), env=env, timeout=7200)
            buckets = [l for l in out.splitlines() if l.startswith('violation bucket')]
            results[cid] = {'exit': rc, 'buckets': [b[:300] for b in buckets[:5]], 'summary': out.strip().splitlines()[-1][:300] if out.strip() else ''}
            report['ran'].append('VERIF_REPO=<copy of /repo%s + patch> run_check.py %s --tier %s -> exit %d'
                                 % (' at ' + seed_base if seed_base else '', cid, tier, rc))
            # keep the shrunk replay of the first bucket
            vd = os.path.join(base, 'out', 'violations', cid)
            if os.path.isdir(vd):
                dst = os.path.join(VERIF, 'seeded', pid, name)
                os.makedirs(dst, exist_ok=True)
                for f in sorted(os.listdir(vd))[:2]:
                    shutil.copy(os.path.join(vd, f), os.path.join(dst, 'caught-%s-%s' % (cid, f)))
    finally:
        shutil.rmtree(base, ignore_errors=True)
    dst = os.path.join(VERIF, 'seeded', pid, name)
    os.makedirs(dst, exist_ok=True)
    shutil.copy(os.path.join(wt, 'patch.diff'), dst)
    shutil.copy(os.path.join(wt, demo), dst)
    for extra in os.listdir(wt):
        if extra.startswith('demo_') and os.path.isdir(os.path.join(wt, extra)):
            shutil.copytree(os.path.join(wt, extra), os.path.join(dst, extra), dirs_exist_ok=True)
    meta = {}
    if os.path.exists(os.path.join(wt, 'meta.json')):
        try:
            meta = json.load(open(os.path.join(wt, 'meta.json')))
        except Exception:
            meta = {'raw': open(os.path.join(wt, 'meta.json')).read()}
    meta['property'] = pid
    meta['confirmed'] = {'demo_discriminates': ok_demo, 'test_suite_unchanged': ok_suite}
    meta['our_checks'] = results
    meta['what_was_run'] = report['ran']
    meta['detected'] = any(r['exit'] == 1 for r in results.values())
    json.dump(meta, open(os.path.join(dst, 'meta.json'), 'w'), indent=1)
    print(json.dumps({'demo_ok': ok_demo, 'suite_ok': ok_suite, 'checks': results}, indent=1))
    return 0


if __name__ == '__main__':
    sys.exit(main())
