#!/venv/bin/python
"""Round-trip self-test of vlib/ctext.py against vlib/cmodel.py:
   ctext.parse_header(cmodel.to_header_text(m), lines=False) == ctext.normalise(m)  for Hypothesis-generated models
   (and cmodel.to_symbols(m) does not raise).   /venv/bin/python tools/ctext_roundtrip.py [N]   (default 500)"""
import json
import os
import sys
sys.path.insert(0, os.path.dirname(os.path.dirname(os.path.abspath(__file__))))
from hypothesis import given, settings, strategies as st, HealthCheck
from vlib import cmodel, ctext
from vlib.cmodel import CONST, VOLATILE

BASICS = ['int', 'char', 'unsigned int', 'unsigned long', 'long long', 'double', 'float', 'signed char', 'short', '_Bool', 'unsigned']
TYPEDEFS = ['gint', 'guint8', 'gchar', 'gpointer', 'GObject', 'GList', 'gboolean']
idents = st.sampled_from(['a', 'b', 'value', 'data', 'x1', 'user_data', 'n_items'])
quals = st.sampled_from([0, 0, 0, CONST, VOLATILE, CONST | VOLATILE])

@st.composite
def plain_type(draw, allow_void=True, dims=False):
    k = draw(st.sampled_from(['basic', 'basic', 'typedef', 'struct', 'union', 'enum', 'void']))
    ptrs = draw(st.lists(st.sampled_from([0, 0, CONST]), max_size=3))
    if k == 'void':
        if not ptrs:
            ptrs = [0]
        base = 'void'
    elif k == 'basic':
        base = draw(st.sampled_from(BASICS))
    elif k == 'typedef':
        base = draw(st.sampled_from(TYPEDEFS))
    else:
        base = draw(st.sampled_from(['_FooTag', 'FooTag2']))
    t = cmodel.ty(base, kind=k, q=draw(quals), ptrs=ptrs)
    if dims:
        t['dims'] = draw(st.lists(st.one_of(st.none(), st.integers(1, 20)), max_size=2))
        if None in t['dims'][1:]:
            t['dims'] = [d or 3 for d in t['dims']]
    return t

@st.composite
def params(draw, depth=0):
    ps = []
    for i in range(draw(st.integers(0, 3))):
        t = draw(any_type(depth + 1, dims=True))
        nm = draw(st.one_of(st.none(), st.just('p%d' % i)))
        ps.append({'name': nm, 'type': t})
    if ps and draw(st.integers(0, 4)) == 0:
        ps.append({'ellipsis': True})
    # a lone unnamed `void` is not expressible; plain_type never yields bare void
    return ps

@st.composite
def any_type(draw, depth=0, dims=False):
    if depth < 2 and draw(st.integers(0, 4)) == 0:
        t = {'fp': {'ret': draw(ret_type()), 'params': draw(params(depth))}}
        if dims and draw(st.booleans()):
            t['dims'] = [draw(st.integers(1, 4))]
        return t
    return draw(plain_type(dims=dims))

@st.composite
def ret_type(draw):
    if draw(st.integers(0, 3)) == 0:
        return cmodel.ty('void', q=0)
    return draw(plain_type())

@st.composite
def fields(draw, depth=0):
    out = []
    n = draw(st.integers(1, 5))
    for i in range(n):
        priv = draw(st.sampled_from([False, False, True]))
        r = draw(st.integers(0, 9))
        if r == 0 and depth < 2:
            out.append({'name': draw(st.one_of(st.none(), st.just('u%d' % i))), 'anon': draw(st.sampled_from(['struct', 'union'])),
                        'fields': draw(fields(depth + 1)), 'private': priv})
            if out[-1]['name'] and draw(st.booleans()):
                out[-1]['dims'] = [2]
        elif r == 1:
            out.append({'name': draw(st.one_of(st.none(), st.just('bf%d' % i))), 'type': cmodel.ty(draw(st.sampled_from(['int', 'unsigned int', 'guint8']))),
                        'bits': draw(st.integers(1, 8)), 'private': priv})
        else:
            out.append({'name': 'f%d' % i, 'type': draw(any_type(depth, dims=True)), 'private': priv})
    return out

@st.composite
def const_value(draw):
    k = draw(st.sampled_from(['int', 'int', 'str', 'double', 'bool']))
    if k == 'int':
        v = {'k': 'int', 'lit': draw(st.one_of(st.integers(0, 300), st.integers(0, 2 ** 64 - 1))),
             'neg': draw(st.booleans()), 'compl': draw(st.booleans()), 'usuffix': draw(st.booleans()), 'hex': draw(st.booleans())}
        r = draw(st.integers(0, 3))
        if r == 0:
            v['wrap'] = draw(st.sampled_from(['G_GINT64_CONSTANT', 'G_GUINT64_CONSTANT']))
        if draw(st.booleans()):
            v['cast'] = cmodel.ty(draw(st.sampled_from(['guint8', 'gint', 'unsigned char', 'int', 'unsigned long'])))
        return v
    if k == 'str':
        return {'k': 'str', 's': draw(st.text(alphabet=st.sampled_from(list('ab <>&"\'\\\n\t\x01\x7fé中%?')), max_size=10))}
    if k == 'double':
        return {'k': 'double', 'f': draw(st.sampled_from([0.0, 1.5, 3.141592653589793, 1e10, 0.000001, 123456.789, 1e-300]))}
    return {'k': 'bool', 'b': draw(st.booleans())}

@st.composite
def decl(draw, i):
    k = draw(st.sampled_from(['function', 'typedef', 'callback', 'compound', 'compound', 'enum', 'const', 'macro', 'var']))
    nm = 'foo_n%d' % i
    if k == 'function':
        return {'d': k, 'name': nm, 'ret': draw(ret_type()), 'params': draw(params()), 'inline': draw(st.booleans())}
    if k == 'typedef':
        return {'d': k, 'name': 'FooT%d' % i, 'type': draw(any_type(dims=True))}
    if k == 'callback':
        return {'d': k, 'name': 'FooCb%d' % i, 'ret': draw(ret_type()), 'params': draw(params()), 'ptr': draw(st.booleans())}
    if k == 'compound':
        tag = draw(st.one_of(st.none(), st.just('_FooS%d' % i)))
        td = draw(st.one_of(st.none(), st.just('FooS%d' % i)))
        fl = draw(st.one_of(st.none(), fields()))
        if tag is None and td is None:
            td = 'FooS%d' % i
        if tag is None and fl is None:
            tag = '_FooS%d' % i
        d = {'d': k, 'kind': draw(st.sampled_from(['struct', 'union'])), 'tag': tag, 'typedef': td, 'fields': fl}
        if td and draw(st.integers(0, 3)) == 0:
            d['typedef_ptrs'] = draw(st.lists(st.sampled_from([0, CONST]), min_size=1, max_size=2))
        return d
    if k == 'enum':
        ms = []
        for j in range(draw(st.integers(1, 5))):
            r = draw(st.integers(0, 4))
            m = {'name': 'FOO_E%d_M%d' % (i, j), 'value': None}
            if r == 1:
                m['value'] = draw(st.integers(-5, 300))
            elif r == 2:
                m['value'] = draw(st.sampled_from([1, 2, 4, 12, 0, 1 << 30, 3 << 40, -8]))
                m['shift'] = True
            elif r == 3:
                m['value'] = draw(st.sampled_from([2 ** 31 - 1, 2 ** 31, 2 ** 32, 2 ** 62, -2 ** 31, -2 ** 63]))
            if draw(st.integers(0, 5)) == 0:
                m['private'] = True
            ms.append(m)
        tag = draw(st.one_of(st.none(), st.just('_FooE%d' % i)))
        name = draw(st.one_of(st.none(), st.just('FooE%d' % i)))
        return {'d': k, 'name': name, 'tag': tag, 'flags': draw(st.booleans()), 'members': ms}
    if k == 'const':
        return {'d': k, 'name': 'FOO_C%d' % i, 'value': draw(const_value())}
    if k == 'macro':
        ps = draw(st.lists(st.sampled_from(['a', 'b', 'obj']), max_size=3, unique=True))
        if draw(st.integers(0, 3)) == 0:
            ps.append('...')
        return {'d': k, 'name': 'FOO_M%d' % i, 'params': ps}
    return {'d': k, 'name': nm, 'type': draw(plain_type(dims=True))}

@st.composite
def model(draw):
    return [draw(decl(i)) for i in range(draw(st.integers(1, 6)))]

def run(n):
    """-> (examples run, failure text or None)"""
    count = [0]

    @settings(max_examples=n, deadline=None, suppress_health_check=list(HealthCheck), database=None)
    @given(model())
    def test(m):
        count[0] += 1
        text = cmodel.to_header_text(m)
        try:
            got = ctext.parse_header(text, lines=False)
        except ctext.Unsupported as e:
            raise AssertionError('Unsupported: %s\n%s\n%s' % (e, text, json.dumps(m)))
        exp = ctext.normalise(m)
        if got != exp:
            for a, b in zip(got, exp):
                if a != b:
                    raise AssertionError('MISMATCH\n%s\n got %s\n exp %s' % (text, json.dumps(a), json.dumps(b)))
            raise AssertionError('length %d vs %d\n%s' % (len(got), len(exp), text))
        cmodel.to_symbols(m)

    try:
        test()
    except AssertionError as e:
        return count[0], str(e)
    except BaseException as e:      # ExceptionGroup from Hypothesis
        return count[0], repr(e)[:2000]
    return count[0], None


if __name__ == '__main__':
    n, err = run(int(sys.argv[1]) if len(sys.argv) > 1 else 500)
    print('%d models: %s' % (n, 'ok' if err is None else err))
    sys.exit(0 if err is None else 1)
