#!/venv/bin/python
"""Print the seeded-change table of DESIGN.md section 10 from seeded/*/*/meta.json and mutants/*.json."""
import glob, json, os
VERIF = os.path.dirname(os.path.dirname(os.path.abspath(__file__)))
print('| Property | seed | files | what it breaks / needs | detected by | history |\n|---|---|---|---|---|---|')
for p in sorted(glob.glob(os.path.join(VERIF, 'seeded', '*', '*', 'meta.json'))):
    m = json.load(open(p))
    pid, name = p.split(os.sep)[-3], p.split(os.sep)[-2]
    det = ', '.join('%s (exit %s)' % (k, v['exit']) for k, v in sorted(m.get('our_checks', {}).items()))
    what = (str(m.get('what_it_breaks', ''))[:260] + ' // NEEDS: ' + str(m.get('needs_to_manifest', ''))[:260]).replace('|', '/').replace('\n', ' ')
    print('| %s | %s | %s | %s | %s | %s |' % (pid, name, ', '.join(m.get('files', []))[:80] if isinstance(m.get('files'), list) else str(m.get('files'))[:80],
                                              what, det, str(m.get('history', '')).replace('|', '/').replace('\n', ' ')))
print()
print('| Property | catalogued mutants (tools/mutants.py, quick tier) |\n|---|---|')
for p in sorted(glob.glob(os.path.join(VERIF, 'mutants', '*.json'))):
    c = json.load(open(p))
    print('| %s | %d: %s |' % (os.path.basename(p)[:-5], len(c), ', '.join(m['name'] for m in c)))
