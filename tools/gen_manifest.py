#!/venv/bin/python
"""Regenerate MANIFEST.json from the check modules that exist."""
import importlib
import json
import os
import sys

VERIF = os.path.dirname(os.path.dirname(os.path.abspath(__file__)))
sys.path.insert(0, VERIF)
os.environ.setdefault('PYTHONHASHSEED', '0')

ALL = ['C%02d' % i for i in range(1, 21)]
PENDING_REASON = 'check not yet built in this round (planned, see DESIGN.md section 7); not claimed until it runs quietly on the unchanged tree'


def main():
    checks = []
    na = []
    overrides = {}
    p = os.path.join(VERIF, 'tools', 'not_applicable.json')
    if os.path.exists(p):
        overrides = json.load(open(p))
    for pid in ALL:
        if pid in overrides:
            na.append({'property_id': pid, 'reason': overrides[pid]})
            continue
        ready = open(os.path.join(VERIF, 'tools', 'ready.txt')).read().split()
        if pid not in ready:
            na.append({'property_id': pid, 'reason': PENDING_REASON})
            continue
        if not os.path.exists(os.path.join(VERIF, 'checks', pid.lower() + '.py')):
            na.append({'property_id': pid, 'reason': PENDING_REASON})
            continue
        m = importlib.import_module('checks.' + pid.lower())
        if getattr(m, 'NOT_READY', False):
            na.append({'property_id': pid, 'reason': PENDING_REASON})
            continue
        checks.append({
            'property_id': pid,
            'quick_cmd': '/venv/bin/python /verif/run_check.py %s --tier quick' % pid,
            'thorough_cmd': '/venv/bin/python /verif/run_check.py %s --tier thorough' % pid,
            'evidence_file': '/verif/evidence/%s.json' % pid,
            'replay_cmd_template': '/venv/bin/python /verif/run_check.py %s --replay {path}' % pid,
            'engine': 'hypothesis',
            'level_claimed': {'category': m.LEVEL, 'text': m.LEVEL_TEXT, 'design_ref': m.DESIGN_REF},
            'level_note': m.LEVEL_NOTE,
            'technique': m.TECHNIQUE,
        })
    man = {
        'version': 1,
        'setup_cmd': 'cd /verif && ./setup.sh',
        'hooks': {
            'guard': 'GI_VERIF',
            'enable': 'no source hooks are needed: Python is imported from /repo with a stub for the missing C front end and C is rebuilt from /repo against a header shim; GI_VERIF is reserved and unused',
            'baseline_off_cmd': 'cd /repo && /venv/bin/python -m pytest -ra -q -p no:cacheprovider --timeout=900 --continue-on-collection-errors',
            'source_commits': [],
            'add_only': True,
        },
        'engines': [
            {'name': 'hypothesis', 'path': '/verif/run_check.py', 'serves_properties': [c['property_id'] for c in checks],
             'kind_free_text': 'Hypothesis 6.168 property-based testing (structured and stateful generation, shrinking), sharded over 16 processes with seeds derived from VERIF_SEED'},
            {'name': 'atheris', 'path': '/verif/vlib/runner.py', 'serves_properties': [c['property_id'] for c in checks if c['property_id'] in ('C10', 'C11')],
             'kind_free_text': 'atheris 3.1 / libFuzzer coverage-guided stage of the thorough tier (Ctx.fuzz): libFuzzer mutates the byte stream behind the same Hypothesis strategy (fuzz_one_input) with giscanner.* instrumented for edge coverage; same oracles; skipped and reported when the wheel cannot be installed'},
        ],
        'checks': checks,
        'not_applicable': na,
        'notes': 'run_check.py <ID> --tier quick|thorough [--replay file]; exit 0 held / 1 violation / 2 harness error. Known findings (open and fixed) are listed in /verif/known_findings.json, open witnesses under /verif/known/<ID>/, fixed ones are replayed from /verif/replay/<ID>/fixed-*; independent bug injections and what caught them under /verif/seeded/. See DESIGN.md sections 8-10.',
    }
    with open(os.path.join(VERIF, 'MANIFEST.json'), 'w') as f:
        json.dump(man, f, indent=1)
        f.write('\n')
    try:
        import jsonschema
    except ImportError:
        print("MANIFEST.json written (jsonschema not available for validation)"); return
    jsonschema.validate(man, json.load(open('/root/.vp/MANIFEST.schema.json')))
    print('MANIFEST.json: %d checks, %d not_applicable' % (len(checks), len(na)))


if __name__ == '__main__':
    main()
