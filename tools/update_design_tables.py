#!/venv/bin/python
"""Regenerate the generated blocks of DESIGN.md (section 9.2 findings tables, section 10 seed/mutant tables)."""
import os, re, subprocess
VERIF = os.path.dirname(os.path.dirname(os.path.abspath(__file__)))
p = os.path.join(VERIF, 'DESIGN.md')
s = open(p).read()
def block(name, text):
    global s
    b, e = '<!-- BEGIN %s -->' % name, '<!-- END %s -->' % name
    if b not in s:
        raise SystemExit('marker %s missing' % name)
    s = s[:s.index(b) + len(b)] + '\n' + text.strip() + '\n' + s[s.index(e):]
block('FINDINGS', subprocess.check_output([os.path.join(VERIF, 'tools', 'findings_table.py')], text=True))
block('SEEDS', subprocess.check_output([os.path.join(VERIF, 'tools', 'seed_table.py')], text=True))
open(p, 'w').write(s)
print('DESIGN.md tables regenerated')
