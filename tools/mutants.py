#!/venv/bin/python
"""Sensitivity harness: apply each catalogued mutant to a scratch copy of /repo
(never to /repo itself), run the property's quick check against the copy and
report which mutants are caught.  usage: tools/mutants.py C20 [name-substring]"""
import json
import os
import shutil
import subprocess
import sys
import tempfile

VERIF = os.path.dirname(os.path.dirname(os.path.abspath(__file__)))


def main():
    pid = sys.argv[1].upper()
    only = sys.argv[2] if len(sys.argv) > 2 else None
    tier = os.environ.get('MUT_TIER', 'quick')
    cat = json.load(open(os.path.join(VERIF, 'mutants', pid + '.json')))
    base = tempfile.mkdtemp(prefix='verif-mut-')
    res = []
    try:
        repo = os.path.join(base, 'repo')
        subprocess.check_call(['rsync', '-a', '--exclude', '.git', '/repo/', repo + '/'])
        for m in cat:
            if only and only not in m['name']:
                continue
            edits = m.get('edits') or [m]
            saved = {}
            stale = False
            for e in edits:
                path = os.path.join(repo, e['file'])
                cur = open(path).read()
                saved.setdefault(path, cur)
                if cur.count(e['old']) < 1:
                    stale = True
                    break
                open(path, 'w').write(cur.replace(e['old'], e['new'], 1))
            if stale:
                for path, orig in saved.items():
                    open(path, 'w').write(orig)
                print('MUTANT %s: pattern not found (stale catalogue)' % m['name'])
                res.append((m['name'], 'stale'))
                continue
            env = dict(os.environ, VERIF_REPO=repo, VERIF_OUT=os.path.join(base, 'out'), VERIF_NOSHRINK=os.environ.get('MUT_SHRINK', '') and '' or '1')
            try:
                p = subprocess.run([os.path.join(VERIF, 'run_check.py'), pid, '--tier', tier],
                                   env=env, stdout=subprocess.PIPE, stderr=subprocess.STDOUT, text=True)
            finally:
                for path, orig in saved.items():
                    open(path, 'w').write(orig)
            last = [l for l in p.stdout.splitlines() if l.startswith(('violation bucket', 'HARNESS'))][:3]
            status = {0: 'SURVIVED', 1: 'caught', 2: 'harness-error'}.get(p.returncode, 'rc%d' % p.returncode)
            print('MUTANT %-40s %s  %s' % (m['name'], status, ' | '.join(x[:160] for x in last)))
            res.append((m['name'], status))
    finally:
        shutil.rmtree(base, ignore_errors=True)
    bad = [r for r in res if r[1] != 'caught']
    print('%d/%d caught' % (len(res) - len(bad), len(res)))
    return 1 if bad else 0


if __name__ == '__main__':
    sys.exit(main())
