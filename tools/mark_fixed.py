#!/venv/bin/python
"""Turn an open entry of known_findings.json into a fixed one after a "fix:" commit in /repo.

usage: tools/mark_fixed.py <ID> <key> <commit> [short text]
The witness moves from known/<ID>/ to replay/<ID>/fixed-<name> (it is replayed on every run from then on and must
hold); the entry keeps its description behind the "fixed: property=<ID> <commit>" prefix.
"""
import json
import os
import subprocess
import sys

VERIF = os.path.dirname(os.path.dirname(os.path.abspath(__file__)))


def main():
    pid, key, commit = sys.argv[1:4]
    path = os.path.join(VERIF, 'known_findings.json')
    d = json.load(open(path))
    hit = [f for f in d['findings'] if f['property'] == pid and f['key'] == key]
    if len(hit) != 1 or hit[0]['status'] != 'open':
        print('no single open entry', pid, key)
        return 2
    f = hit[0]
    f['status'] = 'fixed'
    f['commit'] = commit
    text = sys.argv[4] if len(sys.argv) > 4 else f['what']
    f['what'] = 'fixed: property=%s %s %s' % (pid, commit, text)
    w = f.get('witness')
    if w and os.path.exists(os.path.join(VERIF, w)):
        os.makedirs(os.path.join(VERIF, 'replay', pid), exist_ok=True)
        stem = os.path.splitext(w)[0]
        for ext in ('.json', '.gir', '.h', '.c'):
            src = os.path.join(VERIF, stem + ext)
            if os.path.exists(src):
                dst = os.path.join(VERIF, 'replay', pid, 'fixed-' + os.path.basename(src))
                os.rename(src, dst)
        f['witness'] = 'replay/%s/fixed-%s' % (pid, os.path.basename(w))
    json.dump(d, open(path, 'w'), indent=1)
    kd = os.path.join(VERIF, 'known', pid)
    if os.path.isdir(kd) and not os.listdir(kd):
        os.rmdir(kd)
    print('marked', pid, key, '->', f.get('witness'))


if __name__ == '__main__':
    sys.exit(main())
