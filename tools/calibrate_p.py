#!/venv/bin/python
"""Calibration of substrate P (DESIGN 1.2, appendix D).   cd /verif && /venv/bin/python tools/calibrate_p.py

 0. round trip: ctext.parse_header(cmodel.to_header_text(m)) == ctext.normalise(m) on hand-written models
    and on Hypothesis-generated ones (tools/ctext_roundtrip.py; --roundtrip=N, default 200, 0 to skip);
 A. upstream unit tests written against the real flex/bison front end (tests/scanner/test_transformer.py,
    test_maintransformer.py, test_sourcescanner.py) run UNCHANGED with their scanner helper replaced by
    ctext.parse_header -> cmodel.to_symbols -> cmodel.wrap_symbols;
 B. the headers shipped in tests/scanner go text -> ctext -> cmodel.to_symbols -> the repository's pipeline
    and the GIR is compared element by element with tests/scanner/<Ns>-1.0-expected.gir.

Every difference is classified (i) explained by the stand-in include GIRs / hand-written dump,
(ii) ctext/cmodel bug, (iii) unexplained.  Exit 0 iff there is no (ii)/(iii) row and no failing upstream
assertion; 2 on a harness problem."""
import importlib.util
import io
import os
import shutil
import sys
import traceback
import unittest
import xml.etree.ElementTree as ET

VERIF = os.path.dirname(os.path.dirname(os.path.abspath(__file__)))
sys.path.insert(0, VERIF)

from vlib import stubscanner, cmodel, ctext, pipeline  # noqa: E402
from vlib.runner import REPO  # noqa: E402

TESTS = os.path.join(REPO, 'tests', 'scanner')
QUIET = [False]


def say(*a):
    if not QUIET[0]:
        print(*a)


# ------------------------------------------------------------------------------------ part 0
def _hand_models():
    ty = cmodel.ty
    C = cmodel.CONST
    fp = {'fp': {'ret': ty('char', q=C, ptrs=[0]), 'params': [{'name': 'obj', 'type': ty('GObject', ptrs=[0])},
                                                              {'name': None, 'type': ty('int')}, {'ellipsis': True}]}}
    return [
        [{'d': 'compound', 'kind': 'struct', 'tag': None, 'typedef': 'FooA', 'fields': [
            {'name': 'x', 'type': ty('int')}, {'name': 'cb', 'type': fp, 'private': True},
            {'name': None, 'anon': 'union', 'fields': [{'name': 'i', 'type': ty('int')},
                                                       {'name': 'f', 'type': ty('float'), 'private': True}]},
            {'name': 'after', 'type': ty('gint')},
            {'name': 'bf', 'type': ty('unsigned int'), 'bits': 3}, {'name': None, 'type': ty('int'), 'bits': 5},
            {'name': 'grid', 'type': ty('char', ptrs=[0], dims=[2, 3])}]}],
        [{'d': 'compound', 'kind': 'struct', 'tag': '_FooB', 'typedef': None, 'fields': None},
         {'d': 'compound', 'kind': 'struct', 'tag': '_FooB', 'typedef': 'FooB', 'fields': None},
         {'d': 'compound', 'kind': 'union', 'tag': '_FooU', 'typedef': 'FooUPtr', 'typedef_ptrs': [0],
          'fields': [{'name': 'a', 'type': ty('_FooB', kind='struct', ptrs=[C, 0]), 'private': True},
                     {'name': 'b', 'type': ty('int'), 'private': True}]},
         {'d': 'typedef', 'name': 'FooAlias', 'type': ty('FooB', ptrs=[0, C])}],
        [{'d': 'enum', 'name': 'FooE', 'tag': '_FooE', 'flags': False, 'members': [
            {'name': 'FOO_E_A', 'value': None}, {'name': 'FOO_E_B', 'value': 12, 'shift': True},
            {'name': 'FOO_E_C', 'value': None, 'private': True}, {'name': 'FOO_E_D', 'value': -3}]},
         {'d': 'enum', 'name': None, 'tag': 'FooBare', 'flags': True, 'members': [{'name': 'FOO_BARE', 'value': 1 << 40}]},
         {'d': 'typedef', 'name': 'FooBareT', 'type': ty('FooBare', kind='enum')}],
        [{'d': 'function', 'name': 'foo_f', 'ret': ty('void'), 'params': [], 'inline': True},
         {'d': 'function', 'name': 'foo_g', 'ret': ty('char', q=C, ptrs=[0, C]), 'params': [
             {'name': 'cb', 'type': fp}, {'name': 'v', 'type': ty('unsigned long long', dims=[None])}]},
         {'d': 'callback', 'name': 'FooCb', 'ret': ty('gboolean'), 'params': [{'name': 'd', 'type': ty('gpointer')}]},
         {'d': 'callback', 'name': 'FooFn', 'ret': ty('void', ptrs=[0]), 'params': [], 'ptr': False},
         {'d': 'var', 'name': 'foo_v', 'type': ty('int', q=C, dims=[4])}],
        [{'d': 'const', 'name': 'FOO_I', 'value': {'k': 'int', 'lit': 255, 'hex': True, 'usuffix': True, 'compl': True,
                                                   'cast': ty('guint8')}},
         {'d': 'const', 'name': 'FOO_J', 'value': {'k': 'int', 'lit': 7, 'neg': True, 'wrap': 'G_GINT64_CONSTANT'}},
         {'d': 'const', 'name': 'FOO_K', 'value': {'k': 'int', 'lit': 7, 'cast': ty('unsigned char')}},
         {'d': 'const', 'name': 'FOO_S', 'value': {'k': 'str', 's': 'a"b\\c\n\x01é'}},
         {'d': 'const', 'name': 'FOO_D', 'value': {'k': 'double', 'f': 1e-6}},
         {'d': 'const', 'name': 'FOO_T', 'value': {'k': 'bool', 'b': True}},
         {'d': 'macro', 'name': 'FOO_M', 'params': ['a', 'b', '...']}, {'d': 'macro', 'name': 'FOO_N', 'params': []}],
    ]


def part0():
    bad = []
    models = _hand_models()
    for i, m in enumerate(models):
        text = cmodel.to_header_text(m)
        try:
            got = ctext.parse_header(text, lines=False)
        except ctext.Unsupported as e:
            bad.append('hand model %d: Unsupported: %s' % (i, e))
            continue
        exp = ctext.normalise(m)
        if got != exp:
            for a, b in zip(got, exp):
                if a != b:
                    bad.append('hand model %d: %r != %r' % (i, a, b))
                    break
            else:
                bad.append('hand model %d: %d decls parsed, %d expected' % (i, len(got), len(exp)))
        cmodel.to_symbols(m)
    print('== 0. round trip  text -> ctext == normalise(model): %d hand-written models, %d mismatches'
          % (len(models), len(bad)))
    n = 200
    for a in sys.argv[1:]:
        if a.startswith('--roundtrip='):
            n = int(a.split('=')[1])
    if n:
        sys.path.insert(0, os.path.join(VERIF, 'tools'))
        import ctext_roundtrip
        cnt, err = ctext_roundtrip.run(n)
        print('   Hypothesis: %d generated models, %s' % (cnt, 'all equal' if err is None else 'FAILED'))
        if err:
            bad.append(err)
    for b in bad:
        print('   ' + b)
    return bad


# ------------------------------------------------------------------------------------ part A
class FakeScanner(object):
    """What the upstream helpers return: get_symbols/get_comments/get_errors of a SourceScanner."""

    def __init__(self, source, filename='/src/test.h', header=True):
        self._comments = []
        self._errors = []
        if header:
            decls = ctext.parse_header(source, filename, comments=self._comments)
            self._raw = cmodel.to_symbols(decls, default_file=filename)
        else:
            self._comments = ctext.extract_comments(source, filename)
            self._raw = []

    def get_symbols(self):
        return iter(cmodel.wrap_symbols(self._raw))

    def get_comments(self):
        return list(self._comments)

    def get_errors(self):
        return list(self._errors)


def _load(name):
    path = os.path.join(TESTS, name + '.py')
    spec = importlib.util.spec_from_file_location('upstream_' + name, path)
    mod = importlib.util.module_from_spec(spec)
    spec.loader.exec_module(mod)
    return mod


class _Result(unittest.TestResult):
    def __init__(self):
        unittest.TestResult.__init__(self)
        self.rows = []

    def addSuccess(self, test):
        self.rows.append((test.id(), 'pass', ''))

    def addFailure(self, test, err):
        self.rows.append((test.id(), 'FAIL', ''.join(traceback.format_exception_only(err[0], err[1])).strip()[:300]))

    def addError(self, test, err):
        if issubclass(err[0], ctext.Unsupported):
            self.rows.append((test.id(), 'outside-model', str(err[1])[:200]))
        else:
            self.rows.append((test.id(), 'ERROR', ''.join(traceback.format_exception(*err))[-600:]))

    def addSkip(self, test, reason):
        self.rows.append((test.id(), 'skip', reason))


def partA():
    pipeline.M()
    from giscanner import message
    rows = []
    for name in ('test_transformer', 'test_maintransformer', 'test_sourcescanner'):
        message.MessageLogger._instance = None
        try:
            mod = _load(name)
        except Exception as e:          # noqa
            rows.append((name, 'ERROR', 'cannot import: %r' % (e,)))
            continue
        if hasattr(mod, 'create_scanner_from_source_string'):
            mod.create_scanner_from_source_string = lambda source: FakeScanner(source)
        if name == 'test_sourcescanner':
            mod.Test._parse_files = lambda self, code, header=True: FakeScanner(code, '/src/test.h' if header else '/src/test.c', header)
        suite = unittest.defaultTestLoader.loadTestsFromModule(mod)
        res = _Result()
        err, sys.stderr = sys.stderr, io.StringIO()
        try:
            suite.run(res)
        finally:
            captured, sys.stderr = sys.stderr.getvalue(), err
        rows.extend(res.rows)
        message.MessageLogger._instance = None
    say('\n== A. upstream unit tests under ctext -> cmodel.to_symbols')
    for tid, status, detail in rows:
        say('   %-14s %s' % (status, tid.replace('upstream_', '')))
        if detail:
            say('                  %s' % detail.replace('\n', '\n                  '))
    counts = {}
    for _, status, _ in rows:
        counts[status] = counts.get(status, 0) + 1
    say('   totals: ' + ', '.join('%s=%d' % kv for kv in sorted(counts.items())))
    return rows


# ------------------------------------------------------------------------------------ part B
def _dump(*items):
    return '<?xml version="1.0"?>\n<dump>\n%s</dump>\n' % ''.join('  %s\n' % i for i in items)


def _cls(name, get_type):
    return '<class name="%s" get-type="%s" parents="GObject">\n  </class>' % (name, get_type)


def _boxed(name, get_type):
    return '<boxed name="%s" get-type="%s"/>' % (name, get_type)


PY = sys.executable
# options: tests/scanner/meson.build (custom_target 'gir-*'); dumps: what gdump.c prints for the types the
# matching .c file registers (G_DEFINE_TYPE / G_DEFINE_BOXED_TYPE / *_error_quark), written by hand.
LIBS = [
    dict(ns='Typedefs', files=['typedefs.c', 'typedefs.h'], id_prefixes=['Typedefs'], sym_prefixes=['typedefs'],
         includes=['GObject-2.0'], packages=['gobject-2.0'], libs=['libtypedef-1.0.so'], c_includes=['typedefs.h'],
         doc_format='gtk-doc-markdown',
         dump=_dump(*[_boxed('TypedefsBoxed' + n, 'typedefs_boxed_%s_get_type' % f) for n, f in (
             ('WithTypedefBefore', 'with_typedef_before'), ('WithTypedefAfter', 'with_typedef_after'),
             ('WithTagAndTypedef', 'with_tag_and_typedef'), ('WithAnonymousTypedef', 'with_anonymous_typedef'),
             ('WithHiddenStruct', 'with_hidden_struct'))])),
    dict(ns='Bar', files=['barapp.c', 'barapp.h'], accept_unprefixed=True, includes=['GObject-2.0'],
         packages=['gobject-2.0'], libs=['libbarapp-1.0.so'], doc_format='gi-docgen',
         dump=_dump(_cls('BarBaz', 'bar_baz_get_type'), _cls('MutterWindow', 'mutter_window_get_type'))),
    dict(ns='SLetter', files=['sletter.c', 'sletter.h'], id_prefixes=['S'], includes=['Gio-2.0'],
         libs=['libsletter-1.0.so'], c_includes=['sletter.h'],
         dump=_dump('<error-quark function="s_spawn_error_quark" domain="s-spawn-error"/>',
                    '<error-quark function="s_dbus_error_quark" domain="s-dbus-error"/>')),
    dict(ns='GtkFrob', files=['gtkfrob.c', 'gtkfrob.h'], id_prefixes=['Gtk'], sym_prefixes=['gtk_frob'],
         includes=['GObject-2.0'], packages=['gobject-2.0'], libs=['libgtkfrob-1.0.so'], dump=_dump()),
    dict(ns='GetType', files=['gettype.c', 'gettype.h'], id_prefixes=['GetType'], sym_prefixes=['gettype'],
         includes=['GObject-2.0'], packages=['gobject-2.0'], libs=['libgettype-1.0.so'], c_includes=['gettype.h'],
         dump=_dump(_cls('GetTypeObject', 'gettype_object_get_type'))),
    dict(ns='Symbolfilter', files=['symbolfilter.h'], dump=None,
         symbol_filter_cmd=[PY, os.path.join(TESTS, 'symbolfilter.py')]),
    dict(ns='Identfilter', files=['identfilter.h'], dump=None, accept_unprefixed=True,
         identifier_filter_cmd=[PY, os.path.join(TESTS, 'identfilter.py')]),
    dict(ns='Headeronly', files=['headeronly.h'], dump=None),
]


def _key(el):
    tag = el.tag.split('}')[-1]
    for a in ('name', '{http://www.gtk.org/introspection/c/1.0}identifier', 'filename'):
        if el.get(a) is not None:
            return (tag, el.get(a))
    return (tag, None)


def _short(a):
    return a.replace('{http://www.gtk.org/introspection/core/1.0}', '').replace(
        '{http://www.gtk.org/introspection/c/1.0}', 'c:').replace(
        '{http://www.gtk.org/introspection/glib/1.0}', 'glib:').replace(
        '{http://www.gtk.org/introspection/doc/1.0}', 'doc:')


def tree_diff(exp, got, path, out):
    """Element-by-element: attributes, text of leaf elements, children matched by (tag, name) in order."""
    here = path + '/' + ('%s[%s]' % _key(exp) if _key(exp)[1] else _key(exp)[0])
    for a in sorted(set(exp.attrib) | set(got.attrib)):
        if exp.get(a) != got.get(a):
            out.append((here + '@' + _short(a), exp.get(a), got.get(a)))
    if (exp.text or '').strip() != (got.text or '').strip():
        out.append((here + '#text', (exp.text or '').strip(), (got.text or '').strip()))
    ek = [(_key(c), c) for c in exp]
    gk = [(_key(c), c) for c in got]
    used = set()
    order_e, order_g = [], []
    for k, c in ek:
        match = None
        for j, (k2, c2) in enumerate(gk):
            if j not in used and k2 == k:
                match = j
                break
        if match is None:
            out.append((here + '/' + ('%s[%s]' % k if k[1] else k[0]), 'present', 'MISSING'))
        else:
            used.add(match)
            order_e.append(k)
            order_g.append(match)
            tree_diff(c, gk[match][1], here, out)
    for j, (k2, c2) in enumerate(gk):
        if j not in used:
            out.append((here + '/' + ('%s[%s]' % k2 if k2[1] else k2[0]), 'absent', 'EXTRA'))
    if order_g != sorted(order_g):
        out.append((here + '#child-order', [('%s[%s]' % k) for k in order_e],
                    [('%s[%s]' % gk[j][0]) for j in sorted(order_g)]))
    return out


def classify(ns, path, exp, got):
    """-> (class, reason).  (i) = explained by the stand-in include GIRs or the hand-written dump.
    No rule is needed at present: with the dumps above and vlib/fixtures every expected GIR is
    reproduced exactly, so any difference that appears is reported as (iii) until someone explains it."""
    return ('iii', '')


def run_lib(cfg, scratch):
    decls, comments = [], []
    for f in cfg['files']:
        text = open(os.path.join(TESTS, f), encoding='utf-8').read()
        vname = '/src/' + f
        if f.endswith('.h'):
            decls.extend(ctext.parse_header(text, vname, comments=comments))
        else:
            if any(l.lstrip(' \t').startswith('#') and l.lstrip(' \t#').startswith('define')
                   for l in text.split('\n')):
                raise RuntimeError('%s contains #define lines: the macro scan would read them' % f)
            comments.extend(ctext.extract_comments(text, vname))
    case = {'ns': {'name': cfg['ns'], 'version': '1.0', 'id_prefixes': cfg.get('id_prefixes'),
                   'sym_prefixes': cfg.get('sym_prefixes'), 'accept_unprefixed': cfg.get('accept_unprefixed', False)},
            'includes': cfg.get('includes', []), 'decls': decls, 'comments': [list(c) for c in comments],
            'dump': cfg['dump'], 'c_includes': cfg.get('c_includes', []), 'packages': cfg.get('packages', []),
            'shared_libraries': cfg.get('libs', []), 'doc_format': cfg.get('doc_format'),
            'identifier_filter_cmd': cfg.get('identifier_filter_cmd'), 'symbol_filter_cmd': cfg.get('symbol_filter_cmd')}
    res = pipeline.run(case, os.path.join(scratch, cfg['ns']))
    return res, decls, comments


def partB(scratch):
    say('\n== B. tests/scanner headers: text -> ctext -> cmodel.to_symbols -> pipeline  vs  <Ns>-1.0-expected.gir')
    bad = []
    for cfg in LIBS:
        ns = cfg['ns']
        try:
            res, decls, comments = run_lib(cfg, scratch)
        except ctext.Unsupported as e:
            say('   %-13s outside-model: %s' % (ns, e))
            bad.append((ns, 'unsupported'))
            continue
        if res.gir is None:
            say('   %-13s pipeline stopped at %s: fatal=%r' % (ns, res.stage, res.fatal))
            bad.append((ns, 'fatal'))
            continue
        exp = ET.parse(os.path.join(TESTS, '%s-1.0-expected.gir' % ns)).getroot()
        got = ET.fromstring(res.gir)
        diffs = tree_diff(exp, got, '', [])
        n_el = sum(1 for _ in exp.iter())
        cl = [(classify(ns, p, e, g), p, e, g) for p, e, g in diffs]
        n1 = sum(1 for c in cl if c[0][0] == 'i')
        rest = [c for c in cl if c[0][0] != 'i']
        warn = ['%s' % d.text for d in res.diags]
        say('   %-13s %3d decls %2d comments | %3d expected elements | %d differences: %d (i) explained, %d other | %d diagnostics'
              % (ns, len(decls), len(comments), n_el, len(diffs), n1, len(rest), len(warn)))
        for (c, why), p, e, g in cl:
            if c == 'i' and '-v' not in sys.argv:
                continue
            say('        (%s) %s: expected %r got %r%s' % (c, p, e, g, ('  [%s]' % why) if why else ''))
        for w in warn:
            say('        diag: %s' % w[:160])
        bad.extend((ns, c) for c in rest)
    return bad


def sensitivity(scratch):
    """The calibration must notice a wrong to_symbols(): three seeded divergences, each has to break A or B."""
    print('\n== S. sensitivity: seeded divergences in cmodel.to_symbols must be noticed (--sensitivity)')
    orig = cmodel.to_symbols
    orig_array, orig_params = cmodel._array, cmodel._params
    missed = []

    def quiet(fn, *a):
        QUIET[0] = True
        try:
            return fn(*a)
        finally:
            QUIET[0] = False

    def measure(label):
        rows = quiet(partA)
        nb = len(quiet(partB, scratch))
        na = len([r for r in rows if r[1] in ('FAIL', 'ERROR')])
        print('   %-44s upstream tests failing: %2d   GIR differences: %3d' % (label, na, nb))
        if na == 0 and nb == 0:
            missed.append(label)

    try:
        cmodel.to_symbols = lambda d, default_file='/src/foo.h': [
            x for x in orig(d, default_file) if x.type not in (cmodel.SYM_STRUCT, cmodel.SYM_UNION)]
        measure('no STRUCT/UNION symbol for `struct tag {..}`')
        cmodel.to_symbols = orig
        cmodel._array = lambda dim, base, cx: orig_array(None, base, cx)
        measure('array sizes dropped')
        cmodel._array = orig_array
        cmodel._params = lambda params, cx: list(reversed(orig_params(params, cx)))
        measure('parameter order reversed')
        cmodel._params = orig_params
        cmodel.to_symbols = lambda d, default_file='/src/foo.h': orig(
            [dict(x, line=None, line_body=None) for x in d], default_file)
        measure('declaration lines replaced by a counter')
    finally:
        cmodel.to_symbols, cmodel._array, cmodel._params = orig, orig_array, orig_params
    return missed


def main(argv):
    scratch = os.path.join(VERIF, '.scratch', 'calibrate_p-%d' % os.getpid())
    shutil.rmtree(scratch, ignore_errors=True)
    os.makedirs(scratch)
    try:
        stubscanner.install()
        bad0 = part0()
        rowsA = partA()
        badA = [r for r in rowsA if r[1] in ('FAIL', 'ERROR')]
        badB = partB(scratch)
        missed = sensitivity(scratch) if '--sensitivity' in argv else []
        ok = not bad0 and not badA and not badB and not missed
        print('\ncalibrate_p: %s' % ('OK' if ok else 'DIFFERENCES'))
        return 0 if ok else 1
    finally:
        shutil.rmtree(scratch, ignore_errors=True)


if __name__ == '__main__':
    try:
        sys.exit(main(sys.argv[1:]))
    except SystemExit:
        raise
    except Exception:       # noqa
        traceback.print_exc()
        sys.exit(2)
