#!/venv/bin/python
"""Calibration of vlib/typelib.py (DESIGN.md 1.3, "Independent typelib decoder").

  /venv/bin/python tools/calibrate_typelib.py [--compiler PATH] [--generate PATH]
                                              [--keep] [-v]

1. decodes every system typelib (strict mode, check_invariants() must be empty);
2. derives include GIRs for GLib/GObject/GModule/Gio from the system typelibs
   with g-ir-generate (+ the three known fix-ups), compiles them and every GIR
   of /repo/gir, /root/spike/build/girs, /root/spike/py with g-ir-compiler,
   decodes the results the same way;
3. cross-checks decoded content against the source GIR XML (names, argument
   counts and flags, enum values, property/signal/field/object flags, types)
   so that a wrong bitfield position in the decoder shows up as a mismatch.

Scratch files go to /verif/.scratch/calib and are removed unless --keep.
Exit status 0 iff everything decoded cleanly and no cross-check mismatched.
"""

import argparse
import glob
import os
import re
import shutil
import subprocess
import sys
import xml.etree.ElementTree as ET

sys.path.insert(0, os.path.join(os.path.dirname(os.path.abspath(__file__)), ".."))
from vlib import typelib  # noqa: E402

SYS = "/usr/lib/x86_64-linux-gnu/girepository-1.0"
SCRATCH = "/verif/.scratch/calib"
CORE = "{http://www.gtk.org/introspection/core/1.0}"
C = "{http://www.gtk.org/introspection/c/1.0}"
GLIB = "{http://www.gtk.org/introspection/glib/1.0}"

BASIC = {
    "none": "void", "gboolean": "boolean", "gint8": "int8", "gchar": "int8",
    "guint8": "uint8", "guchar": "uint8", "gint16": "int16", "gshort": "int16",
    "guint16": "uint16", "gushort": "uint16", "gint32": "int32", "gint": "int32",
    "guint32": "uint32", "guint": "uint32", "gint64": "int64", "glong": "int64",
    "gssize": "int64", "goffset": "int64", "gintptr": "int64",
    "guint64": "uint64", "gulong": "uint64", "gsize": "uint64",
    "guintptr": "uint64", "gfloat": "float", "gdouble": "double",
    "GType": "gtype", "utf8": "utf8", "filename": "filename",
    "gunichar": "unichar", "gpointer": "void", "gconstpointer": "void",
    "time_t": "int64", "off_t": "int64", "pid_t": "int32", "uid_t": "uint32",
    "dev_t": "uint64", "gid_t": "uint32", "socklen_t": "uint32",
    "size_t": "uint64", "ssize_t": "int64",
}
CONTAINERS = {"GLib.List": "glist", "GLib.SList": "gslist",
              "GLib.HashTable": "ghash", "GLib.Error": "error"}
GARRAYS = {"GLib.Array": "array", "GLib.PtrArray": "ptr_array",
           "GLib.ByteArray": "byte_array"}


class Stats:
    def __init__(self):
        self.n = {}
        self.bad = []

    def eq(self, cat, where, got, want):
        self.n[cat] = self.n.get(cat, 0) + 1
        if got != want:
            self.bad.append("%s: %s: decoded %r, GIR says %r" % (where, cat, got, want))


def run(cmd):
    env = dict(os.environ, ASAN_OPTIONS="detect_leaks=0")
    p = subprocess.run(cmd, env=env, capture_output=True, text=True)
    return p.returncode, (p.stdout + p.stderr).strip()


def decode(path, failures, verbose):
    try:
        t = typelib.Typelib(open(path, "rb").read())
    except typelib.FormatError as e:
        failures.append("%s: FormatError: %s" % (path, e))
        return None
    probs = t.check_invariants()
    if probs:
        failures.append("%s: %d invariant problems, first: %s"
                        % (path, len(probs), probs[0]))
    if verbose:
        print("  decoded %-40s entries=%-4d attrs=%-4d problems=%d"
              % (os.path.basename(path), len(t.entries), len(t.attributes),
                 len(probs)))
    return t


def fixup_generated(src, dst):
    s = open(src, encoding="utf-8").read()
    s = s.replace('<repository version="1.0"', '<repository version="1.2"')
    s = re.sub(r'(<member name="[^"]*" value="[^"]*")>\s*'
               r'<attribute name="c:identifier" value="([^"]*)"/>\s*</member>',
               r'\1 c:identifier="\2"/>', s)
    s = s.replace('<type name="any"', '<type name="gpointer"')
    open(dst, "w", encoding="utf-8").write(s)


# ---------------------------------------------------------------------------
# GIR cross-check

def b(el, name, default=False):
    v = el.get(name)
    return default if v is None else v == "1"


_ALIASES = {}


def foreign_aliases(path):
    """{'Ns.Alias': 'Ns.Target' or basic name} of one included GIR (direct
    includes only; enough for the calibration inputs)."""
    if path not in _ALIASES:
        out = {}
        if os.path.exists(path):
            ns = ET.parse(path).getroot().find(CORE + "namespace")
            for a in ns.findall(CORE + "alias"):
                ty = a.find(CORE + "type")
                if ty is None:
                    continue
                n = ty.get("name")
                if n not in BASIC and "." not in n:
                    n = ns.get("name") + "." + n
                out[ns.get("name") + "." + a.get("name")] = n
        _ALIASES[path] = out
    return _ALIASES[path]


class Checker:
    def __init__(self, t, root, stats, label, incdir):
        self.t, self.st, self.label = t, stats, label
        self.ns = root.find(CORE + "namespace")
        self.nsname = self.ns.get("name")
        # aliases resolve to their target type in the compiler
        self.aliases = {}
        for inc in root.findall(CORE + "include"):
            self.aliases.update(foreign_aliases(
                os.path.join(incdir, "%s-%s.gir" % (inc.get("name"),
                                                    inc.get("version")))))
        for a in self.ns.findall(CORE + "alias"):
            ty = a.find(CORE + "type")
            if ty is not None:
                self.aliases[a.get("name")] = ty.get("name")

    def w(self, *parts):
        return "%s %s" % (self.label, ".".join(p for p in parts if p))

    # types -----------------------------------------------------------------
    def check_type(self, where, d, holder):
        """holder is an element containing <type> or <array>."""
        if d is None or holder is None:
            return
        arr = holder.find(CORE + "array")
        ty = holder.find(CORE + "type")
        if arr is not None:
            self.st.eq("type.tag", where, d["tag"], "array")
            if d["tag"] != "array":
                return
            self.st.eq("array.array_type", where, d["array_type_name"],
                       GARRAYS.get(arr.get("name"), "c"))
            if arr.get("name") is None:
                has_len = arr.get("length") is not None
                has_size = arr.get("fixed-size") is not None
                self.st.eq("array.has_length", where, d["has_length"], has_len)
                self.st.eq("array.has_size", where, d["has_size"], has_size)
                if has_len:
                    self.st.eq("array.length", where, d["length"],
                               int(arr.get("length")))
                if has_size:
                    self.st.eq("array.size", where, d["size"],
                               int(arr.get("fixed-size")))
                zt = arr.get("zero-terminated")
                want = (zt == "1") if zt is not None else not (has_len or has_size)
                self.st.eq("array.zero_terminated", where, d["zero_terminated"], want)
            self.check_type(where + "[]", d["element_type"], arr)
            return
        if ty is None:
            return
        name = ty.get("name")
        seen = set()
        while name in self.aliases and name not in seen:
            seen.add(name)
            name = self.aliases[name]
        via_alias = bool(seen)
        if name is None:
            return
        if name in CONTAINERS:
            self.st.eq("type.tag", where, d["tag"], CONTAINERS[name])
            if d["tag"] == CONTAINERS[name] and name != "GLib.Error":
                self.st.eq("type.pointer", where, d["pointer"], True)
                kids = [k for k in ty if k.tag in (CORE + "type", CORE + "array")]
                if kids:
                    self.st.eq("param.n_types", where, d["n_types"], len(kids))
                    for i, k in enumerate(kids[:len(d["param_types"])]):
                        fake = ET.Element("x")
                        fake.append(k)
                        self.check_type("%s<%d>" % (where, i),
                                        d["param_types"][i], fake)
            return
        if name in BASIC:
            self.st.eq("type.tag", where, d["tag"], BASIC[name])
            if name in ("utf8", "filename", "gpointer", "gconstpointer"):
                self.st.eq("type.pointer", where, d["pointer"], True)
            self.st.eq("type.inline", where, d["inline"], True)
            return
        if name in ("long double", "va_list") or name[0].islower():
            return
        self.st.eq("type.tag", where, d["tag"], "interface")
        if d["tag"] == "interface":
            if "." in name:
                ns, n = name.split(".", 1)
            else:
                ns, n = self.nsname, name
            self.st.eq("interface.ref", where,
                       (d["interface_namespace"], d["interface_name"]), (ns, n))
            # KNOWN: a type reached through a local alias may be referenced
            # via a *non-local* directory entry naming the own namespace
            if not via_alias:
                self.st.eq("interface.local", where, d["interface_local"],
                           ns == self.nsname)

    # callables -------------------------------------------------------------
    def transfer(self, el):
        return {"none": "none", "container": "container", "full": "full",
                None: None}[el.get("transfer-ownership")]

    def check_callable(self, where, sig, el, is_signal=False):
        st = self.st
        params = el.find(CORE + "parameters")
        plist = [] if params is None else params.findall(CORE + "parameter")
        inst = None if params is None else params.find(CORE + "instance-parameter")
        st.eq("sig.n_arguments", where, sig["n_arguments"], len(plist))
        rv = el.find(CORE + "return-value")
        if rv is not None:
            if self.transfer(rv) is not None:
                st.eq("sig.return_transfer", where, sig["return_transfer"],
                      self.transfer(rv))
            st.eq("sig.may_return_null", where, sig["may_return_null"],
                  b(rv, "nullable") or b(rv, "allow-none"))
            st.eq("sig.skip_return", where, sig["skip_return"], b(rv, "skip"))
            self.check_type(where + " return", sig["return_type"], rv)
        st.eq("sig.throws", where, sig["throws"], b(el, "throws"))
        if inst is not None:
            st.eq("sig.instance_transfer_ownership", where,
                  sig["instance_transfer_ownership"],
                  inst.get("transfer-ownership") == "full")
        for i, (a, p) in enumerate(zip(sig["arguments"], plist)):
            w = "%s arg%d(%s)" % (where, i, p.get("name"))
            st.eq("arg.name", w, a["name"], p.get("name"))
            st.eq("arg.direction", w, a["direction"], p.get("direction", "in"))
            if self.transfer(p) is not None:
                st.eq("arg.transfer", w, a["transfer"], self.transfer(p))
            d = p.get("direction", "in")
            nullable = b(p, "nullable")
            optional = b(p, "optional")
            if b(p, "allow-none"):          # legacy attribute
                if d in ("out", "inout"):
                    optional = True
                else:
                    nullable = True
            st.eq("arg.nullable", w, a["nullable"], nullable)
            st.eq("arg.optional", w, a["optional"], optional)
            st.eq("arg.caller_allocates", w, a["caller_allocates"],
                  b(p, "caller-allocates"))
            st.eq("arg.skip", w, a["skip"], b(p, "skip"))
            st.eq("arg.return_value", w, a["return_value"], False)
            st.eq("arg.scope", w, a["scope_name"], p.get("scope", "invalid"))
            st.eq("arg.closure", w, a["closure"], int(p.get("closure", -1)))
            st.eq("arg.destroy", w, a["destroy"], int(p.get("destroy", -1)))
            self.check_type(w, a["arg_type"], p)

    def introspectable(self, el):
        # (elements with moved-to are kept by the compiler)
        return el.get("introspectable") != "0" and el.get("shadowed-by") is None

    def fname(self, el):
        return el.get("shadows") or el.get("name")

    def check_functions(self, where, decoded, parent, tags):
        els = [e for e in parent if e.tag in tags and self.introspectable(e)]
        self.st.eq("n_methods", where, len(decoded), len(els))
        byname = {f["name"]: f for f in decoded}
        for e in els:
            f = byname.get(self.fname(e))
            w = "%s.%s()" % (where, self.fname(e))
            self.st.eq("function.present", w, f is not None, True)
            if f is None:
                continue
            self.st.eq("function.symbol", w, f["symbol"], e.get(C + "identifier"))
            self.st.eq("function.deprecated", w, f["deprecated"], b(e, "deprecated"))
            self.st.eq("function.constructor", w, f["constructor"],
                       e.tag == CORE + "constructor")
            self.st.eq("function.throws", w, f["throws"], b(e, "throws"))
            self.st.eq("function.blob_type", w, f["blob_type"], 1)
            self.check_callable(w, f["signature"], e)

    def check_fields(self, where, decoded, parent):
        els = [e for e in parent if e.tag == CORE + "field"]
        # the compiler drops nothing here; anonymous unions/records are not fields
        self.st.eq("n_fields", where, len(decoded), len(els))
        for f, e in zip(decoded, els):
            w = "%s.%s" % (where, e.get("name"))
            self.st.eq("field.name", w, f["name"], e.get("name"))
            # KNOWN compiler behaviour (girparser.c start_field): an explicit
            # readable="0" is stored as readable=1 (and "1" as 0), so only the
            # defaulted case is compared here.
            if e.get("readable") is None:
                self.st.eq("field.readable", w, f["readable"], True)
            self.st.eq("field.writable", w, f["writable"], b(e, "writable"))
            self.st.eq("field.bits", w, f["bits"], 0)   # compiler never stores bits
            cb = e.find(CORE + "callback")
            if e.get("introspectable") == "0":
                # KNOWN: the parser replaces the type of such fields by gpointer
                self.st.eq("field.has_embedded_type", w, f["has_embedded_type"], False)
                self.st.eq("field.nonintrospectable.type", w,
                           (f["type"]["tag"], f["type"]["pointer"]), ("void", True))
                continue
            self.st.eq("field.has_embedded_type", w, f["has_embedded_type"],
                       cb is not None)
            if cb is not None and f["has_embedded_type"]:
                self.st.eq("field.cb.name", w, f["embedded_callback"]["name"],
                           cb.get("name"))
                self.check_callable(w + " cb", f["embedded_callback"]["signature"], cb)
            elif cb is None:
                self.check_type(w, f["type"], e)

    def check_registered(self, w, blob, el):
        self.st.eq("gtype_name", w, blob["gtype_name"], el.get(GLIB + "type-name"))
        self.st.eq("gtype_init", w, blob["gtype_init"], el.get(GLIB + "get-type"))
        self.st.eq("deprecated", w, blob["deprecated"], b(el, "deprecated"))

    def check_props_signals_vfuncs(self, w, blob, el):
        st = self.st
        props = [e for e in el.findall(CORE + "property") if self.introspectable(e)]
        st.eq("n_properties", w, blob["n_properties"], len(props))
        for p, e in zip(blob["properties"], props):
            pw = "%s:%s" % (w, e.get("name"))
            st.eq("property.name", pw, p["name"], e.get("name"))
            st.eq("property.readable", pw, p["readable"], b(e, "readable", True))
            st.eq("property.writable", pw, p["writable"], b(e, "writable"))
            st.eq("property.construct", pw, p["construct"], b(e, "construct"))
            st.eq("property.construct_only", pw, p["construct_only"],
                  b(e, "construct-only"))
            # KNOWN: start_property does not read "deprecated"; always 0
            st.eq("property.deprecated", pw, p["deprecated"], False)
            if self.transfer(e) is not None:
                st.eq("property.transfer", pw, p["transfer"], self.transfer(e))
            for k in ("setter", "getter"):
                want = e.get(k)
                got = None
                if p[k] != typelib.ACCESSOR_SENTINEL and p[k] < len(blob["methods"]):
                    got = blob["methods"][p[k]]["name"]
                st.eq("property." + k, pw, got, want)
            self.check_type(pw, p["type"], e)
        sigs = [e for e in el.findall(GLIB + "signal") if self.introspectable(e)]
        st.eq("n_signals", w, blob["n_signals"], len(sigs))
        for s, e in zip(blob["signals"], sigs):
            sw = "%s::%s" % (w, e.get("name"))
            st.eq("signal.name", sw, s["name"], e.get("name"))
            when = e.get("when")
            st.eq("signal.run_first", sw, s["run_first"], when == "first")
            # absent 'when' defaults to run_last in the compiler
            st.eq("signal.run_last", sw, s["run_last"], when in ("last", None))
            st.eq("signal.run_cleanup", sw, s["run_cleanup"], when == "cleanup")
            st.eq("signal.no_recurse", sw, s["no_recurse"], b(e, "no-recurse"))
            st.eq("signal.detailed", sw, s["detailed"], b(e, "detailed"))
            st.eq("signal.action", sw, s["action"], b(e, "action"))
            st.eq("signal.no_hooks", sw, s["no_hooks"], b(e, "no-hooks"))
            st.eq("signal.deprecated", sw, s["deprecated"], b(e, "deprecated"))
            self.check_callable(sw, s["signature"], e, True)
        vfs = [e for e in el.findall(CORE + "virtual-method") if self.introspectable(e)]
        st.eq("n_vfuncs", w, blob["n_vfuncs"], len(vfs))
        for v, e in zip(blob["vfuncs"], vfs):
            vw = "%s.vfunc_%s" % (w, e.get("name"))
            st.eq("vfunc.name", vw, v["name"], e.get("name"))
            st.eq("vfunc.throws", vw, v["throws"], b(e, "throws"))
            inv = e.get("invoker")
            got = None
            if v["invoker"] != typelib.ACCESSOR_SENTINEL and \
                    v["invoker"] < len(blob["methods"]):
                got = blob["methods"][v["invoker"]]["name"]
            st.eq("vfunc.invoker", vw, got, inv)
            self.check_callable(vw, v["signature"], e)
        consts = [e for e in el.findall(CORE + "constant") if self.introspectable(e)]
        st.eq("n_constants", w, blob["n_constants"], len(consts))

    def check_constant(self, w, c, e):
        self.check_type(w, c["type"], e)
        v, want = c["value"], e.get("value")
        tag = c["type"]["tag"]
        if tag in ("utf8", "filename"):
            self.st.eq("constant.value", w, v, want)
            self.st.eq("constant.size", w, c["size"], len(want.encode()) + 1)
        elif tag == "boolean":
            self.st.eq("constant.value", w, v, want == "true")
        elif tag in ("float", "double"):
            self.st.eq("constant.value", w, float(v), float(want)
                       if tag == "double" else
                       __import__("struct").unpack("<f", __import__("struct")
                                                   .pack("<f", float(want)))[0])
        elif v is not None:
            bits = {"int8": 8, "uint8": 8, "int16": 16, "uint16": 16, "int32": 32,
                    "uint32": 32, "int64": 64, "uint64": 64, "unichar": 32}[tag]
            self.st.eq("constant.value", w, v % (1 << bits),
                       int(want.rstrip("uUlL"), 0) % (1 << bits))

    def qual(self, name):
        if name is None:
            return None
        return tuple(name.split(".", 1)) if "." in name else (self.nsname, name)

    def ref(self, r):
        return None if r is None else (r["namespace"], r["name"])

    def run(self):
        t, st = self.t, self.st
        st.eq("header.namespace", self.label, t.header["namespace"], self.nsname)
        st.eq("header.nsversion", self.label, t.header["nsversion"],
              self.ns.get("version"))
        st.eq("header.shared_library", self.label, t.header["shared_library"],
              None if self.ns.get("shared-library") is None else
              self.ns.get("shared-library").replace(",", "|"))
        st.eq("header.c_prefix", self.label, t.header["c_prefix"],
              self.ns.get(C + "prefix") or self.ns.get(C + "identifier-prefixes"))
        local = {e["name"]: e for e in t.entries if e["local"]}
        kinds = {CORE + "function": "function", CORE + "callback": "callback",
                 CORE + "record": "struct", CORE + "union": "union",
                 CORE + "enumeration": "enum", CORE + "bitfield": "flags",
                 CORE + "class": "object", CORE + "interface": "interface",
                 CORE + "constant": "constant", GLIB + "boxed": "boxed"}
        expected = 0
        for el in self.ns:
            if el.tag not in kinds or not self.introspectable(el):
                continue
            name = el.get("name") if el.tag != GLIB + "boxed" else el.get(GLIB + "name")
            if el.tag == CORE + "function":
                name = self.fname(el)
            expected += 1
            e = local.get(name)
            w = self.w(name)
            st.eq("entry.present", w, e is not None, True)
            if e is None:
                continue
            kind = kinds[el.tag]
            if kind == "struct" and el.get(GLIB + "get-type") and False:
                kind = "boxed"
            st.eq("entry.blob_type", w, e["blob_type_name"], kind)
            blob = e["blob"]
            for (an, av) in [(a.get("name"), a.get("value"))
                             for a in el.findall(CORE + "attribute")]:
                st.eq("attribute", w + "@" + an,
                      (an, av) in t.attributes_for(blob["offset"]), True)
            if kind == "function":
                self.check_functions(self.label, [blob], [el], {el.tag})
            elif kind == "callback":
                st.eq("deprecated", w, blob["deprecated"], b(el, "deprecated"))
                self.check_callable(w, blob["signature"], el)
            elif kind in ("struct", "boxed", "union"):
                self.check_registered(w, blob, el)
                self.check_fields(w, blob["fields"], el)
                self.check_functions(
                    w, blob["methods" if kind != "union" else "functions"], el,
                    {CORE + "method", CORE + "constructor", CORE + "function"})
                if kind == "struct":
                    st.eq("struct.is_gtype_struct", w, blob["is_gtype_struct"],
                          el.get(GLIB + "is-gtype-struct-for") is not None)
                    st.eq("struct.foreign", w, blob["foreign"], b(el, "foreign"))
                    st.eq("struct.unregistered", w, blob["unregistered"],
                          el.get(GLIB + "type-name") is None)
                    st.eq("struct.copy_func", w, blob["copy_func"],
                          el.get("copy-function"))
                    st.eq("struct.free_func", w, blob["free_func"],
                          el.get("free-function"))
            elif kind in ("enum", "flags"):
                self.check_registered(w, blob, el)
                st.eq("enum.unregistered", w, blob["unregistered"],
                      el.get(GLIB + "type-name") is None)
                st.eq("enum.error_domain", w, blob["error_domain"],
                      el.get(GLIB + "error-domain"))
                st.eq("enum.storage_type", w,
                      blob["storage_type_name"] in ("int32", "uint32"), True)
                mem = el.findall(CORE + "member")
                st.eq("enum.n_values", w, blob["n_values"], len(mem))
                for v, m in zip(blob["values"], mem):
                    st.eq("value.name", w, v["name"], m.get("name"))
                    st.eq("value.value", w + "." + m.get("name"),
                          v["value"] & 0xFFFFFFFF, int(m.get("value")) & 0xFFFFFFFF)
                self.check_functions(w, blob["methods"], el, {CORE + "function"})
            elif kind == "object":
                self.check_registered(w, blob, el)
                st.eq("object.abstract", w, blob["abstract"], b(el, "abstract"))
                st.eq("object.fundamental", w, blob["fundamental"],
                      b(el, GLIB + "fundamental"))
                st.eq("object.final", w, blob["final"], b(el, "final"))
                st.eq("object.parent", w, self.ref(blob["parent_ref"]),
                      self.qual(el.get("parent")))
                st.eq("object.gtype_struct", w, self.ref(blob["gtype_struct_ref"]),
                      self.qual(el.get(GLIB + "type-struct")))
                st.eq("object.interfaces", w,
                      [self.ref(r) for r in blob["interfaces_refs"]],
                      [self.qual(i.get("name"))
                       for i in el.findall(CORE + "implements")])
                for k, a in (("ref_func", "ref-func"), ("unref_func", "unref-func"),
                             ("set_value_func", "set-value-func"),
                             ("get_value_func", "get-value-func")):
                    st.eq("object." + k, w, blob[k], el.get(GLIB + a))
                self.check_fields(w, blob["fields"], el)
                self.check_functions(w, blob["methods"], el,
                                     {CORE + "method", CORE + "constructor",
                                      CORE + "function"})
                self.check_props_signals_vfuncs(w, blob, el)
            elif kind == "interface":
                self.check_registered(w, blob, el)
                st.eq("interface.prerequisites", w,
                      [self.ref(r) for r in blob["prerequisites_refs"]],
                      [self.qual(i.get("name"))
                       for i in el.findall(CORE + "prerequisite")])
                st.eq("interface.gtype_struct", w,
                      self.ref(blob["gtype_struct_ref"]),
                      self.qual(el.get(GLIB + "type-struct")))
                self.check_functions(w, blob["methods"], el,
                                     {CORE + "method", CORE + "function"})
                self.check_props_signals_vfuncs(w, blob, el)
            elif kind == "constant":
                st.eq("deprecated", w, blob["deprecated"], b(el, "deprecated"))
                self.check_constant(w, blob, el)
        st.eq("n_local_entries", self.label, t.header["n_local_entries"], expected)


def main():
    ap = argparse.ArgumentParser()
    ap.add_argument("--compiler", default="/root/spike/build/g-ir-compiler")
    ap.add_argument("--generate", default="/root/spike/build/g-ir-generate")
    ap.add_argument("--keep", action="store_true")
    ap.add_argument("-v", action="store_true")
    ap.add_argument("--max-mismatches", type=int, default=60)
    a = ap.parse_args()
    failures, stats = [], Stats()
    shutil.rmtree(SCRATCH, ignore_errors=True)
    inc = os.path.join(SCRATCH, "girs")
    out = os.path.join(SCRATCH, "out")
    os.makedirs(inc)
    os.makedirs(out)

    print("== system typelibs")
    systl = sorted(glob.glob(SYS + "/*.typelib"))
    for p in systl:
        decode(p, failures, True)

    print("== include GIRs regenerated from system typelibs")
    girs = []
    for ns in ("GLib", "GObject", "GModule", "Gio"):
        raw = os.path.join(SCRATCH, "raw-%s.gir" % ns)
        rc, msg = run([a.generate, "--includedir", SYS, "-o", raw,
                       "%s/%s-2.0.typelib" % (SYS, ns)])
        if rc or not os.path.exists(raw):
            print("  g-ir-generate %s failed: %s" % (ns, msg[:200]))
            continue
        dst = os.path.join(inc, "%s-2.0.gir" % ns)
        fixup_generated(raw, dst)
        girs.append(dst)
    for src in sorted(glob.glob("/repo/gir/*.gir")
                      + glob.glob("/root/spike/build/girs/*.gir")
                      + glob.glob("/root/spike/py/*.gir")):
        dst = os.path.join(inc, os.path.basename(src))
        if not os.path.exists(dst):
            shutil.copy(src, dst)
            girs.append(dst)

    print("== compile + decode + cross-check against GIR")
    compiled = 0
    for g in girs:
        tl = os.path.join(out, os.path.basename(g)[:-4] + ".typelib")
        rc, msg = run([a.compiler, "--includedir", inc, "-o", tl, g])
        if rc or not os.path.exists(tl):
            print("  SKIP %s: compiler exit %d: %s"
                  % (os.path.basename(g), rc, msg.splitlines()[-1][:160] if msg else ""))
            continue
        compiled += 1
        t = decode(tl, failures, True)
        if t is None:
            continue
        before = len(stats.bad)
        Checker(t, ET.parse(g).getroot(), stats, os.path.basename(g)[:-4],
                inc).run()
        if a.v and len(stats.bad) > before:
            print("    %d mismatches" % (len(stats.bad) - before))

    print("== summary")
    print("system typelibs: %d, compiled typelibs: %d, decode failures: %d"
          % (len(systl), compiled, len(failures)))
    for f in failures:
        print("  FAIL " + f)
    total = sum(stats.n.values())
    print("cross-check comparisons: %d, mismatches: %d" % (total, len(stats.bad)))
    if a.v:
        for k in sorted(stats.n):
            print("  %-34s %d" % (k, stats.n[k]))
    for m in stats.bad[:a.max_mismatches]:
        print("  MISMATCH " + m)
    if not a.keep:
        shutil.rmtree(SCRATCH, ignore_errors=True)
    return 1 if failures or stats.bad else 0


if __name__ == "__main__":
    sys.exit(main())
