#!/venv/bin/python
"""Calibration of substrate C (DESIGN 1.3).  Run from anywhere:  /venv/bin/python tools/calibrate_c.py [--cold]

 1. builds the C tools from the working tree (vlib/cbuild.py) and runs the shim self-test driver;
 2. checks the fixture GIRs against docs/gir-1.2.rnc (structurally, vlib/rnclite.py), compiles them
    and runs g-ir-generate on the results;
 3. compiles every gir/*.gir of the repository against the fixtures (and, when that is not enough,
    against include GIRs synthesised from the system typelibs);
 4. synthesises those include GIRs (cbuild.system_girs) and compiles every
    tests/scanner/*-expected.gir with them, then runs g-ir-generate on every typelib produced.
Prints one table; exit 0 iff every row is as expected, 2 on a harness problem."""
import glob
import os
import re
import shutil
import sys
import time
import xml.etree.ElementTree as ET

VERIF = os.path.dirname(os.path.dirname(os.path.abspath(__file__)))
sys.path.insert(0, VERIF)

from vlib import cbuild, rnclite, runner  # noqa: E402

CORE = '{http://www.gtk.org/introspection/core/1.0}'


def includes_of(path):
    try:
        root = ET.parse(path).getroot()
    except ET.ParseError:
        return ['?']
    return ['%s-%s' % (i.get('name'), i.get('version')) for i in root.findall(CORE + 'include')]


def short(err):
    lines = [l for l in err.strip().splitlines() if l.strip()]
    for l in lines:
        if 'runtime error' in l or 'AddressSanitizer' in l:
            return l.strip()[:150]
    return (lines[-1].strip()[:150] if lines else '')


def main(argv):
    scratch = os.path.join(VERIF, '.scratch', 'calibrate_c-%d' % os.getpid())
    shutil.rmtree(scratch, ignore_errors=True)
    os.makedirs(scratch)
    rows, bad = [], []
    try:
        # ---- 1. build ------------------------------------------------------------------
        t0 = time.time()
        b = cbuild.build(force='--cold' in argv)
        t_first = time.time() - t0
        t0 = time.time()
        cbuild.build()
        t_warm = time.time() - t0
        print('build dir      %s' % b.dir)
        print('g-ir-compiler  %s' % b.compiler)
        print('g-ir-generate  %s' % b.generate)
        print('drivers        %s' % ', '.join(b.drivers()))
        print('compiler       %s' % b.info['cc'].split(':')[-1])
        print('cold build     %.2f s (recorded when this cache entry was built); this call %.2f s; warm call %.3f s'
              % (b.info['seconds'], t_first, t_warm))
        rc, out, err = b.run([b.driver('shimcheck')])
        print('shimcheck      exit %d %s' % (rc, out.strip() or short(err)))
        if rc != 0:
            bad.append('shimcheck')
        rc, out, err = b.run([b.compiler, '--version'])
        want = 'g-ir-compiler %s' % b.info['version']
        print('version        %s' % out.strip())
        if out.strip() != want:
            bad.append('version string')

        schema = rnclite.load()

        def compile_and_generate(label, gir, incdirs, outdir, tldirs=()):
            """-> (status, detail).  incdirs: where include GIRs are found by g-ir-compiler;
            tldirs: where g-ir-generate finds the typelibs of the dependencies."""
            name = os.path.basename(gir)[:-4]
            tl = os.path.join(outdir, name + '.typelib')
            if not os.path.exists(tl):
                rc, out, err = b.compile_gir(gir, tl, includedirs=incdirs)
                if rc != 0:
                    return 'FAIL(compile rc=%d)' % rc, short(err)
            rc, out, err = b.generate_gir(tl, includedirs=[outdir] + list(tldirs))
            if rc != 0:
                return 'compiled; generate rc=%d' % rc, short(err)
            try:
                ET.fromstring(out)
            except ET.ParseError as e:
                return 'compiled; generate output not XML', str(e)
            return 'ok', '%d B typelib, %d B regenerated' % (os.path.getsize(tl), len(out))

        def both_ways(girs, incdir, out_fx, out_sys, tl_fx, tl_sys):
            """Compile everything first (dependencies among `girs` in any order), then regenerate."""
            res = {}
            for gir in girs:
                tl = os.path.basename(gir)[:-4] + '.typelib'
                b.compile_gir(gir, os.path.join(out_fx, tl), includedirs=[incdir, cbuild.FIXTURES])
                if sysgir:
                    b.compile_gir(gir, os.path.join(out_sys, tl), includedirs=[incdir, sysgir])
            for gir in girs:
                r1 = compile_and_generate('', gir, [incdir, cbuild.FIXTURES], out_fx, tl_fx)
                r2 = compile_and_generate('', gir, [incdir, sysgir], out_sys, tl_sys) if sysgir else ('-', '')
                res[gir] = r1 + r2
            return res

        # ---- 2. fixtures -----------------------------------------------------------------
        fxout = os.path.join(scratch, 'fixtures')
        os.makedirs(fxout)
        for n in ('GLib-2.0', 'GObject-2.0', 'GModule-2.0', 'Gio-2.0'):
            gir = os.path.join(cbuild.FIXTURES, n + '.gir')
            problems = rnclite.check(schema, gir)
            st, detail = compile_and_generate(n, gir, [cbuild.FIXTURES], fxout, [fxout])
            if problems:
                st, detail = 'RNC: %d problem(s)' % len(problems), problems[0]
            rows.append(('fixtures/' + n + '.gir', ','.join(includes_of(gir)) or '-', st, '-', detail))
            if st != 'ok':
                bad.append(n)

        # ---- 4a. include GIRs from the system typelibs -------------------------------------
        t0 = time.time()
        notes = []
        sysgir = cbuild.system_girs(b, log=notes.append)
        print('system_girs    %s (%.1f s)%s' % (sysgir, time.time() - t0, ''.join('\n   ' + n for n in notes)))
        if sysgir is None:
            bad.append('system_girs')

        # ---- 3. gir/*.gir ------------------------------------------------------------------
        girdir = os.path.join(scratch, 'gir')
        os.makedirs(girdir)
        for src in sorted(glob.glob(os.path.join(runner.REPO, 'gir', '*.gir')) +
                          glob.glob(os.path.join(runner.REPO, 'gir', '*.gir.in'))):
            dst = os.path.join(girdir, os.path.basename(src).replace('.gir.in', '.gir'))
            text = open(src).read()
            text = text.replace('@CAIRO_SHARED_LIBRARY@', 'libcairo-gobject.so.2').replace('@CAIRO_GIR_PACKAGE@', 'cairo-gobject')
            if re.search(r'@\w+@', text):
                rows.append(('gir/' + os.path.basename(src), '?', 'skipped', '-', 'unknown @substitution@'))
                continue
            with open(dst, 'w') as f:
                f.write(text)
        out_fx, out_sys = os.path.join(scratch, 'gir-fx'), os.path.join(scratch, 'gir-sys')
        os.makedirs(out_fx)
        os.makedirs(out_sys)
        gir_fx, gir_sys = out_fx, out_sys
        girs = sorted(glob.glob(os.path.join(girdir, '*.gir')))
        res = both_ways(girs, girdir, out_fx, out_sys, [fxout], [cbuild.SYS_TYPELIBS])
        for gir in girs:
            st1, d1, st2, d2 = res[gir]
            rows.append(('gir/' + os.path.basename(gir), ','.join(includes_of(gir)) or '-', st1, st2,
                         d1 if st1 != 'ok' else d2 if st2 not in ('ok', '-') else d1))
            if st1 != 'ok' and st2 != 'ok':
                bad.append(os.path.basename(gir))

        # ---- 4b. tests/scanner/*-expected.gir -----------------------------------------------
        expdir = os.path.join(scratch, 'expected')
        os.makedirs(expdir)
        shutil.copy(os.path.join(girdir, 'cairo-1.0.gir'), expdir)
        for src in sorted(glob.glob(os.path.join(runner.REPO, 'tests', 'scanner', '*-expected.gir'))):
            shutil.copy(src, os.path.join(expdir, os.path.basename(src).replace('-expected', '')))
        out_fx, out_sys = os.path.join(scratch, 'exp-fx'), os.path.join(scratch, 'exp-sys')
        os.makedirs(out_fx)
        os.makedirs(out_sys)
        girs = [g for g in sorted(glob.glob(os.path.join(expdir, '*.gir'))) if os.path.basename(g) != 'cairo-1.0.gir']
        res = both_ways(girs, expdir, out_fx, out_sys, [fxout, gir_fx], [cbuild.SYS_TYPELIBS, gir_sys])
        for gir in girs:
            st1, d1, st2, d2 = res[gir]
            problems = rnclite.check(schema, gir)
            detail = d2 if st2 not in ('ok', '-') else (d1 if st1 != 'ok' else d2 or d1)
            if problems:
                detail += ' | RNC: ' + problems[0]
            rows.append(('tests/scanner/' + os.path.basename(gir)[:-4] + '-expected.gir',
                         ','.join(includes_of(gir)) or '-', st1, st2, detail))
            if sysgir and st2 != 'ok':
                bad.append(os.path.basename(gir))

        # ---- table -------------------------------------------------------------------------
        w0 = max(len(r[0]) for r in rows)
        w1 = max(len(r[1]) for r in rows)
        w2 = max(len(r[2]) for r in rows + [('', '', 'with fixtures')])
        w3 = max(len(r[3]) for r in rows + [('', '', '', 'with sysgir')])
        fmt = '%%-%ds  %%-%ds  %%-%ds  %%-%ds  %%s' % (w0, w1, w2, w3)
        print()
        print(fmt % ('GIR', 'includes', 'with fixtures', 'with sysgir', 'detail (compile + g-ir-generate)'))
        print(fmt % ('-' * w0, '-' * w1, '-' * w2, '-' * w3, '-' * 20))
        for r in rows:
            print(fmt % r)
        print()
        if bad:
            print('NOT AS EXPECTED: %s' % ', '.join(bad))
            return 1
        print('calibration ok: %d rows' % len(rows))
        return 0
    except runner.HarnessError as e:
        print('HARNESS ERROR: %s' % e)
        return 2
    finally:
        shutil.rmtree(scratch, ignore_errors=True)


if __name__ == '__main__':
    sys.exit(main(sys.argv[1:]))
