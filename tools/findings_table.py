#!/venv/bin/python
"""Print known_findings.json as the markdown tables of DESIGN.md section 9."""
import json, os
VERIF = os.path.dirname(os.path.dirname(os.path.abspath(__file__)))
kf = json.load(open(os.path.join(VERIF, 'known_findings.json')))['findings']
def row(f):
    what = f['what']
    if what.startswith('fixed:'):
        what = what.split(' ', 3)[3] if len(what.split(' ', 3)) > 3 else what
    what = what.replace('|', '\\|').replace('\n', ' ')
    return what
print('### Repaired in /repo ("fix:" commits)\n')
print('| Property | key | /repo commit | what failed |\n|---|---|---|---|')
for f in sorted((f for f in kf if f['status'] == 'fixed'), key=lambda f: f['property']):
    print('| %s | `%s` | %s | %s |' % (f['property'], f['key'], f.get('commit', '?'), row(f)[:420]))
print('\n### Open (recorded, not repaired)\n')
print('| Property | key | witness | what fails |\n|---|---|---|---|')
for f in sorted((f for f in kf if f['status'] == 'open'), key=lambda f: f['property']):
    print('| %s | `%s` | %s | %s |' % (f['property'], f['key'], f.get('witness', ''), row(f)[:420]))
