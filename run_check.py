#!/venv/bin/python
"""Entry point: run_check.py <ID> --tier quick|thorough [--replay FILE]"""
import os
import sys

_ENV = {
    # fixed hash seed unless the caller chose one (C16 varies it in its workers)
    'PYTHONHASHSEED': '0',
    # This VM serialises page faults / mmap between processes: with the default
    # allocators 16 workers run ~4x slower than one. Keep freed memory in-process.
    'PYTHONMALLOC': 'malloc',
    'MALLOC_TRIM_THRESHOLD_': '2000000000',
    'MALLOC_TOP_PAD_': '268435456',
    'MALLOC_MMAP_THRESHOLD_': '1073741824',
    'MALLOC_ARENA_MAX': '1',
}
if os.environ.get('_VERIF_REEXEC') != '1':
    for k, v in _ENV.items():
        os.environ.setdefault(k, v)
    os.environ['_VERIF_REEXEC'] = '1'
    os.execv(sys.executable, [sys.executable] + sys.argv)

sys.path.insert(0, os.path.dirname(os.path.abspath(__file__)))
sys.dont_write_bytecode = True
from vlib import runner  # noqa

if __name__ == '__main__':
    sys.exit(runner.main())
