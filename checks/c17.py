"""C17 - requiring a namespace loads the right typelib version and its dependencies.

Model-based testing of girepository.c's loader.  A case is a WORLD (directories, typelib files
compiled by the freshly built g-ir-compiler from tiny generated GIRs, GI_TYPELIB_PATH) plus a
HISTORY of prepend / require / require_private / load / query calls.  The history is played,
one command at a time, against the `repo` driver (vlib/drivers/repo.c) in one fresh process,
and every reply is compared with a reference model written from the property statement and the
doc comments of the public API (DESIGN appendix B).

The model is *non-deterministic*: where the statement and the documentation leave a choice open
it yields every admissible outcome, the reply selects the outcomes that are consistent with it,
and the set of still-possible model states is carried on.  No reply may be consistent with none.
The open choices (labelled `undecided:*` when one of them actually mattered) are

  tie                 numerically equal version strings ("2", "2.0") in one directory
  nonnumeric-version  whether a file whose version is not <digits>[.<digits>] ("x", "", "2x",
                      "1.a") takes part in the version-less election / enumerate_versions
  dep-order           order in which the recorded dependencies are loaded (which error is
                      reported and which dependencies stay loaded when one of them fails)
  partial-state       whether dependencies loaded before a failing one stay loaded
  private-deps-path   where the dependencies of a require_private()d namespace are searched
                      (global path / private directory / private directory first)
  lazy-then-nonlazy   a non-lazy request for a lazily loaded namespace promotes the lazy
                      entry, or searches afresh and replaces it
  invalid-file-error-class   error class reported for a file that is not a typelib
  listed-versions     whether enumerate_versions lists versions of files that cannot be loaded

Disagreements with the unchanged tree that the statement/documentation decide against the code are
open entries of known_findings.json (witnesses in known/C17/): lazy-to-nonlazy-transition,
load-typelib-replaces-loaded-namespace, versionless-require-accepts-content-version-mismatch,
enumerate-versions-omits-loaded-version.  The model marks exactly those outcomes as `known:<key>`.
"""
import itertools
import json
import os
import re
import select
import shutil
import subprocess
import hashlib
import time

from hypothesis import strategies as st

from vlib import cbuild
from vlib.runner import Violation, Discard, HarnessError, case_hash

ID = 'C17'
LEVEL = 'exploration'
RULE = ('Hypothesis-generated worlds (1-5 directories, some missing or empty; files <NS>-<version>.typelib for '
        'namespaces A..F with versions 1.0 1.9 1.10 2 2.0 10.1 and non-numeric ones x, 1.a, "", 2x; contents are real '
        'g-ir-compiler outputs naming the same or another namespace/version, a dependency DAG with recorded versions '
        'that may be absent or conflicting; garbage and empty files; an ordered subset of the directories in '
        'GI_TYPELIB_PATH) and histories of 3-15 calls (prepend, require, require_private, load_typelib from '
        'memory/mapped file, lazy flag, and the queries loaded / version / path / immediate / deps / versions / '
        'registered / searchpath), each played in a fresh driver process against a non-deterministic reference model. '
        'non-trivial = the history has a version-less require with >= 2 candidate versions in >= 2 directories, or a '
        'require that failed after loading some dependencies followed by a query; distinct = hash of the case')
ASSUMPTIONS = [
    'search-path precedence between prepended and environment directories follows the statement and the function '
    'documentation (prepended first); the SECTION comment of girepository.c claims the opposite (reported)',
    'namespace names are dash-free single letters and never "GIRepository"; directory names contain no blanks/colons',
    'queries whose documented precondition (namespace loaded, dependency closure loaded) fails are not sent',
    'the GLib shim and the system GLib are trusted (substrate C); typelibs are cached per compiler build by GIR text',
    'a request with G_IREPOSITORY_LOAD_FLAG_LAZY registers the namespace without loading its dependencies, and a lazily '
    'loaded namespace counts as loaded for the queries (DESIGN appendix B rules 5 and 7; the flag is documented only as '
    '"Lazily load the typelib")',
    'open choices listed in the module docstring are accepted either way (labels undecided:*)',
    'histories are cut (label history-cut-at-known:*) where an open known finding would corrupt the process state: '
    'before a lazy-to-non-lazy transition and after load_typelib replaced a loaded namespace',
]
TECHNIQUE = ('model-based stateful testing: Hypothesis-generated world + call history, one fresh ASan/UBSan driver '
             'process per history, every reply compared with a non-deterministic reference model of DESIGN appendix B')
LEVEL_TEXT = ('Randomised search over search-path configurations, file assignments, dependency graphs and call histories; '
              'the oracle is a reference model written from the statement and the API documentation, not from the code.')
LEVEL_NOTE = ('trusts the reference model; choices the statement leaves open are accepted either way; histories are '
              'at most 15 calls over 6 namespaces')
DESIGN_REF = 'DESIGN.md section 2 C17, appendix B'

NSS = ['A', 'B', 'C', 'D', 'E', 'F']
GOOD = ['1.0', '1.9', '1.10', '2', '2.0', '10.1']
BAD = ['x', '1.a', '', '2x']
STRICT = re.compile(r'^[0-9]+(\.[0-9]+)?$')
BUILTIN = '<builtin>'

K_VERSIONLESS = 'versionless-require-accepts-content-version-mismatch'
K_LOAD_CONFLICT = 'load-typelib-replaces-loaded-namespace'
K_LAZY = 'lazy-to-nonlazy-transition'
K_ENUM = 'enumerate-versions-omits-loaded-version'


# ------------------------------------------------------------------------------ generator
def _ver(canon):
    return st.one_of(st.just(canon), st.just(canon), st.just(canon), st.sampled_from(GOOD), st.sampled_from(GOOD),
                     st.sampled_from(GOOD + BAD))


@st.composite
def _deps(draw, i, canon_ver):
    later = NSS[i + 1:]
    if not later:
        return []
    k = draw(st.sampled_from([0, 1, 1, 2, 2, 3]))
    names = draw(st.lists(st.sampled_from([later[0]] * 3 + later), min_size=min(k, len(later)), max_size=min(k, len(later)), unique=True))
    out = []
    for n in names:
        v = draw(st.sampled_from([canon_ver[n]] * 40 + GOOD + BAD))
        out.append([n, v])
    return out


@st.composite
def _case(draw):
    ndirs = draw(st.sampled_from([1, 2, 2, 3, 3, 3, 4, 5]))
    states = [draw(st.sampled_from(['ok'] * 8 + ['missing', 'empty'])) for _ in range(ndirs)]
    if 'ok' not in states:
        states[0] = 'ok'
    canon_ver = dict((n, draw(st.sampled_from(['1.0'] * 8 + ['2.0'] * 4 + GOOD))) for n in NSS)
    canon_deps = dict((n, draw(_deps(i, canon_ver))) for i, n in enumerate(NSS))
    okdirs = [i for i in range(ndirs) if states[i] == 'ok']
    dirs = [{'state': s, 'files': []} for s in states]

    def clean(ns, ver):
        return {'fns': ns, 'fver': ver, 'kind': 'typelib', 'ns': ns, 'ver': ver, 'deps': canon_deps[ns]}

    inenv = [i for i in range(ndirs) if draw(st.sampled_from([True] * 5 + [False]))]
    env = list(draw(st.permutations(inenv))) if inenv else []
    envok = [i for i in env if states[i] == 'ok']
    # per namespace 0-4 placements: the first is the canonical clean file (mostly in an environment
    # directory), the others other versions, other directories, other contents
    for i, ns in enumerate(NSS):
        for k in range(draw(st.sampled_from([0, 1, 1, 2, 2, 3, 3, 4]))):
            if k == 0:
                d = draw(st.sampled_from(envok * 4 + okdirs))
                dirs[d]['files'].append(clean(ns, canon_ver[ns]))
                continue
            d = draw(st.sampled_from(okdirs))
            fver = draw(st.sampled_from(GOOD * 3 + BAD + [canon_ver[ns]] * 5))
            kind = draw(st.sampled_from(['clean'] * 7 + ['variant', 'variant', 'ns-mismatch', 'ns-mismatch', 'ver-mismatch', 'ver-mismatch', 'garbage', 'emptyfile']))
            if fver == canon_ver[ns] and kind not in ('clean', 'variant'):
                kind = 'clean'      # keep the canonical files loadable so that dependency chains succeed
            f = clean(ns, fver)
            if kind == 'variant':
                f['deps'] = draw(_deps(i, canon_ver))
            elif kind == 'ns-mismatch':
                other = draw(st.sampled_from([n for n in NSS if n != ns]))
                f.update(ns=other, deps=[])
            elif kind == 'ver-mismatch':
                f['ver'] = draw(st.sampled_from([v for v in GOOD if v != fver]))
            elif kind in ('garbage', 'emptyfile'):
                f = {'fns': ns, 'fver': fver, 'kind': kind}
            dirs[d]['files'].append(f)
            if fver in ('2', '2.0') and kind == 'clean' and draw(st.sampled_from([True, False])):
                # numerically equal version strings in one directory (the statement leaves the choice open)
                dirs[d]['files'].append(clean(ns, '2' if fver == '2.0' else '2.0'))
    for d in dirs:
        seen, keep = set(), []
        for f in d['files']:
            if (f['fns'], f['fver']) not in seen:
                seen.add((f['fns'], f['fver']))
                keep.append(f)
        d['files'] = keep
    nfiles = sum(len(d['files']) for d in dirs)

    hist = []
    for _ in range(max(draw(st.integers(3, 15)), draw(st.integers(3, 15)))):
        op = draw(st.sampled_from(['prepend'] * 3 + ['require'] * 7 + ['require_private'] * 2 + ['load'] * 2 + ['q'] * 7))
        if op == 'prepend':
            hist.append({'op': 'prepend', 'dir': draw(st.integers(0, ndirs - 1))})
        elif op in ('require', 'require_private'):
            ns = draw(st.sampled_from(['A', 'A', 'A', 'B', 'B', 'C', 'C', 'D', 'E', 'F']))
            placed = sorted(set(f['fver'] for d in dirs for f in d['files'] if f['fns'] == ns)) or [canon_ver[ns]]
            vk = draw(st.sampled_from(['none'] * 6 + ['placed'] * 5 + ['canon', 'random']))
            ver = (None if vk == 'none' else draw(st.sampled_from(placed)) if vk == 'placed' else
                   canon_ver[ns] if vk == 'canon' else draw(st.sampled_from(GOOD + BAD)))
            h = {'op': op, 'ns': ns, 'ver': ver, 'lazy': draw(st.sampled_from([False] * 6 + [True]))}
            if op == 'require_private':
                h['dir'] = draw(st.integers(0, ndirs - 1))
            hist.append(h)
        elif op == 'load':
            if nfiles:
                hist.append({'op': 'load', 'file': draw(st.integers(0, nfiles - 1)), 'lazy': draw(st.sampled_from([False] * 6 + [True])),
                             'how': draw(st.sampled_from(['mem', 'map']))})
        else:
            what = draw(st.sampled_from(['loaded', 'loaded', 'version', 'path', 'immediate', 'deps', 'deps', 'deps', 'versions',
                                         'versions', 'registered', 'searchpath']))
            h = {'op': 'q', 'what': what}
            if what not in ('loaded', 'searchpath'):
                h['ns'] = draw(st.sampled_from(NSS))
                h['adapt'] = draw(st.sampled_from([True, True, True, False]))
                h['idx'] = draw(st.integers(0, 5))
            if what == 'registered':
                h['ver'] = draw(st.one_of(st.none(), st.sampled_from(GOOD)))
                h['same'] = draw(st.booleans())
            hist.append(h)
    return {'dirs': dirs, 'env': env, 'history': hist}


# ------------------------------------------------------------------------------ world on disk
GIR = ('<?xml version="1.0"?>\n<repository version="1.2" xmlns="http://www.gtk.org/introspection/core/1.0" '
       'xmlns:c="http://www.gtk.org/introspection/c/1.0" xmlns:glib="http://www.gtk.org/introspection/glib/1.0">\n'
       '%s  <namespace name="%s" version="%s" c:identifier-prefixes="%s" c:symbol-prefixes="%s">\n'
       '    <constant name="K" value="1" c:type="%s_K"><type name="gint" c:type="gint"/></constant>\n'
       '  </namespace>\n</repository>\n')

_B = None
STATS = {'compiled': 0, 't_compile': 0.0, 't_world': 0.0, 't_driver': 0.0}


def _build():
    global _B
    if _B is None:
        _B = cbuild.build()
    return _B


def setup(tier):
    _build()


def _gir(ns, ver, deps):
    inc = ''.join('  <include name="%s" version="%s"/>\n' % (d[0], d[1]) for d in deps)
    return GIR % (inc, ns, ver, ns, ns.lower(), ns.upper())


def typelib_for(b, ns, ver, deps, scratch):
    """Path of the g-ir-compiler output for a tiny namespace `ns`-`ver` including `deps`;
    cached per compiler build (the cache lives inside the build directory) by GIR text."""
    text = _gir(ns, ver, deps)
    key = hashlib.sha1(text.encode()).hexdigest()[:20]
    cache = os.path.join(b.dir, 'c17-typelibs')
    out = os.path.join(cache, key + '.typelib')
    if os.path.exists(out):
        return out
    os.makedirs(cache, exist_ok=True)
    tmp = os.path.join(scratch, 'gir-%s' % key)
    shutil.rmtree(tmp, ignore_errors=True)
    os.makedirs(tmp)
    try:
        for d in deps:
            with open(os.path.join(tmp, '%s-%s.gir' % (d[0], d[1])), 'w') as f:
                f.write(_gir(d[0], d[1], []))
        src = os.path.join(tmp, '%s-%s.gir' % (ns, ver))
        with open(src, 'w') as f:
            f.write(text)
        res = os.path.join(cache, '.%s.%d.tmp' % (key, os.getpid()))
        t0 = time.time()
        rc, o, e = b.compile_gir(src, res, includedirs=[tmp])
        STATS['compiled'] += 1
        STATS['t_compile'] += time.time() - t0
        if rc != 0 or not os.path.exists(res):
            raise HarnessError('C17: g-ir-compiler failed on a generated GIR (%s-%s deps %r): rc %s %s'
                               % (ns, ver, deps, rc, e[-600:]))
        os.replace(res, out)
    finally:
        shutil.rmtree(tmp, ignore_errors=True)
    return out


class World(object):
    def __init__(self, case, root, b, scratch):
        self.dirs = []          # absolute path per directory index
        self.files = {}         # existing directory -> {file name: file object}
        self.flat = []          # (path, file object) in generation order, for `load`
        for i, d in enumerate(case['dirs']):
            p = os.path.join(root, 'd%d' % i)
            self.dirs.append(p)
            if d['state'] == 'missing':
                continue
            if b is not None:
                os.makedirs(p)
            self.files[p] = {}
            for f in (d['files'] if d['state'] == 'ok' else []):
                name = '%s-%s.typelib' % (f['fns'], f['fver'])
                fp = os.path.join(p, name)
                if b is None:
                    pass
                elif f['kind'] == 'typelib':
                    shutil.copyfile(typelib_for(b, f['ns'], f['ver'], f['deps'], scratch), fp)
                else:
                    with open(fp, 'wb') as fh:
                        fh.write(b'this is not a typelib\n' * 8 if f['kind'] == 'garbage' else b'')
                self.files[p][name] = f
                self.flat.append((fp, f))


# ------------------------------------------------------------------------------ reference model
# state = (search path tuple, entries) ; entries = sorted tuple of (ns, version, path, deps tuple, lazy)
# An alternative is (result, state, flags): result is 'ok' or ('err', class or None = any class).

def _ents(state):
    return dict((e[0], e) for e in state[1])


def _with(state, entry=None, path=None):
    ents = _ents(state)
    if entry is not None:
        ents[entry[0]] = entry
    return (state[0] if path is None else tuple(path), tuple(sorted(ents.values())))


def _num(v):
    p = v.split('.')
    return (int(p[0]), int(p[1]) if len(p) > 1 else 0)


def find_exact(W, dirs, ns, ver):
    name = '%s-%s.typelib' % (ns, ver)
    for d in dirs:
        f = W.files.get(d, {}).get(name)
        if f is not None:
            return os.path.join(d, name), f
    return None


def find_latest(W, dirs, ns):
    """[((path, file), flags)]: the statement's election plus the open choices."""
    strict, loose = [], []
    for i, d in enumerate(dirs):
        for name, f in sorted(W.files.get(d, {}).items()):
            if f['fns'] != ns:
                continue
            (strict if STRICT.match(f['fver']) else loose).append((i, f['fver'], (os.path.join(d, name), f)))
    out = []
    if strict:
        best = max(_num(c[1]) for c in strict)
        top = [c for c in strict if _num(c[1]) == best]
        first = min(c[0] for c in top)
        top = [c for c in top if c[0] == first]
        for c in top:
            out.append((c[2], ('tie',) if len(top) > 1 else ()))
    for c in loose:
        out.append((c[2], ('undecided:nonnumeric-version',)))
    ndirs_best = len(set(c[0] for c in strict if _num(c[1]) == best)) if strict else 0
    return out, (len(set(c[1] for c in strict)), len(set(c[0] for c in strict)), ndirs_best)


def m_deps(W, state, deps, depdirs, depth):
    """Load `deps` ([(ns, version)]) in some order: set of (error class | None | 'ANY', state, flags, depth)."""
    def run(order):
        sts = set([(None, state, (), 0)])
        for dns, dver in order:
            new = set()
            for err, s, fl, dp in sts:
                if err is not None:
                    new.add((err, s, fl, dp))
                    continue
                for res, s2, fl2, dp2 in m_require(W, s, dns, dver, False, depdirs, depdirs, depth + 1):
                    e2 = None if res == 'ok' else (res[1] or 'ANY')
                    new.add((e2, s2, tuple(sorted(set(fl + fl2))), max(dp, dp2 + 1)))
            sts = new
        return sts
    deps = [tuple(d) for d in deps]
    first = run(deps)
    if all(o[0] is None for o in first) or len(deps) < 2:
        return first
    out = set()
    for perm in itertools.permutations(deps):
        out |= run(perm)
    if len(set((o[0], o[1]) for o in out)) > len(set((o[0], o[1]) for o in first)):
        out = set((e, s, tuple(sorted(set(fl + ('undecided:dep-order',)))), dp) for e, s, fl, dp in out)
    return out


def m_register(W, state, ns, ver, path, deps, lazy, depdirs, depth, flags):
    """Register content (ns, ver, deps) found at `path`: list of alternatives."""
    depstr = tuple('%s-%s' % (d[0], d[1]) for d in deps)
    if lazy:
        return [('ok', _with(state, (ns, ver, path, depstr, True)), flags, 0)]
    out = []
    for err, s2, fl, dp in m_deps(W, state, deps, depdirs, depth):
        fl = tuple(sorted(set(flags + fl)))
        if err is None:
            out.append(('ok', _with(s2, (ns, ver, path, depstr, False)), fl, dp))
        else:
            cls = None if err == 'ANY' else err
            if s2 != state:
                out.append((('err', cls), s2, fl + ('partial-load',), dp))
                out.append((('err', cls), state, fl + ('undecided:partial-state',), dp))
            else:
                out.append((('err', cls), s2, fl, dp))
    return out


def m_require(W, state, ns, ver, lazy, dirs, depdirs, depth=0):
    """Alternatives (result, state, flags, dependency depth) of requiring ns/ver through `dirs`."""
    if depth > 8:
        raise HarnessError('C17 model: dependency recursion too deep')
    e = _ents(state).get(ns)
    if e is not None and (lazy or not e[4]):
        if ver is None or ver == e[1]:
            return [('ok', state, ('already-loaded',), 0)]
        return [(('err', 'conflict'), state, ('already-loaded',), 0)]
    out = []
    base = ()
    if e is not None:
        # lazily loaded, non-lazy request: promote the entry ...
        base = ('undecided:lazy-then-nonlazy',)
        if ver is None or ver == e[1]:
            deps = [d.rsplit('-', 1) for d in e[3]]
            for a in m_register(W, state, ns, e[1], e[2], deps, False, depdirs, depth, ('lazy-promote',)):
                out.append(a)
        else:
            out.append((('err', 'conflict'), state, ('lazy-promote',), 0))
        # ... or search afresh
    if ver is not None:
        hit = find_exact(W, dirs, ns, ver)
        cands = [(hit, ())] if hit else []
    else:
        cands, _ = find_latest(W, dirs, ns)
    if not [c for c in cands if 'undecided:nonnumeric-version' not in c[1]]:
        # nothing with a numeric version: not found (files with non-numeric versions, if any, are an open choice)
        out.append((('err', 'not-found'), state, base + (('undecided:nonnumeric-version',) if cands else ()), 0))
    for (path, f), fl in cands:
        fl = base + fl
        if f['kind'] != 'typelib':
            out.append((('err', None), state, fl + ('undecided:invalid-file-error-class',), 0))
        elif f['ns'] != ns:
            out.append((('err', 'mismatch'), state, fl + ('mismatch-file',), 0))
        elif ver is not None and f['ver'] != ver:
            out.append((('err', 'mismatch'), state, fl + ('mismatch-file',), 0))
        elif ver is None and f['ver'] != f['fver']:
            out.append((('err', 'mismatch'), state, fl + ('mismatch-file',), 0))
            out += m_register(W, state, ns, f['ver'], path, f['deps'], lazy, depdirs, depth, fl + ('known:' + K_VERSIONLESS,))
        else:
            out += m_register(W, state, ns, f['ver'], path, f['deps'], lazy, depdirs, depth, fl)
    return out


def m_load(W, state, f, lazy):
    """load_typelib of file object f (a valid typelib) from memory."""
    ns, ver = f['ns'], f['ver']
    e = _ents(state).get(ns)
    gpath = list(state[0])
    if e is not None and (lazy or not e[4]):
        if ver == e[1]:
            return [('ok', state, ('already-loaded',), 0)]
        # known finding: no conflict is reported, the typelib is registered over the loaded one (old path kept)
        return ([(('err', 'conflict'), state, ('already-loaded',), 0)] +
                m_register(W, state, ns, ver, e[2], f['deps'], False, gpath, 0, ('known:' + K_LOAD_CONFLICT,)))
    out = []
    base = ()
    if e is not None:
        base = ('undecided:lazy-then-nonlazy',)
        if ver == e[1]:
            deps = [d.rsplit('-', 1) for d in e[3]]
            out += m_register(W, state, ns, e[1], e[2], deps, False, gpath, 0, ('lazy-promote',))
        else:
            out.append((('err', 'conflict'), state, ('lazy-promote',), 0))
    out += m_register(W, state, ns, ver, BUILTIN, f['deps'], lazy, gpath, 0, base)
    return out


def closure(state, ns):
    """Transitive dependency strings of a loaded namespace; None when some dependency is not loaded."""
    ents = _ents(state)
    seen, todo = set(), [ns]
    while todo:
        n = todo.pop()
        for d in ents[n][3]:
            if d not in seen:
                seen.add(d)
                dn = d.rsplit('-', 1)[0]
                if dn not in ents:
                    return None
                todo.append(dn)
    return seen


def would_transition(W, state, alts):
    return any('lazy-promote' in a[2] or 'undecided:lazy-then-nonlazy' in a[2] for a in alts)


# ------------------------------------------------------------------------------ driver process
class Driver(object):
    def __init__(self, b, env_extra, cwd, errpath):
        self.errpath = errpath
        self.err = open(errpath, 'wb')
        try:
            self.p = subprocess.Popen([b.driver('repo')], stdin=subprocess.PIPE, stdout=subprocess.PIPE, stderr=self.err,
                                      cwd=cwd, env=b.env(env_extra))
        except OSError as e:
            raise HarnessError('C17: cannot start the repo driver: %s' % e)
        self.buf = b''
        self.hung = False

    def cmd(self, line, timeout=300):
        """Reply object, or None when the process died / hung."""
        try:
            self.p.stdin.write(line.encode() + b'\n')
            self.p.stdin.flush()
        except (BrokenPipeError, OSError):
            return None
        fd = self.p.stdout.fileno()
        while b'\n' not in self.buf:
            r, _, _ = select.select([fd], [], [], timeout)
            if not r:
                self.p.kill()
                self.hung = True
                return None
            chunk = os.read(fd, 65536)
            if not chunk:
                return None
            self.buf += chunk
        raw, self.buf = self.buf.split(b'\n', 1)
        try:
            return json.loads(raw.decode('utf-8', 'replace'))
        except ValueError:
            raise HarnessError('C17: driver printed %r' % raw[:200])

    def close(self):
        try:
            self.p.stdin.close()
        except OSError:
            pass
        try:
            rc = self.p.wait(timeout=60)
        except subprocess.TimeoutExpired:
            self.p.kill()
            rc = self.p.wait()
        self.p.stdout.close()
        self.err.close()
        with open(self.errpath, 'rb') as f:
            return rc, f.read().decode('utf-8', 'replace')


def crash_summary(rc, err):
    m = re.search(r'SUMMARY: (\w+): ([\w-]+) \S*?([\w.]+):\d+(?::\d+)? in (\w+)', err)
    if m:
        return 'crash:%s@%s' % (m.group(2), m.group(4))
    m = re.search(r'runtime error: ([^\n]{0,80})', err)
    if m:
        return 'crash:ubsan'
    m = re.search(r'ERROR:[^:\n]*?([\w.]+):\d+:(\w+): assertion failed', err)
    if m:
        return 'crash:assertion@%s' % m.group(2)
    return 'crash:rc%s' % rc


def tokv(v):
    return '-' if v is None else ('@' if v == '' else v)


# ------------------------------------------------------------------------------ the oracle
_COUNTER = [0]


SHRINK_RUNS = 150      # driver processes spent on shrinking one shard's failure (each costs a process)


def check_case(case, ctx):
    # Bounded shrinking: once a shard has a failure, at most SHRINK_RUNS further histories are really
    # played; later candidates count as "not failing" (Hypothesis then stops shrinking) and a candidate
    # seen before gets its recorded verdict, so the final replay of the minimal example is stable.
    memo = ctx.__dict__.setdefault('_c17_shrink', {'failed': False, 'left': SHRINK_RUNS, 'seen': {}})
    key = case_hash(case)
    verdict = memo['seen'].get(key)
    if verdict is None:
        if memo['failed']:
            if memo['left'] <= 0:
                raise Discard()
            memo['left'] -= 1
        try:
            _check_case(case, ctx)
            return
        except Violation as v:
            verdict = memo['seen'][key] = (v.clause, v.detail)
            memo['failed'] = True
    # one raise site for first-hand and remembered verdicts: Hypothesis identifies a failure by where it was raised
    raise Violation(*verdict)


def _check_case(case, ctx):
    b = _build()
    scratch = ctx.mkscratch()
    _COUNTER[0] += 1
    root = os.path.join(scratch, 'w%d' % _COUNTER[0])
    shutil.rmtree(root, ignore_errors=True)
    os.makedirs(os.path.join(root, 'cwd'))
    try:
        _play(case, ctx, b, scratch, root)
    finally:
        shutil.rmtree(root, ignore_errors=True)


def _play(case, ctx, b, scratch, root):
    t0 = time.time()
    W = World(case, root, b, scratch)
    STATS['t_world'] += time.time() - t0
    t0 = time.time()
    try:
        _play2(case, ctx, b, scratch, root, W)
    finally:
        STATS['t_driver'] += time.time() - t0


def _play2(case, ctx, b, scratch, root, W):
    envdirs = [W.dirs[i] for i in case['env']]
    libdir = cbuild.NOWHERE + '/lib/girepository-1.0'
    states = [(tuple(envdirs), ())]
    drv = Driver(b, {'GI_TYPELIB_PATH': ':'.join(envdirs)} if envdirs else None, os.path.join(root, 'cwd'),
                 os.path.join(root, 'stderr.txt'))
    labels = set()
    trace = []
    nontrivial = [False]
    partial_seen = [False]
    stop = [None]

    def fail(clause, detail):
        raise Violation(clause, '%s | trace: %s' % (detail, ' ; '.join(trace[-12:])))

    def send(line):
        r = drv.cmd(line)
        trace.append('%s -> %s' % (line.replace(root, ''), json.dumps(r, sort_keys=True).replace(root, '') if r is not None else 'DIED'))
        if r is None:
            rc, err = drv.close()
            if drv.hung:
                fail('driver-hang', 'no reply to %r within 300 s' % line.replace(root, ''))
            fail(crash_summary(rc, err), 'driver died (rc %s) on %r: %s' % (rc, line.replace(root, ''), err.replace(root, '')[-1500:]))
        if 'error' in r and 'ok' not in r:
            raise HarnessError('C17: driver rejected %r' % line)
        return r

    def matches(alt, ns, r):
        res, s2 = alt[0], alt[1]
        if res == 'ok':
            if not r.get('ok') or r.get('error_also_set'):
                return False
            e = _ents(s2)[ns]
            return r.get('path') == e[2] and r.get('version') == e[1] and (r.get('tl_ns', r.get('ns')) == ns)
        if r.get('ok'):
            return False
        return res[1] is None or r.get('class') == res[1]

    def describe(alts, ns):
        out = []
        for a in alts[:6]:
            if a[0] == 'ok':
                e = _ents(a[1])[ns]
                out.append('ok %s version %r%s' % (e[2].replace(root, ''), e[1], ' [%s]' % ','.join(a[2]) if a[2] else ''))
            else:
                out.append('error %s' % (a[0][1] or 'any'))
        return ' or '.join(sorted(set(out)))

    def settle(alts, ns, r, what, clause_hint):
        """Keep the alternatives the reply is consistent with; handles known findings."""
        plain = [a for a in alts if not any(f.startswith('known:') for f in a[2])]
        ok = [a for a in plain if matches(a, ns, r)]
        known = [a for a in alts if a not in plain and matches(a, ns, r)]
        keys = sorted(set(f[6:] for a in known for f in a[2] if f.startswith('known:')))
        if ok:
            # the reply fits the statement, but an open known defect explains it just as well (e.g. the
            # defect path ends in the same error class with other namespaces left loaded): keep both
            for k in keys:
                if ctx.known(k):
                    ok = ok + [a for a in known if 'known:' + k in a[2]]
        else:
            if known and ctx.known(keys[0]):
                ok = known
            else:
                clause = keys[0] if known else clause_hint(plain, r)
                fail(clause, '%s: model expects %s; got %s' % (what, describe(plain, ns), json.dumps(r, sort_keys=True).replace(root, '')))
        # an open choice only "mattered" when the admissible outcomes differ
        open_ = len(set((repr(a[0]), a[1]) for a in plain)) > 1
        for a in ok:
            labels.update(f for f in a[2] if not f.startswith('known:') and (open_ or not f.startswith('undecided:')))
        new = []
        for a in ok:
            if a[1] not in new:
                new.append(a[1])
        return new, ok

    def hint(plain, r):
        exp = sorted(set('ok' if a[0] == 'ok' else (a[0][1] or 'error') for a in plain))
        got = 'ok' if r.get('ok') else r.get('class', '?')
        if got == 'ok' and 'ok' in exp:
            return 'wrong-file-or-version-elected'
        return 'result-class:expected-%s-got-%s' % ('/'.join(exp), got)

    try:
        for h in case['history']:
            op = h['op']
            if len(states) > 64:
                raise Discard()
            if op == 'prepend':
                d = W.dirs[h['dir']]
                send('prepend ' + d)
                states = [_with(s, path=(d,) + s[0]) for s in states]
                labels.add('prepend')
            elif op in ('require', 'require_private'):
                ns, ver, lazy = h['ns'], h['ver'], bool(h['lazy'])
                alts = []
                for s in states:
                    if op == 'require':
                        alts += m_require(W, s, ns, ver, lazy, list(s[0]), list(s[0]))
                    else:
                        pd = W.dirs[h['dir']]
                        variants = [('G', list(s[0])), ('P', [pd]), ('PG', [pd] + list(s[0]))]
                        got = []
                        for name, depdirs in variants:
                            got.append(m_require(W, s, ns, ver, lazy, [pd], depdirs))
                        sig = [sorted(set((repr(a[0]), a[1]) for a in g)) for g in got]
                        alts += got[0]
                        if sig[1] != sig[0] or sig[2] != sig[0]:
                            for g in got[1:]:
                                alts += [(a[0], a[1], a[2] + ('undecided:private-deps-path',), a[3]) for a in g]
                if would_transition(W, states, alts):
                    if ctx.known(K_LAZY):
                        stop[0] = K_LAZY
                        break
                # non-triviality (i): version-less, not yet loaded, >= 2 versions in >= 2 directories
                if ver is None and ns not in _ents(states[0]):
                    dirs_ = [W.dirs[h['dir']]] if op == 'require_private' else list(states[0][0])
                    _, (nv, nd, nb) = find_latest(W, dirs_, ns)
                    if nv >= 2 and nd >= 2:
                        nontrivial[0] = True
                        labels.add('versionless-multi-candidate')
                    if nb >= 2:
                        labels.add('highest-version-in-two-directories')
                line = ('require %s %s %d' % (ns, tokv(ver), lazy) if op == 'require' else
                        'require_private %s %s %s %d' % (W.dirs[h['dir']], ns, tokv(ver), lazy))
                r = send(line)
                before = states
                states, ok = settle(alts, ns, r, line.replace(root, ''), hint)
                labels.add('res:' + ('ok' if r.get('ok') else r.get('class', '?')))
                labels.add(op)
                if lazy:
                    labels.add('lazy-flag')
                if r.get('ok') and any(a[3] >= 2 for a in ok):
                    labels.add('dep-depth>=2')
                if r.get('ok') and any(a[3] >= 1 for a in ok):
                    labels.add('dep-depth>=1')
                if not r.get('ok') and any('partial-load' in a[2] for a in ok):
                    partial_seen[0] = True
                if ver is None and r.get('ok') and ns not in _ents(before[0]):
                    labels.add('versionless-elected')
            elif op == 'load':
                path, f = W.flat[h['file'] % len(W.flat)]
                lazy = bool(h['lazy'])
                line = 'load %s %d %s' % (path, lazy, h['how'])
                if f['kind'] != 'typelib':
                    r = send(line)
                    if r.get('ok') or r.get('class') != 'invalid-typelib':
                        fail('invalid-file-accepted-by-typelib-constructor', '%s -> %r' % (line.replace(root, ''), r))
                    labels.add('load-invalid')
                    continue
                alts = []
                for s in states:
                    alts += m_load(W, s, f, lazy)
                if would_transition(W, states, alts):
                    if ctx.known(K_LAZY):
                        stop[0] = K_LAZY
                        break
                if any('known:' + K_LOAD_CONFLICT in a[2] for a in alts) and lazy and ctx.known(K_LOAD_CONFLICT):
                    # the lazy flavour of this known defect aborts the process (g_assert); do not send
                    stop[0] = K_LOAD_CONFLICT
                    break
                r = send(line)
                before = states
                states, ok = settle(alts, f['ns'], r, line.replace(root, ''), hint)
                if any('known:' + K_LOAD_CONFLICT in a[2] for a in ok):
                    stop[0] = K_LOAD_CONFLICT     # the replaced typelib's memory is gone; nothing more to compare
                    break
                labels.add('load')
                labels.add('res:' + ('ok' if r.get('ok') else r.get('class', '?')))
                if lazy:
                    labels.add('lazy-flag')
                if not r.get('ok') and any('partial-load' in a[2] for a in ok):
                    partial_seen[0] = True
            else:
                what = h['what']
                labels.add('q:' + what)
                if partial_seen[0]:
                    nontrivial[0] = True
                    labels.add('query-after-partial-load')
                if what == 'searchpath':
                    r = send('searchpath')
                    states = [s for s in states if r.get('list') == list(s[0]) + [libdir]]
                    if not states:
                        fail('search-path-order', 'search path reported as %r' % ([x.replace(root, '') for x in r.get('list', [])],))
                    continue
                if what == 'loaded':
                    r = send('loaded')
                    keep = [s for s in states if sorted(r.get('list') or []) == sorted(_ents(s))]
                    if not keep:
                        fail('loaded-namespaces', 'reported %r, model %r' % (sorted(r.get('list') or []), sorted(_ents(states[0]))))
                    states = keep
                    continue
                ns = h['ns']
                cur = sorted(_ents(states[0]))
                if h.get('adapt') and cur:
                    if what == 'deps':      # prefer the namespaces with the largest dependency closure
                        cur.sort(key=lambda n: -len(closure(states[0], n) or ()))
                        cur = cur[:2]
                    ns = cur[h['idx'] % len(cur)]
                if what == 'registered':
                    ver = h.get('ver')
                    e0 = _ents(states[0]).get(ns)
                    if h.get('same') and e0 is not None and e0[1] != '':
                        ver = e0[1]
                    r = send('registered %s %s' % (ns, tokv(ver)))

                    def exp_reg(s):
                        e = _ents(s).get(ns)
                        return e is not None and (ver is None or ver == e[1])
                    keep = [s for s in states if r.get('value') == exp_reg(s)]
                    if not keep:
                        fail('is-registered', 'registered %s %r -> %r, model %r' % (ns, ver, r.get('value'), exp_reg(states[0])))
                    states = keep
                elif what == 'versions':
                    r = send('versions %s' % ns)
                    got = r.get('list') or []

                    def exp_versions(s):
                        req, opt = set(), set()
                        for d in s[0]:
                            for name, f in W.files.get(d, {}).items():
                                if f['fns'] != ns:
                                    continue
                                cleanf = f['kind'] == 'typelib' and f['ns'] == ns and f['ver'] == f['fver'] and STRICT.match(f['fver'])
                                (req if cleanf else opt).add(f['fver'])
                        e = _ents(s).get(ns)
                        if e is not None:
                            req.add(e[1])
                        return req, opt
                    keep = []
                    for s in states:
                        req, opt = exp_versions(s)
                        if req <= set(got) <= (req | opt):
                            keep.append(s)
                            if set(got) & (opt - req) or (opt - req) - set(got):
                                labels.add('undecided:listed-versions')
                    if not keep:
                        # known finding: the loaded version is left out when other versions are listed
                        for s in states:
                            e = _ents(s).get(ns)
                            req, opt = exp_versions(s)
                            if (e is not None and e[1] not in got and got and (req - set([e[1]])) <= set(got) <= (req | opt)
                                    and ctx.known(K_ENUM)):
                                keep.append(s)
                    if not keep:
                        req, opt = exp_versions(states[0])
                        fail('enumerate-versions', 'versions %s -> %r; model requires %r, optional %r' % (ns, sorted(got), sorted(req), sorted(opt - req)))
                    states = keep
                elif what == 'path':
                    r = send('path %s' % ns)
                    keep = [s for s in states if r.get('value') == (_ents(s)[ns][2] if ns in _ents(s) else None)]
                    if not keep:
                        e = _ents(states[0]).get(ns)
                        fail('typelib-path', 'path %s -> %r, model %r' % (ns, (r.get('value') or '').replace(root, ''), e and e[2].replace(root, '')))
                    states = keep
                else:
                    # version / immediate / deps: documented precondition "namespace loaded"
                    if what == 'deps' and any(ns in _ents(s) and closure(s, ns) is None for s in states):
                        labels.add('skipped:deps-closure-not-loaded')
                        continue
                    r = send('%s %s' % (what, ns))

                    def exp_q(s):
                        e = _ents(s).get(ns)
                        if e is None:
                            return {'unloaded': True}
                        if what == 'version':
                            return {'value': e[1]}
                        if what == 'immediate':
                            return {'list': sorted(e[3])}
                        return {'list': sorted(closure(s, ns))}
                    norm = dict(r)
                    if isinstance(norm.get('list'), list):
                        norm['list'] = sorted(norm['list'])
                    keep = [s for s in states if norm == exp_q(s)]
                    if not keep:
                        fail({'version': 'loaded-version', 'immediate': 'immediate-dependencies', 'deps': 'transitive-dependencies'}[what],
                             '%s %s -> %r, model %r' % (what, ns, norm, exp_q(states[0])))
                    states = keep
                    if what == 'deps' and ns in _ents(states[0]) and set(norm.get('list') or []) != set(_ents(states[0])[ns][3]):
                        labels.add('q:deps-beyond-immediate')
        rc, err = drv.close()
        drv = None
        if rc != 0:
            fail(crash_summary(rc, err), 'driver exit status %s: %s' % (rc, err.replace(root, '')[-1500:]))
        if re.search(r'CRITICAL \*\*|WARNING \*\*', err):
            fail('glib-critical-on-valid-history', err.replace(root, '')[-800:])
    finally:
        if drv is not None:
            try:
                drv.p.kill()
            except OSError:
                pass
            drv.close()
    if stop[0]:
        labels.add('history-cut-at-known:' + stop[0])
    if os.environ.get('C17_TRACE'):
        print('\n'.join(trace), '\nlabels:', sorted(labels))
    ctx.label(*sorted(labels))
    if nontrivial[0]:
        ctx.note_nontrivial(case)
        ctx.sample({'trace': [t.replace(root, '') for t in trace][:16]}, 3)


# ------------------------------------------------------------------------------ plan / health
def plan(tier):
    n = int(os.environ.get('C17_N', 0)) or (32 if tier == 'quick' else 2500)     # C17_N: ad-hoc exploration sizes
    return [{'n': n} for _ in range(16)]


def run_shard(ctx, spec):
    _build()
    ctx.hyp(_case(), spec['n'])
    ctx.extra['typelibs_compiled'] = STATS['compiled']
    ctx.extra['seconds_compiling'] = round(STATS['t_compile'], 2)
    ctx.extra['seconds_world_setup_incl_compiling'] = round(STATS['t_world'], 2)
    ctx.extra['seconds_driver_and_model'] = round(STATS['t_driver'], 2)


def health(agg, tier):
    ev = max(1, agg['evals'])
    probs = []
    for lab, frac in (('res:ok', 0.4), ('res:not-found', 0.3), ('res:conflict', 0.08), ('res:mismatch', 0.025),
                      ('dep-depth>=2', 0.05), ('require_private', 0.25), ('lazy-flag', 0.15), ('mismatch-file', 0.025),
                      ('versionless-multi-candidate', 0.08), ('highest-version-in-two-directories', 0.1),
                      ('query-after-partial-load', 0.05), ('load', 0.2), ('tie', 0.02), ('q:deps', 0.15),
                      ('q:deps-beyond-immediate', 0.006), ('prepend', 0.5)):
        if agg['labels'].get(lab, 0) < frac * ev:
            probs.append('%s in %d of %d histories' % (lab, agg['labels'].get(lab, 0), ev))
    if len(agg['nontrivial']) < 0.1 * ev:
        probs.append('non-trivial histories %d of %d' % (len(agg['nontrivial']), ev))
    if agg['discards'] > 0.05 * ev:
        probs.append('discard rate %d/%d' % (agg['discards'], ev))
    return probs
