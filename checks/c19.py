"""C19 - library names resolve to the right shared objects or fail loudly.

Oracle: a regex-free reference resolver written from the property statement,
compared with giscanner.shlibs.resolve_from_ldd_output (+ sanitize_shlib_path)
and, for a share of the cases, with the whole resolve_shlibs() path driven
through `--ldd-wrapper cat <listing>` and generated .la files.
"""
import os
import sys

from hypothesis import strategies as st

from vlib.runner import Violation, Discard, REPO

ID = 'C19'
LEVEL = 'exploration'
RULE = ('Hypothesis-generated loader listings (ldd, otool and BSD styles, header lines ending in ":", '
        'wrapper noise) containing, for each requested name, true matches and decoys (lib<name><letter|digit|_|-'
        '>..., liblib<name>, directories called lib<name>.x, bare lib<name>), requests that are prefixes/suffixes '
        'of each other or contain regex metacharacters, and .la archives; requests are pruned so that no listed '
        'file can satisfy two of them (the statement\'s precondition). non-trivial = at least one decoy for a '
        'requested name stands before its true match or the request is unresolvable; distinct = hash of the case')
ASSUMPTIONS = [
    'words are separated by blanks/tabs and lines by LF or CRLF, as ldd/otool print them',
    'base names are ASCII (a non-ASCII letter directly after lib<name> is not generated because the statement '
    'does not say whether it counts as a letter)',
    'platform is Linux (sanitize_shlib_path reports base names)',
]
TECHNIQUE = 'property-based testing (Hypothesis): grammar-generated loader output and request lists, differential against a regex-free reference resolver; SystemExit oracle'
LEVEL_TEXT = ('Randomised differential search: the reference resolver is ~20 lines of string operations written from the '
              'statement; decoy classes are constructed on purpose and their frequency is reported.')
LEVEL_NOTE = 'reference resolver is trusted; ldd itself is not run (its output is generated), except that resolve_shlibs is driven end to end through its --ldd-wrapper hook with cat'
DESIGN_REF = 'DESIGN.md section 2, C19'

sys.path.insert(0, REPO)

NAMECH = 'abcdefghijklmnopqrstuvwxyzABCXYZ0123456789_-'
_WORDS = ['pango', 'pangoft2', 'pango-1.0', 'foo', 'libfoo', 'foo-bar', 'X', 'glib-2.0', 'gtk-3', 'gd',
          'gepub-0.6', 'c++', 'stdc++', 'a.b', 'a+b', 'x*y', 'q(z)', 'w[1]', 'n|m', 'e^f', 'd$', 'b\\s', 'z?']

_name = st.one_of(
    st.sampled_from(_WORDS),
    st.text(alphabet=NAMECH + '.+', min_size=1, max_size=8),
    st.text(alphabet=NAMECH + '.+*?()[]{}|^$\\', min_size=1, max_size=6),
)
_dirseg = st.one_of(st.sampled_from(['usr', 'lib', 'lib64', 'x86_64-linux-gnu', 'opt', 'local', 'build-amd64', 'é', '中', '.libs', '@rpath', 'tmp-introspect1']),
                    st.text(alphabet=NAMECH + '.', min_size=1, max_size=6))
_suffix_ok = st.sampled_from(['.so', '.so.0', '.so.0.0.1', '.0.dylib', '.dylib', '.dll', '.so.999', '.a', '+x.so', '.1.2.3.so', '~', '.so:', '=1'])
_suffix_bad = st.sampled_from(['ft2.so.0', '-1.0.so.0', '_x.so', '2.so', 'cairo.so.0', 'X.so', '-bar.so.1', '0.dylib', 'a', '_', '-'])


@st.composite
def _dirpath(draw, names):
    segs = draw(st.lists(_dirseg, min_size=0, max_size=4))
    # directories that look like a requested library
    if names and draw(st.integers(0, 3)) == 0:
        n = draw(st.sampled_from(names))
        segs.insert(draw(st.integers(0, len(segs))), 'lib' + n + draw(st.sampled_from(['.so', '-1.0', '.d', '.0.6.0', ''])))
    lead = draw(st.sampled_from(['/', '/', '', '@rpath/', './']))
    p = lead + '/'.join(segs)
    if p and not p.endswith('/'):
        p += '/'
    return p


@st.composite
def _entry(draw, names, target=None, kind=None):
    """One listed file: (basename, dir) with the basename built relative to a requested name."""
    if kind is None:
        kind = draw(st.sampled_from(['match', 'bad-suffix', 'liblib', 'bare', 'other', 'other-name']))
    if not names:
        kind = 'other'
    if kind == 'other':
        base = 'lib' + draw(st.text(alphabet=NAMECH, min_size=1, max_size=8)) + draw(_suffix_ok)
    else:
        n = target if target is not None else draw(st.sampled_from(names))
        if kind == 'other-name':
            base = n + draw(_suffix_ok)      # no "lib" in front
        elif kind == 'match':
            base = 'lib' + n + draw(_suffix_ok)
        elif kind == 'bad-suffix':
            base = 'lib' + n + draw(_suffix_bad)
        elif kind == 'liblib':
            base = 'liblib' + n + draw(_suffix_ok)
        else:
            base = 'lib' + n
    return {'kind': kind, 'base': base, 'dir': draw(_dirpath(names))}


@st.composite
def _case(draw):
    names = draw(st.lists(_name, min_size=0, max_size=5, unique=True))
    # related names: prefix / suffix variants of an existing request
    if names and draw(st.booleans()):
        n = draw(st.sampled_from(names))
        rel = draw(st.sampled_from([n + 'ft2', n + '-1.0', 'lib' + n, n + '-bar', n[:-1] if len(n) > 1 else n + 'x', n + '.so']))
        if rel not in names:
            names.insert(draw(st.integers(0, len(names))), rel)
    # a request ending in ".la" is by contract the PATH of a libtool archive (those are generated separately, as
    # files that exist); as a plain library name it would be opened as a file - outside the statement's domain
    names = [n for n in names if not n.endswith('.la')]
    entries = []
    for n in names:
        # most requests have a true match, surrounded by decoys aimed at the same name
        if draw(st.integers(0, 5)) != 0:
            entries.append(draw(_entry(names, n, 'match')))
        for _ in range(draw(st.integers(0, 2))):
            entries.append(draw(_entry(names, n)))
    entries += draw(st.lists(_entry(names), min_size=0, max_size=3))
    if entries:
        entries = list(draw(st.permutations(entries)))
    style = draw(st.sampled_from(['ldd', 'otool', 'bsd', 'bare']))
    lines = []
    if draw(st.booleans()):
        hdr_names = names or ['x']
        hdr = draw(_dirpath(names)) + draw(st.sampled_from(['tmp-introspect', 'lib' + draw(st.sampled_from(hdr_names)) + '.so.999', 'Gd-1.0']))
        lines.append(hdr + ':')
    if style == 'bsd':
        lines.append('\tStart            End              Type  Open Ref GrpRef Name')
    for e in entries:
        path = e['dir'] + e['base']
        if style == 'ldd':
            arrow = draw(st.sampled_from(['both', 'both', 'notfound', 'pathonly', 'nameonly']))
            if arrow == 'both':
                lines.append('\t%s => %s (0x00007fbe12d68000)' % (e['base'], path))
            elif arrow == 'notfound':
                lines.append('\t%s => not found' % e['base'])
            elif arrow == 'pathonly':
                lines.append('\t%s (0x00007ffc)' % path)
            else:
                lines.append('\t%s' % e['base'])
        elif style == 'otool':
            lines.append('\t%s (compatibility version 5801.0.0, current version 5801.3.0)' % path)
        elif style == 'bsd':
            lines.append('\t00001066c8400000 00001066c8605000 rlib  0    1   0      %s' % path)
        else:
            lines.append(path)
        if draw(st.integers(0, 9)) == 0:
            lines.append(draw(st.sampled_from(['\tlinux-vdso.so.1 (0x00007ffc)', '\t/lib64/ld-linux-x86-64.so.2 (0x00007f)',
                                               'libtool: execute: ldd x', '', 'warning: something:'])))
    eol = draw(st.sampled_from(['\n', '\n', '\r\n']))
    output = eol.join(lines) + draw(st.sampled_from(['', eol]))
    las = []
    if draw(st.sampled_from([False] * 7 + [True])):
        for i in range(draw(st.integers(1, 3))):
            dl = 'lib' + draw(st.text(alphabet=NAMECH + '.+', min_size=1, max_size=10)) + draw(st.sampled_from(['.so.0', '.so', '.0.dylib']))
            las.append({'file': 'lib%d%s.la' % (i, draw(st.sampled_from(['', 'foo', '-1.0']))), 'dlname': dl,
                        'old': draw(st.booleans()), 'pre': draw(st.booleans())})
    return {'names': names, 'output': output, 'las': las, 'e2e': draw(st.sampled_from([False] * 15 + [True]))}


# ------------------------------------------------------------------ reference
_LIBCH = set('ABCDEFGHIJKLMNOPQRSTUVWXYZabcdefghijklmnopqrstuvwxyz0123456789_-')


def ref_matches(word, name):
    base = word.rsplit('/', 1)[-1]
    stem = 'lib' + name
    if not base.startswith(stem) or len(base) == len(stem):
        return False
    return base[len(stem)] not in _LIBCH


def ref_words(output):
    words = []
    for line in output.replace('\r\n', '\n').split('\n'):
        if line.endswith(':'):
            continue
        for w in line.replace('\t', ' ').split(' '):
            if w:
                words.append(w)
    return words


def prune(names, words):
    """Enforce the precondition: no listed file may satisfy two requests."""
    kept = []
    for n in names:
        clash = False
        for w in words:
            if ref_matches(w, n) and any(ref_matches(w, k) for k in kept):
                clash = True
                break
        if not clash:
            kept.append(n)
    return kept


def ref_resolve(names, words):
    remaining = list(names)
    resolved = {}
    for w in words:
        for n in remaining:
            if ref_matches(w, n):
                resolved[n] = w.rsplit('/', 1)[-1]
                remaining.remove(n)
                break
    return resolved, remaining


class _Opts(object):
    nolibtool = True
    libtool_path = None
    ldd_wrapper = None


class _Bin(object):
    def __init__(self, args):
        self.args = args


def check_case(case, ctx):
    from giscanner import shlibs
    scratch = ctx.mkscratch()
    cwd = os.getcwd()
    os.chdir(scratch)       # requested names are tested with os.path.isfile: keep cwd empty
    try:
        return _check(case, ctx, shlibs, scratch)
    finally:
        os.chdir(cwd)


def _check(case, ctx, shlibs, scratch):
    output = case['output']
    words = ref_words(output)
    names = prune(case['names'], words)
    if len(names) != len(case['names']):
        ctx.label('pruned-request')
    exp, missing = ref_resolve(names, words)

    decoy_before = False
    for n in names:
        for w in words:
            if ref_matches(w, n):
                break
            b = w.rsplit('/', 1)[-1]
            if ('lib' + n) in w and not ref_matches(w, n):
                decoy_before = True
    try:
        got = shlibs.resolve_from_ldd_output(list(names), output)
        err = None
    except SystemExit as e:
        got = None
        err = e
    if missing and names:
        if err is None:
            raise Violation('missing-library-not-fatal', 'requests %r unresolvable %r but returned %r' % (names, missing, got))
        msg = str(err.code)
        if err.code in (0, None):
            raise Violation('missing-library-exit-zero', repr(err.code))
        for m in missing:
            if m not in msg:
                raise Violation('missing-library-not-named', '%r not named in %r' % (m, msg))
        ctx.label('unresolvable')
    else:
        if err is not None:
            raise Violation('spurious-fatal', 'requests %r all resolvable (%r) but exited: %s' % (names, exp, err.code))
        got_b = sorted(shlibs.sanitize_shlib_path(g) for g in got)
        if got_b != sorted(exp.values()):
            raise Violation('wrong-resolution', 'requests %r listing words %r: expected %r got %r' % (names, words, sorted(exp.values()), got_b))
        ctx.label('resolved-%d' % min(len(exp), 3))
    if decoy_before:
        ctx.label('decoy-before-match')
    if any(c in n for n in names for c in '.+*?()[]{}|^$\\'):
        ctx.label('regex-metachar-name')

    # end-to-end through resolve_shlibs: .la archives + ldd wrapper
    if any(n.endswith('.la') for n in names):
        raise Discard()     # domain guard for replayed cases (see _case)
    if case['las'] or case['e2e']:
        la_names = []
        la_exp = []
        for la in case['las']:
            p = os.path.join(scratch, la['file'])
            with open(p, 'w', encoding='utf-8') as f:
                if la['pre']:
                    f.write("# libfoo.la - a libtool library file\n# Generated by libtool\n\n")
                f.write("dlname='%s'\n" % la['dlname'])
                f.write("library_names='%s x y'\nold_library='x.a'\n" % la['dlname'])
                if la['old']:
                    f.write("dependency_libs=' -L/usr/lib -lglib-2.0'\nlibdir='/usr/lib'\n")
            la_names.append(p)
            la_exp.append(la['dlname'])
        listing = os.path.join(scratch, 'listing.txt')
        with open(listing, 'w', encoding='utf-8', newline='') as f:
            f.write(output)
        opts = _Opts()
        opts.ldd_wrapper = ['cat']
        try:
            got2 = shlibs.resolve_shlibs(opts, _Bin([listing]), la_names + list(names))
            err2 = None
        except SystemExit as e:
            got2, err2 = None, e
        if missing and names:
            if err2 is None:
                raise Violation('missing-library-not-fatal-e2e', 'unresolvable %r but resolve_shlibs returned %r' % (missing, got2))
        else:
            if err2 is not None:
                raise Violation('spurious-fatal-e2e', str(err2.code))
            if sorted(got2) != sorted(la_exp + list(exp.values())):
                raise Violation('wrong-resolution-e2e', 'expected %r got %r' % (sorted(la_exp + list(exp.values())), sorted(got2)))
        ctx.label('e2e')
        if case['las']:
            ctx.label('libtool-archive')

    if (decoy_before or missing) and names:
        ctx.note_nontrivial(case)
        ctx.sample({'requests': names, 'listing': output[:500], 'expected': exp, 'unresolvable': missing}, 4)


def plan(tier):
    n = 1500 if tier == 'quick' else 40000
    return [{'n': n}] * 16


def run_shard(ctx, spec):
    ctx.hyp(_case(), spec['n'])


def health(agg, tier):
    ev = max(1, agg['evals'])
    probs = []
    for lab, frac in (('decoy-before-match', 0.1), ('unresolvable', 0.05), ('regex-metachar-name', 0.1),
                      ('libtool-archive', 0.05), ('resolved-2', 0.03)):
        if agg['labels'].get(lab, 0) < frac * ev:
            probs.append('%s in %d of %d cases (< %.0f%%)' % (lab, agg['labels'].get(lab, 0), ev, frac * 100))
    return probs
