"""C06 - a compiled typelib encodes exactly the API of the GIR it came from.

Translation validation: generated valid GIR documents (vlib/girmodel.py, rendered to XML by the
harness) are compiled with the working tree's g-ir-compiler (ASan+UBSan); the bytes are decoded by
the independent decoder (vlib/typelib.py, written from gitypelib-internal.h) and compared, field by
field, with an EXPECTED TYPELIB MODEL computed here from the GIR model, the format documentation
(gitypelib-internal.h) and the schema (docs/gir-1.2.rnc).
"""
import copy
import os
import re
import shutil
import struct

from vlib import cbuild, girmodel, rnclite, typelib
from vlib.girmodel import BASIC, visible
from vlib.runner import Violation, HarnessError

ID = 'C06'
LEVEL = 'translation_validation'
RULE = ('Hypothesis cases of 1-3 namespaces (0-2 generated sibling namespaces compiled first, the fixture namespaces '
        'GLib/GObject/Gio/GModule as further includes), each 1-25 top-level entries of every kind (function, callback, '
        'record, union, glib:boxed, enumeration, bitfield, class, interface, constant, alias) with fields incl. embedded '
        'callbacks, properties, methods/constructors/functions, signals, virtual methods, member constants, every '
        'direction/transfer/nullable/allow-none/optional/caller-allocates/skip/scope/closure/destroy combination, all '
        'type shapes (basic, strings, pointers, local/foreign/aliased interface types, the four array kinds with '
        'length/fixed-size/zero-terminated, GList/GSList/GHashTable nested to depth 3, GError), <attribute> children, '
        'introspectable="0"/shadowed-by/shadows/moved-to elements; every namespace of a case is compiled twice and '
        'compared with the expected typelib model; thorough adds boundary documents (255/256 interfaces, 1022-1025 '
        'methods, 3000/8000 entries, 2047/2048-character names, 70000-character strings, 127-200 parameters). non-trivial = the document has a class or '
        'interface with >= 3 non-empty member sections, or a nested container type, or a cross-namespace reference; '
        'distinct = hash of the case')
ASSUMPTIONS = [
    'vlib/typelib.py decodes the format as documented in gitypelib-internal.h (calibrated against the system typelibs)',
    'the fixture GIRs (derived from the system typelibs) are valid include material; the GLib header shim matches GLib 2.74',
    'not asserted (no documented source in the GIR schema or outside the statement\'s list): struct/union size, alignment and '
    'field offsets, enum storage type (C08), vfunc struct_offset, signal class-closure fields, vfunc must-chain-up/override '
    'flags, FunctionBlob async fields, wraps_vfunc, Header.c_prefix, pointer flag of container types, of types written '
    'without c:type and of element types nested below an out/inout parameter, is_static of top-level functions and constructors, order of directory entries and of members',
    'parameters, return values and instance parameters always carry transfer-ownership (girparser.c rejects its absence; the '
    'statement quantifies over documents the compiler accepts); an array never carries both length= and fixed-size= '
    '(ArrayTypeBlob stores them in one union)',
]
TECHNIQUE = ('translation validation: property-based generation of valid GIR documents (Hypothesis), compilation with the '
             'sanitizer build of g-ir-compiler, independent pure-Python decoding, field-by-field comparison with an expected '
             'model; byte-for-byte determinism; boundary documents at the 10/16-bit limits')
LEVEL_TEXT = ('Every generated namespace is compiled and its typelib compared field by field with a model computed from '
              'the format documentation; disagreements_checked counts the individual field comparisons.')
LEVEL_NOTE = 'trusts the independent decoder and the GLib shim; layout fields (sizes/offsets) are left to C08'
DESIGN_REF = 'DESIGN.md section 3, C06'

BLOB_OF = {'function': 'function', 'callback': 'callback', 'record': 'struct', 'boxed': 'boxed', 'union': 'union',
           'enumeration': 'enum', 'bitfield': 'flags', 'class': 'object', 'interface': 'interface', 'constant': 'constant'}

_BUILD = None
_SCHEMA = None


def setup(tier):
    cbuild.build()


def _build():
    global _BUILD
    if _BUILD is None:
        _BUILD = cbuild.build()
    return _BUILD


# ============================================================================ expected model
class Cx(object):
    """Context of one namespace: merged alias / pointer-structure tables, collected references."""

    def __init__(self, doc, env, ctx):
        self.doc = doc
        self.ns = doc['name']
        self.ctx = ctx
        self.aliases = {}
        self.ptr = set()
        infos = dict(env)
        infos[self.ns] = girmodel.nsinfo_from_doc(doc)
        for n, inf in infos.items():
            for a, target in inf['aliases'].items():
                if '.' not in target and target not in BASIC:
                    target = '%s.%s' % (n, target)       # "re-qualify the interface"
                self.aliases['%s.%s' % (n, a)] = target
            for r in inf['ptr']:
                self.ptr.add('%s.%s' % (n, r))
        self.foreign = set()
        self.selfrefs = set()
        self.labels = set()
        self.nested = False

    def known(self, key):
        return self.ctx.known(key)

    def resolve(self, name):
        """Type name as written -> basic name or 'Ns.Name' (a typelib stores the aliased type)."""
        if name in BASIC:
            return name, False
        q = name if '.' in name else '%s.%s' % (self.ns, name)
        seen = set([q])
        via_alias = False
        while q in self.aliases:
            q = self.aliases[q]
            via_alias = True
            if q in seen:
                break
            seen.add(q)
        return q, via_alias

    def ref(self, qualified, via_alias=False):
        ns, name = qualified.split('.', 1)
        if ns != self.ns:
            self.foreign.add((ns, name))
            self.labels.add('xns-ref')
        elif via_alias:
            self.selfrefs.add((ns, name))
        return [ns, name]


def _stars(ct):
    tail = ct[1:]
    n = len(tail) - len(tail.rstrip('*'))
    if ct.startswith('gpointer') or ct.startswith('gconstpointer'):
        n += 1
    return n


def exp_type(T, cx, out=False, nested=False, in_out_param=False, depth=0):
    """Expected decoded shape of a type.  `out`: top-level type of an out/inout parameter ("Out
    parameters implicitly add another level of indirection to the parameter type", ArgBlob).
    The pointer flag of types NESTED in a container of an out/inout parameter is not asserted: the
    scanner derives an element's c:type from the container's c:type, which there still carries the
    out indirection, and girparser.c compensates by dropping one level for every <type> below an
    out parameter; the c:type convention for such elements is not documented."""
    t = T['t']
    if depth >= 1 and t in ('array', 'list', 'hash'):
        cx.nested = True
    if t in ('basic', 'iface'):
        target, via = cx.resolve(T['name'])
        ct = T.get('ctype')
        if target in BASIC:
            tag, _, always = BASIC[target]
            e = {'tag': tag}
            cx.labels.add('t:basic' if not always else 't:string-or-pointer')
            if always:
                e['pointer'] = True
            elif ct is not None:
                lvl = _stars(ct)
                if out and lvl > 0:
                    lvl -= 1
                if not (nested and in_out_param):
                    e['pointer'] = lvl > 0
            return e
        cx.labels.add('t:iface-alias' if via else ('t:iface-foreign' if not target.startswith(cx.ns + '.') else 't:iface-local'))
        e = {'tag': 'interface', 'ref': cx.ref(target, via)}
        isptr = target in cx.ptr
        if ct is not None:
            lvl = _stars(ct)
            if out and lvl > 0:
                lvl -= 1
            if nested and in_out_param:
                return e
            e['pointer'] = lvl + (1 if isptr else 0) > 0
        elif isptr:
            e['pointer'] = True
        return e
    if t == 'array':
        ak = T['akind']
        cx.labels.add('t:array-' + ak)
        e = {'tag': 'array', 'array_type': {'C': 'c', 'GLib.Array': 'array', 'GLib.PtrArray': 'ptr_array',
                                            'GLib.ByteArray': 'byte_array'}[ak]}
        if ak == 'C':
            has_len, has_size = T.get('length') is not None, T.get('fixed') is not None
            e['length'] = T['length'] if has_len else None
            e['size'] = T['fixed'] if has_size else None
            # "If neither zero-terminated nor length nor fixed-size is given, assume zero-terminated."
            e['zero_terminated'] = (T['zt'] == '1') if T.get('zt') is not None else not (has_len or has_size)
            if has_len:
                cx.labels.add('t:array-length')
            if has_size:
                cx.labels.add('t:array-fixed')
        else:
            e['length'] = None
            e['size'] = None
            e['zero_terminated'] = False
        e['elem'] = exp_type(T['elem'], cx, nested=True, in_out_param=in_out_param, depth=depth + 1)
        return e
    if t == 'list':
        cx.labels.add('t:list')
        e = {'tag': 'glist' if T['name'] == 'GLib.List' else 'gslist'}
        if T.get('elem') is not None:
            e['elem'] = exp_type(T['elem'], cx, nested=True, in_out_param=in_out_param, depth=depth + 1)
        else:
            e['elem'] = {'tag': 'void', 'pointer': True}     # "Default to pointer for unspecified containers"
        return e
    if t == 'hash':
        cx.labels.add('t:hash')
        e = {'tag': 'ghash'}
        if T.get('kv') is not None:
            e['k'] = exp_type(T['kv'][0], cx, nested=True, in_out_param=in_out_param, depth=depth + 1)
            e['v'] = exp_type(T['kv'][1], cx, nested=True, in_out_param=in_out_param, depth=depth + 1)
        else:
            e['k'] = {'tag': 'void', 'pointer': True}
            e['v'] = {'tag': 'void', 'pointer': True}
        return e
    if t == 'error':
        cx.labels.add('t:error')
        return {'tag': 'error'}
    raise HarnessError('unknown type model %r' % (T,))


def exp_attrs(el):
    return sorted([list(a) for a in (el.get('attrs') or [])])


def exp_callable(c, cx, kind):
    r = c['ret']
    sig = {'return_type': exp_type(r['type'], cx), 'may_return_null': r.get('nullable') == '1',
           'return_transfer': r['transfer']}
    if kind != 'signal':
        sig['throws'] = c.get('throws') == '1'
        if c.get('throws') == '1':
            cx.labels.add('throws')
    sig['skip_return'] = r.get('skip') == '1'
    if not (r.get('attrs') and kind in ('callback', 'vfunc') and cx.known('return-annotation-dropped')):
        sig['attrs'] = exp_attrs(r)
    if c.get('instance') is not None:
        sig['instance_transfer_ownership'] = c['instance']['transfer'] == 'full'
    args = []
    for p in c['params']:
        d = p.get('direction') or 'in'
        isout = d in ('out', 'inout')
        nullable = p.get('nullable') == '1'
        optional = p.get('optional') == '1'
        if p.get('allow_none') == '1':
            if isout:
                optional = True
            else:
                nullable = True
        a = {'direction': d, 'caller_allocates': d == 'out' and p.get('caller_allocates') == '1',
             'nullable': nullable, 'optional': optional, 'transfer': p['transfer'], 'skip': p.get('skip') == '1',
             'scope_name': p.get('scope') or 'invalid',
             'arg_type': exp_type(p['type'], cx, out=isout, in_out_param=isout), 'attrs': exp_attrs(p)}
        if p.get('name') is not None:
            a['name'] = p['name']
        for key in ('closure', 'destroy'):
            v = p[key] if p.get(key) is not None else -1
            # ArgBlob.closure/destroy are gint8
            if not (v > 127 and cx.known('closure-index-int8-overflow')):
                a[key] = v
        cx.labels.add('dir:' + d)
        cx.labels.add('transfer:' + p['transfer'])
        if p.get('scope'):
            cx.labels.add('scope')
        if p.get('closure') is not None or p.get('destroy') is not None:
            cx.labels.add('closure-destroy')
        args.append(a)
    sig['arguments'] = args
    return sig


def exp_deprecated(el, cx, e):
    d = el.get('dep')
    if d == '0' and cx.known('deprecated-explicit-0'):
        return
    e['deprecated'] = d == '1'


def exp_function(f, cx, tag, in_container):
    name = f.get('shadows') or f['name']       # `shadows` renames
    e = {'name': name, 'symbol': f.get('cid'), 'constructor': tag == 'constructor',
         'signature': exp_callable(f['callable'], cx, tag), 'attrs': exp_attrs(f),
         'throws': f['callable'].get('throws') == '1'}
    exp_deprecated(f, cx, e)
    if in_container and tag == 'method':
        e['is_static'] = False
    elif in_container and tag == 'function':
        e['is_static'] = True
    e['setter_of'] = f.get('set_property')
    e['getter_of'] = f.get('get_property') if not f.get('set_property') else None
    if f.get('shadows'):
        cx.labels.add('shadows')
    if f.get('moved_to'):
        cx.labels.add('moved-to')
    return e


def exp_callback(f, cx):
    e = {'name': f['name'], 'signature': exp_callable(f['callable'], cx, 'callback'), 'attrs': exp_attrs(f)}
    exp_deprecated(f, cx, e)
    return e


def exp_field(f, cx, holder_attrs_ok):
    e = {'name': f['name']}
    if f.get('intro') == '0':
        # girparser.c: "We handle introspectability specially here; we replace with just gpointer for the type."
        e['type'] = {'tag': 'void', 'pointer': True}
        e['has_embedded_type'] = False
        cx.labels.add('field-nonintrospectable')
    elif f.get('callback') is not None:
        e['has_embedded_type'] = True
        e['embedded_callback'] = exp_callback(f['callback'], cx)
        cx.labels.add('field-callback')
    else:
        e['has_embedded_type'] = False
        e['type'] = exp_type(f['type'], cx)
    # "Fields are assumed to be read-only" (girparser.c); girwriter omits readable when true
    if f.get('readable') is None:
        e['readable'] = True
    elif not cx.known('field-readable-explicit'):
        e['readable'] = f['readable'] == '1'
    e['writable'] = f.get('writable') == '1'
    if f.get('bits') is None:
        e['bits'] = 0
    elif not cx.known('field-bits-dropped'):
        e['bits'] = f['bits']
    if holder_attrs_ok and f.get('intro') != '0':
        e['attrs'] = exp_attrs(f)
    return e


def exp_constant(k, cx, attrs_ok=True):
    target, _ = cx.resolve(k['type']['name'])
    tag = BASIC[target][0]
    e = {'name': k['name'], 'type': {'tag': tag}}
    exp_deprecated(k, cx, e)
    v = k['value']
    if tag in girmodel.INT_TAGS or tag == 'unichar':
        e['value'] = int(v)
    elif tag == 'double':
        e['value'] = float(v)
    elif tag == 'float':
        e['value'] = struct.unpack('<f', struct.pack('<f', float(v)))[0]
    elif tag == 'boolean':
        e['value'] = v == 'true'
    else:
        e['value'] = v
    if attrs_ok:
        e['attrs'] = exp_attrs(k)
    cx.labels.add('const:' + tag)
    return e


def _misattached(members):
    """members whose <attribute> children girparser attaches to the enclosing node (they are not
    pushed on its node stack); children of introspectable="0" elements are skipped altogether"""
    return [m for m in members if m.get('attrs') and m.get('m') in ('field', 'property', 'constant') and m.get('intro') != '0']


def exp_members(e, cx, out, kinds):
    """Fills the member sections of a compound from e['members'] (document order per kind)."""
    members = e.get('members', [])
    mis = _misattached(members)
    holder_ok = not (mis and cx.known('annotation-misattached'))
    if holder_ok:
        out['attrs'] = exp_attrs(e)
    sections = 0
    if 'field' in kinds:
        out['fields'] = [exp_field(m, cx, holder_ok) for m in members
                         if m['m'] == 'field' and m.get('shadowed_by') is None]
        sections += bool(out['fields'])
    fkey = 'functions' if e['k'] == 'union' else 'methods'
    out[fkey] = [exp_function(m, cx, m['m'], True) for m in members
                 if m['m'] in ('method', 'constructor', 'function') and visible(m)]
    sections += bool(out[fkey])
    wide = len(out[fkey]) > 0x3ff and cx.known('index-10bit-overflow')     # setter/getter/invoker are 10-bit fields
    if 'property' in kinds:
        props = []
        for m in members:
            if m['m'] != 'property' or not visible(m):
                continue
            p = {'name': m['name'], 'readable': m.get('readable') in (None, '1'), 'writable': m.get('writable') == '1',
                 'construct': m.get('construct') == '1', 'construct_only': m.get('construct_only') == '1',
                 'transfer': m.get('transfer') or 'none', 'type': exp_type(m['type'], cx)}
            if not wide:
                p.update(setter_name=m.get('setter'), getter_name=m.get('getter'))
            if not (m.get('dep') == '1' and cx.known('property-deprecated-dropped')):
                exp_deprecated(m, cx, p)
            if holder_ok:
                p['attrs'] = exp_attrs(m)
            if m.get('setter') or m.get('getter'):
                cx.labels.add('prop-accessor')
            props.append(p)
        out['properties'] = props
        sections += bool(props)
    if 'signal' in kinds:
        sigs = []
        for m in members:
            if m['m'] != 'signal' or not visible(m):
                continue
            s = {'name': m['name'], 'deprecated': m.get('dep') == '1', 'no_recurse': m.get('no_recurse') == '1',
                 'detailed': m.get('detailed') == '1', 'action': m.get('action') == '1', 'no_hooks': m.get('no_hooks') == '1',
                 'signature': exp_callable(m['callable'], cx, 'signal'), 'attrs': exp_attrs(m)}
            if m.get('when') is not None:
                s['run'] = m['when']
            sigs.append(s)
        out['signals'] = sigs
        sections += bool(sigs)
    if 'vfunc' in kinds:
        vfs = []
        for m in members:
            if m['m'] != 'vfunc' or not visible(m):
                continue
            v = {'name': m['name'], 'throws': m['callable'].get('throws') == '1',
                 'signature': exp_callable(m['callable'], cx, 'vfunc'), 'attrs': exp_attrs(m)}
            if not wide:
                v['invoker_name'] = m.get('invoker')
            if m.get('invoker'):
                cx.labels.add('vfunc-invoker')
            vfs.append(v)
        out['vfuncs'] = vfs
        sections += bool(vfs)
    if 'constant' in kinds:
        out['constants'] = [exp_constant(m, cx, holder_ok) for m in members if m['m'] == 'constant' and visible(m)]
        sections += bool(out['constants'])
    return sections


def exp_registered(e, out):
    g = e.get('gtype')
    out['unregistered'] = g is None
    out['gtype_name'] = g[0] if g else None
    out['gtype_init'] = g[1] if g else None


def exp_entry(e, cx):
    k = e['k']
    cx.labels.add('k:' + k)
    if k == 'function':
        return exp_function(e, cx, 'function', False)
    if k == 'callback':
        return exp_callback(e, cx)
    if k == 'constant':
        return exp_constant(e, cx)
    out = {'name': e['name']}
    exp_deprecated(e, cx, out)
    if k in ('enumeration', 'bitfield'):
        exp_registered(e, out)
        out['error_domain'] = e.get('error_domain')
        mis = [m for m in e['members'] if m.get('attrs')]
        holder_ok = not (mis and cx.known('annotation-misattached:enum-member'))
        if holder_ok:
            out['attrs'] = exp_attrs(e)
        vals = []
        for m in e['members']:
            v = {'name': m['name'], 'value_effective': int(m['value']), 'cid': m['cid']}
            exp_deprecated(m, cx, v)
            if holder_ok:
                v['attrs'] = exp_attrs(m)
            vals.append(v)
        out['values'] = vals
        out['methods'] = [exp_function(f, cx, 'function', True) for f in e['funcs'] if visible(f)]
        return out
    if k == 'boxed':
        exp_registered(e, out)
        exp_members(e, cx, out, ())
        out['fields'] = []
        return out
    if k in ('record', 'union'):
        exp_registered(e, out)
        out['copy_func'] = e.get('copy')
        out['free_func'] = e.get('free')
        if k == 'record':
            out['is_gtype_struct'] = e.get('gtype_struct_for') is not None
            out['foreign'] = e.get('foreign') == '1'
        exp_members(e, cx, out, ('field',))
        return out
    if k == 'class':
        exp_registered(e, out)
        out['abstract'] = e.get('abstract') == '1'
        out['final'] = e.get('final') == '1'
        if not (e.get('fundamental') == '0' and cx.known('fundamental-explicit-0')):
            out['fundamental'] = e.get('fundamental') == '1'
        out['parent'] = cx.ref(_q(e['parent'], cx)) if e.get('parent') else None
        out['gtype_struct'] = [cx.ns, e['type_struct']] if e.get('type_struct') else None
        out['interfaces'] = sorted(cx.ref(_q(i, cx)) for i in e['implements'])
        for key, fk in (('ref', 'ref_func'), ('unref', 'unref_func'), ('setv', 'set_value_func'), ('getv', 'get_value_func')):
            out[fk] = e.get(key)
        if e['implements']:
            cx.labels.add('implements')
        if e.get('fundamental') == '1':
            cx.labels.add('fundamental')
        n = exp_members(e, cx, out, ('field', 'property', 'signal', 'vfunc', 'constant'))
        if n >= 3:
            cx.labels.add('rich-compound')
        return out
    if k == 'interface':
        exp_registered(e, out)
        out['gtype_struct'] = [cx.ns, e['type_struct']] if e.get('type_struct') else None
        out['prerequisites'] = sorted(cx.ref(_q(i, cx)) for i in e['prereqs'])
        if e['prereqs']:
            cx.labels.add('prerequisites')
        n = exp_members(e, cx, out, ('property', 'signal', 'vfunc', 'constant'))
        if n >= 3:
            cx.labels.add('rich-compound')
        return out
    raise HarnessError('entry kind %r' % k)


def _q(name, cx):
    return name if '.' in name else '%s.%s' % (cx.ns, name)


def expected_model(doc, env, ctx):
    cx = Cx(doc, env, ctx)
    local = {}
    for e in doc['entries']:
        if e['k'] == 'alias':
            cx.labels.add('k:alias')
            continue
        if not visible(e):
            cx.labels.add('vanishing-entry')
            continue
        b = exp_entry(e, cx)
        local[b['name']] = (BLOB_OF[e['k']], b)
    header = {'namespace': doc['name'], 'nsversion': doc['version'], 'shared_library': doc.get('shlib'),
              'dependencies': sorted('%s-%s' % (n, v) for n, v in doc['includes'])}
    return cx, header, local


# ============================================================================ decoded -> comparable
def norm_type(d):
    tag = d['tag']
    if tag == 'interface':
        return {'tag': tag, 'ref': [d['interface_namespace'], d['interface_name']], 'pointer': d['pointer']}
    if tag == 'array':
        return {'tag': tag, 'array_type': d['array_type_name'], 'zero_terminated': d['zero_terminated'],
                'length': d['length'], 'size': d['size'], 'elem': norm_type(d['element_type'])}
    if tag in ('glist', 'gslist'):
        return {'tag': tag, 'elem': norm_type(d['param_types'][0]) if d['param_types'] else None}
    if tag == 'ghash':
        pt = d['param_types']
        return {'tag': tag, 'k': norm_type(pt[0]) if len(pt) > 0 else None, 'v': norm_type(pt[1]) if len(pt) > 1 else None}
    if tag == 'error':
        return {'tag': tag}
    return {'tag': tag, 'pointer': d['pointer']}


def _attrs_of(T, off):
    return sorted([[n, v] for n, v in T.attributes_for(off)])


def norm_sig(T, s):
    out = {'return_type': norm_type(s['return_type']), 'may_return_null': s['may_return_null'],
           'return_transfer': s['return_transfer'], 'throws': s['throws'], 'skip_return': s['skip_return'],
           'instance_transfer_ownership': s['instance_transfer_ownership'], 'attrs': _attrs_of(T, s['offset']),
           'arguments': []}
    for a in s['arguments']:
        out['arguments'].append({'name': a['name'], 'direction': a['direction'], 'caller_allocates': a['caller_allocates'],
                                 'nullable': a['nullable'], 'optional': a['optional'], 'transfer': a['transfer'],
                                 'skip': a['skip'], 'scope_name': a['scope_name'], 'closure': a['closure'],
                                 'destroy': a['destroy'], 'arg_type': norm_type(a['arg_type']),
                                 'attrs': _attrs_of(T, a['offset'])})
    return out


def norm_function(T, f, holder=None):
    out = {'name': f['name'], 'symbol': f['symbol'], 'deprecated': f['deprecated'], 'constructor': f['constructor'],
           'throws': f['throws'], 'is_static': f['is_static'], 'signature': norm_sig(T, f['signature']),
           'attrs': _attrs_of(T, f['offset']), 'setter_of': None, 'getter_of': None}
    if (f['setter'] or f['getter']) and holder is not None:
        props = holder.get('properties', [])
        pn = props[f['index']]['name'] if f['index'] < len(props) else '<index %d out of range>' % f['index']
        out['setter_of' if f['setter'] else 'getter_of'] = pn
    return out


def norm_callback(T, c):
    return {'name': c['name'], 'deprecated': c['deprecated'], 'signature': norm_sig(T, c['signature']),
            'attrs': _attrs_of(T, c['offset'])}


def norm_field(T, f):
    out = {'name': f['name'], 'readable': f['readable'], 'writable': f['writable'], 'bits': f['bits'],
           'has_embedded_type': f['has_embedded_type'], 'attrs': _attrs_of(T, f['offset'])}
    if f['has_embedded_type']:
        out['embedded_callback'] = norm_callback(T, f['embedded_callback'])
    else:
        out['type'] = norm_type(f['type'])
    return out


def norm_constant(T, c):
    return {'name': c['name'], 'deprecated': c['deprecated'], 'type': norm_type(c['type']), 'value': c['value'],
            'attrs': _attrs_of(T, c['offset'])}


def _ref(r):
    return None if r is None else [r['namespace'], r['name']]


def _by_index(lst, idx, sentinel=0x3ff):
    if idx == sentinel:
        return None
    return lst[idx]['name'] if idx < len(lst) else '<index %d out of range>' % idx


def norm_compound(T, b, out):
    out['attrs'] = _attrs_of(T, b['offset'])
    if 'fields' in b:
        out['fields'] = [norm_field(T, f) for f in b['fields']]
    for key in ('methods', 'functions'):
        if key in b:
            out[key] = [norm_function(T, f, b) for f in b[key]]
    meths = b.get('methods', [])
    if 'properties' in b:
        out['properties'] = [{'name': p['name'], 'deprecated': p['deprecated'], 'readable': p['readable'],
                              'writable': p['writable'], 'construct': p['construct'], 'construct_only': p['construct_only'],
                              'transfer': p['transfer'], 'type': norm_type(p['type']),
                              'setter_name': _by_index(meths, p['setter']), 'getter_name': _by_index(meths, p['getter']),
                              'attrs': _attrs_of(T, p['offset'])} for p in b['properties']]
    if 'signals' in b:
        out['signals'] = []
        for s in b['signals']:
            run = [n for n in ('first', 'last', 'cleanup') if s['run_' + n]]
            out['signals'].append({'name': s['name'], 'deprecated': s['deprecated'], 'no_recurse': s['no_recurse'],
                                   'detailed': s['detailed'], 'action': s['action'], 'no_hooks': s['no_hooks'],
                                   'run': run[0] if len(run) == 1 else run, 'signature': norm_sig(T, s['signature']),
                                   'attrs': _attrs_of(T, s['offset'])})
    if 'vfuncs' in b:
        out['vfuncs'] = [{'name': v['name'], 'throws': v['throws'], 'invoker_name': _by_index(meths, v['invoker']),
                          'signature': norm_sig(T, v['signature']), 'attrs': _attrs_of(T, v['offset'])} for v in b['vfuncs']]
    if 'constants' in b:
        out['constants'] = [norm_constant(T, c) for c in b['constants']]


def norm_entry(T, e):
    b = e['blob']
    k = e['blob_type_name']
    if k == 'function':
        return norm_function(T, b)
    if k == 'callback':
        return norm_callback(T, b)
    if k == 'constant':
        return norm_constant(T, b)
    out = {'name': b['name'], 'deprecated': b['deprecated']}
    if k in ('struct', 'boxed', 'union', 'enum', 'flags'):
        out.update(unregistered=b['unregistered'], gtype_name=b['gtype_name'], gtype_init=b['gtype_init'])
    else:
        out.update(unregistered=False, gtype_name=b['gtype_name'], gtype_init=b['gtype_init'])
    if k in ('enum', 'flags'):
        out['error_domain'] = b['error_domain']
        out['attrs'] = _attrs_of(T, b['offset'])
        out['values'] = []
        for v in b['values']:
            at = _attrs_of(T, v['offset'])
            cid = [x[1] for x in at if x[0] == 'c:identifier']
            out['values'].append({'name': v['name'], 'value_effective': v['value_effective'], 'deprecated': v['deprecated'],
                                  'attrs': [x for x in at if x[0] != 'c:identifier'], 'cid': cid[0] if cid else None})
        out['methods'] = [norm_function(T, f) for f in b['methods']]
        return out
    if k in ('struct', 'boxed', 'union'):
        out.update(copy_func=b['copy_func'], free_func=b['free_func'])
        if k != 'union':
            out.update(is_gtype_struct=b['is_gtype_struct'], foreign=b['foreign'])
        norm_compound(T, b, out)
        return out
    if k == 'object':
        out.update(abstract=b['abstract'], final=b['final'], fundamental=b['fundamental'], parent=_ref(b['parent_ref']),
                   gtype_struct=_ref(b['gtype_struct_ref']), interfaces=sorted(_ref(r) or ['?', '?'] for r in b['interfaces_refs']),
                   ref_func=b['ref_func'], unref_func=b['unref_func'], set_value_func=b['set_value_func'],
                   get_value_func=b['get_value_func'])
        norm_compound(T, b, out)
        return out
    if k == 'interface':
        out.update(gtype_struct=_ref(b['gtype_struct_ref']),
                   prerequisites=sorted(_ref(r) or ['?', '?'] for r in b['prerequisites_refs']))
        norm_compound(T, b, out)
        return out
    raise HarnessError('decoded entry kind %r' % k)


# ============================================================================ comparison
_MEMBER_LISTS = ('fields', 'methods', 'functions', 'properties', 'signals', 'vfuncs', 'constants', 'values')


def _clause(path):
    """root-cause bucket: the generic tail of the path (the same ArgBlob flag is the same defect in a
    method of an interface and in a top-level function)"""
    parts = path.split('.')
    if 'signature' in parts:
        parts = parts[parts.index('signature'):]
    elif len(parts) > 2:
        parts = parts[-2:]
    return 'mismatch:' + '.'.join(parts)


class Differ(object):
    def __init__(self):
        self.n = 0

    def diff(self, exp, got, path, where):
        """exp is a subset specification: every key of an expected dict must compare equal."""
        if isinstance(exp, dict):
            if not isinstance(got, dict):
                raise Violation(_clause(path), '%s: expected %r, decoded %r' % (where, exp, got))
            for key in sorted(exp, key=lambda k: (k != 'tag', k != 'name', k)):
                sub = path + '.' + key
                if key not in got:
                    raise Violation(_clause(sub), '%s: decoded blob has no %s' % (where, key))
                if key in _MEMBER_LISTS:
                    self.members(exp[key], got[key], sub, where)
                elif key == 'cid':
                    self.n += 1
                    # the format does not document where c:identifier lives: only checked when present
                    if got[key] is not None and got[key] != exp[key]:
                        raise Violation(_clause(sub), '%s: expected %r, decoded %r' % (where, exp[key], got[key]))
                else:
                    self.diff(exp[key], got[key], sub, where + '.' + key)
        elif isinstance(exp, list) and exp and isinstance(exp[0], dict):
            if not isinstance(got, list) or len(exp) != len(got):
                raise Violation(_clause(path + '.length'), '%s: expected %d items, decoded %r'
                                % (where, len(exp), len(got) if isinstance(got, list) else got))
            for i, (x, g) in enumerate(zip(exp, got)):
                self.diff(x, g, path, '%s[%d]' % (where, i))
        else:
            self.n += 1
            if not (exp == got):
                raise Violation(_clause(path), '%s: expected %r, decoded %r' % (where, exp, got))

    def members(self, exp, got, path, where):
        """member lists are compared by name (the format does not fix an order)"""
        en = [m['name'] for m in exp]
        gn = [m['name'] for m in got]
        self.n += 1
        if sorted(en) != sorted(gn):
            raise Violation(_clause(path + '.names'), '%s %s: expected members %r, decoded %r' % (where, path, en, gn))
        gmap = {}
        for m in got:
            gmap.setdefault(m['name'], []).append(m)
        for m in exp:
            g = gmap[m['name']].pop(0)
            self.diff(m, g, path, '%s.%s[%s]' % (where, path.rsplit('.', 1)[-1], m['name']))


# ============================================================================ known crash / warning shapes
def _walk_types(T, fn):
    """fn(parent_container_or_None, T) over a type and its nested types; may replace through return value"""
    for key in ('elem',):
        if T.get(key) is not None:
            r = fn(T, T[key])
            if r is not None:
                T[key] = r
            _walk_types(T[key], fn)
    if T.get('kv') is not None:
        for i in (0, 1):
            r = fn(T, T['kv'][i])
            if r is not None:
                T['kv'][i] = r
            _walk_types(T['kv'][i], fn)


def _all_callables(doc):
    def from_members(members):
        for m in members:
            if 'callable' in m:
                yield m['callable']
            if m.get('callback') is not None:
                yield m['callback']['callable']
    for e in doc['entries']:
        if 'callable' in e:
            yield e['callable']
        for key in ('members', 'funcs'):
            for c in from_members(e.get(key, [])):
                yield c


def _all_types(doc):
    for c in _all_callables(doc):
        yield c['ret']['type']
        for p in c['params']:
            yield p['type']
    for e in doc['entries']:
        for m in e.get('members', []):
            if m.get('type') is not None and m.get('m') in ('field', 'property'):
                yield m['type']


def strip_known(doc, ctx):
    """Remove exactly the shapes of OPEN known findings that make the compiler abort or print a
    warning (nothing could be compared otherwise).  Without exclusion the document is left alone."""
    doc = copy.deepcopy(doc)

    def bare(parent, T):
        if T['t'] in ('list', 'hash') and T.get('elem') is None and T.get('kv') is None:
            if ctx.known('bare-nested-container-assert'):
                return {'t': 'basic', 'name': 'gpointer', 'ctype': 'gpointer'}
        return None
    for T in _all_types(doc):
        _walk_types(T, bare)

    def is_unichar(k):
        return k['type']['t'] == 'basic' and k['type']['name'] == 'gunichar'
    keep = []
    for e in doc['entries']:
        if e['k'] == 'constant' and is_unichar(e) and visible(e) and ctx.known('constant-gunichar-abort'):
            continue
        if 'members' in e:
            ms = []
            for m in e['members']:
                if m.get('m') == 'constant' and is_unichar(m) and visible(m) and ctx.known('constant-gunichar-abort'):
                    continue
                if e['k'] == 'interface' and m.get('m') == 'constructor' and ctx.known('interface-constructor-dropped'):
                    continue
                if e['k'] == 'union' and m.get('m') == 'field' and m.get('callback') is not None and m.get('intro') != '0' \
                        and ctx.known('union-field-callback'):
                    continue
                ms.append(m)
            e['members'] = ms
        keep.append(e)
    doc['entries'] = keep
    return doc


# ============================================================================ the oracle
_FRAME = re.compile(r'^\s*#\d+\s+0x[0-9a-f]+\s+in\s+(\S+)', re.M)


def crash_bucket(rc, err):
    frames = [f for f in _FRAME.findall(err) if not f.startswith(('__', 'g_assertion', 'g_log', 'abort', 'raise', '_g_log', 'g_logv'))][:3]
    m = re.search(r'(ERROR|CRITICAL|WARNING) \*\*: [\d:.]+: (.*)', err)
    msg = ''
    if m:
        msg = re.sub(r"'[^']*'", "'..'", m.group(2))
        msg = re.sub(r'\d+', 'N', msg)[:70]
    a = re.search(r'ERROR:([^:]+):\d+:([^:]+): (assertion failed[^\n]*)', err)
    if a:
        msg = '%s: %s' % (a.group(2), a.group(3)[:60])
    s = re.search(r'(AddressSanitizer|runtime error): ([^\n]{0,60})', err)
    if s:
        msg = '%s %s' % (s.group(1), re.sub(r'0x[0-9a-f]+', 'ADDR', s.group(2)))
    return 'compiler-crash(rc=%d):%s:%s' % (rc, msg, '>'.join(frames))


def compile_doc(b, doc, cdir, outname, timeout=300):
    gir = os.path.join(cdir, girmodel.gir_filename(doc))
    if not os.path.exists(gir):
        with open(gir, 'w') as f:
            f.write(girmodel.render_xml(doc))
    out = os.path.join(cdir, outname)
    rc, so, se = b.compile_gir(gir, out, includedirs=[cdir, cbuild.FIXTURES], timeout=timeout)
    data = None
    if rc == 0 and os.path.exists(out):
        with open(out, 'rb') as f:
            data = f.read()
    return rc, se, data


def check_schema(doc):
    """Generator soundness: every document is structurally valid against docs/gir-1.2.rnc."""
    global _SCHEMA
    if _SCHEMA is None:
        _SCHEMA = rnclite.load()
    probs = rnclite.check(_SCHEMA, girmodel.render_xml(doc))
    if probs:
        raise HarnessError('generated document violates gir-1.2.rnc: %r' % probs[:3])


def check_doc(ctx, b, doc, env, cdir, boundary=False):
    """Compile one namespace and compare.  Returns labels."""
    check_schema(doc)
    rc, err, data = compile_doc(b, doc, cdir, doc['name'] + '.typelib', timeout=900 if boundary else 300)
    where = doc['name']
    if rc == -9 and boundary:
        ctx.label('boundary-timeout')       # a budget that runs out is "explored", never a violation
        return None
    if boundary and rc == -5 and re.search(r'(ERROR|WARNING|CRITICAL) \*\*', err) and 'Sanitizer' not in err and 'runtime error' not in err:
        return None         # rejected by a deliberate fatal diagnostic (g_error / fatal warning)
    if rc < 0:
        raise Violation(crash_bucket(rc, err), '%s: g-ir-compiler died (rc %d) on a valid document: %s' % (where, rc, err.strip()[-1500:]))
    if rc != 0:
        if boundary:
            if not err.strip():
                raise Violation('rejected-without-message', '%s: exit %d, empty stderr' % (where, rc))
            return None
        first = re.sub(r'\d+', 'N', (err.strip().splitlines() or ['?'])[-1])[:90]
        raise Violation('valid-document-rejected:' + re.sub(r"'[^']*'", "'..'", first), '%s: exit %d: %s' % (where, rc, err.strip()[-800:]))
    if err.strip():
        first = re.sub(r'[^ ]*\.gir:\d+:\d+: ', '', err.strip().splitlines()[0])
        raise Violation('compiler-stderr:' + re.sub(r'\d+', 'N', first)[:80], '%s: exit 0 but stderr: %s' % (where, err.strip()[:600]))
    if data is None:
        raise Violation('no-output', '%s: exit 0 but no typelib written' % where)
    # (ii) decodes strictly, invariants hold
    try:
        T = typelib.Typelib(data, strict=True)
    except typelib.FormatError as ex:
        raise Violation('typelib-format-error', '%s: %s' % (where, ex))
    probs = T.check_invariants()
    if probs:
        raise Violation('typelib-invariant:' + re.sub(r'\d+', 'N', probs[0])[:70], '%s: %s' % (where, probs[:5]))
    # (iv) determinism
    rc2, err2, data2 = compile_doc(b, doc, cdir, doc['name'] + '.second.typelib', timeout=900 if boundary else 300)
    if rc2 != 0 or data2 != data:
        first = next((i for i in range(min(len(data), len(data2 or b''))) if data[i] != data2[i]), None) if data2 else None
        raise Violation('nondeterministic-output', '%s: second compilation rc %d, %s bytes vs %d, first difference at %r'
                        % (where, rc2, len(data2) if data2 is not None else None, len(data), first))
    # (iii) content
    cx, header, local = expected_model(doc, env, ctx)
    D = Differ()
    h = T.header
    D.diff({'namespace': header['namespace'], 'nsversion': header['nsversion'], 'shared_library': header['shared_library'],
            'dependencies': header['dependencies']},
           {'namespace': h['namespace'], 'nsversion': h['nsversion'], 'shared_library': h['shared_library'],
            'dependencies': sorted(h['dependencies'])}, 'header', where + ' header')
    got_local = {}
    got_foreign = set()
    for e in T.entries:
        if e['local']:
            if e['name'] in got_local:
                raise Violation('duplicate-local-entry', '%s: %s' % (where, e['name']))
            got_local[e['name']] = e
        else:
            got_foreign.add((e['namespace'], e['name']))
    D.n += 1
    if sorted(got_local) != sorted(local):
        missing = sorted(set(local) - set(got_local))
        extra = sorted(set(got_local) - set(local))
        raise Violation('directory-local-entries:' + ('missing' if missing else 'extra'),
                        '%s: expected local entries missing from the typelib %r; unexpected %r' % (where, missing, extra))
    for name in sorted(local):
        kind, exp = local[name]
        e = got_local[name]
        D.n += 1
        if e['blob_type_name'] != kind:
            raise Violation('entry-kind', '%s.%s: expected %s, directory says %s' % (where, name, kind, e['blob_type_name']))
        D.diff(exp, norm_entry(T, e), kind, '%s.%s' % (where, name))
    own = set(x for x in got_foreign if x[0] == cx.ns)
    if own:
        if not (own <= cx.selfrefs and ctx.known('alias-self-xref')):
            raise Violation('nonlocal-entry-names-own-namespace' if own <= cx.selfrefs else 'unexpected-nonlocal-entry',
                            '%s: non-local directory entries naming the typelib\'s own namespace: %r (types reached through a local alias: %r)'
                            % (where, sorted(own), sorted(cx.selfrefs)))
    D.n += 1
    if got_foreign - own != cx.foreign:
        raise Violation('directory-nonlocal-entries', '%s: expected non-local entries %r, directory has %r'
                        % (where, sorted(cx.foreign), sorted(got_foreign - own)))
    ctx.extra['disagreements_checked'] = ctx.extra.get('disagreements_checked', 0) + D.n
    if cx.nested:
        cx.labels.add('nested-container')
    return cx.labels


def check_case(case, ctx):
    b = _build()
    if case.get('boundary'):
        return check_boundary(case, ctx, b)
    scratch = ctx.mkscratch()
    cdir = os.path.join(scratch, 'case')
    shutil.rmtree(cdir, ignore_errors=True)
    os.makedirs(cdir)
    try:
        docs = [strip_known(d, ctx) for d in case['docs']]
        nontrivial = False
        for i, doc in enumerate(docs):
            env = girmodel.environment(docs, i)
            labels = check_doc(ctx, b, doc, env, cdir)
            ctx.label('documents')
            for l in sorted(labels):
                ctx.label(l)
            if labels & set(['rich-compound', 'nested-container', 'xns-ref']):
                nontrivial = True
        if nontrivial:
            ctx.note_nontrivial(case)
            ctx.sample({'gir_excerpt': girmodel.render_xml(docs[-1])[:1500]}, 2)
    finally:
        shutil.rmtree(cdir, ignore_errors=True)


# ============================================================================ boundary documents
def _fn(name, cid, params=0):
    return {'name': name, 'cid': cid, 'intro': None, 'dep': None, 'attrs': [], 'moved_to': None,
            'callable': {'ret': {'type': {'t': 'basic', 'name': 'none', 'ctype': 'void'}, 'transfer': 'none', 'attrs': []},
                         'instance': None, 'throws': None,
                         'params': [{'name': 'p%d' % i, 'type': {'t': 'basic', 'name': 'gint', 'ctype': 'gint'},
                                     'transfer': 'none', 'attrs': []} for i in range(params)]}}


def _iface(name):
    return {'k': 'interface', 'name': name, 'ctype': 'Vf' + name, 'gtype': ['Vf' + name, 'vf_%s_get_type' % name.lower()],
            'intro': None, 'dep': None, 'attrs': [], 'type_struct': None, 'prereqs': [], 'members': []}


def _class(name, implements=(), members=()):
    return {'k': 'class', 'name': name, 'ctype': 'Vf' + name, 'gtype': ['Vf' + name, 'vf_%s_get_type' % name.lower()],
            'parent': 'GObject.Object', 'intro': None, 'dep': None, 'attrs': [], 'type_struct': None,
            'implements': list(implements), 'members': list(members)}


def boundary_doc(spec):
    kind, n = spec['kind'], spec['n']
    if kind == 'interfaces':
        ents = [_iface('I%d' % i) for i in range(n)]
        ents.append(_class('Obj', ['I%d' % i for i in range(n)]))
    elif kind == 'methods':
        ms = []
        for i in range(n):
            m = _fn('m%d' % i, 'vf_obj_m%d' % i)
            m['m'] = 'method'
            m['callable']['instance'] = {'name': 'self', 'transfer': 'none', 'type': {'t': 'iface', 'name': 'Obj', 'ctype': 'VfObj*'}}
            ms.append(m)
        # a property whose accessors are the LAST method, a vfunc invoked by it: 10-bit index fields
        ms.append({'m': 'property', 'name': 'p', 'intro': None, 'dep': None, 'attrs': [], 'writable': '1',
                   'setter': 'm%d' % (n - 1), 'getter': 'm%d' % (n - 1), 'type': {'t': 'basic', 'name': 'gint', 'ctype': 'gint'}})
        v = _fn('vf', None)
        v.update(m='vfunc', invoker='m%d' % (n - 1))
        v['callable']['instance'] = {'name': 'self', 'transfer': 'none', 'type': {'t': 'iface', 'name': 'Obj', 'ctype': 'VfObj*'}}
        ms.append(v)
        ents = [_class('Obj', members=ms)]
    elif kind == 'entries':
        ents = []
        for i in range(n):
            f = _fn('f%d' % i, 'vf_f%d' % i, params=i % 3)
            f['k'] = 'function'
            ents.append(f)
    elif kind == 'longname':
        f = _fn('f' * n, 'vf_f')
        f['k'] = 'function'
        ents = [f]
    elif kind == 'longstring':
        ents = [{'k': 'constant', 'name': 'K', 'value': 'x' * n, 'ctype': 'VF_K', 'intro': None, 'dep': None,
                 'attrs': [['long', 'y' * n]], 'type': {'t': 'basic', 'name': 'utf8', 'ctype': 'gchar*'}}]
    elif kind == 'params':
        f = _fn('f', 'vf_f', params=n)
        f['k'] = 'function'
        f['callable']['params'][-1]['closure'] = n - 1
        f['callable']['params'][-1]['destroy'] = n - 2
        ents = [f]
    else:
        raise HarnessError('boundary kind %r' % kind)
    return girmodel.simple_doc(ents, shlib='libvf.so')


BOUNDARIES = ([{'kind': 'interfaces', 'n': n} for n in (1, 2, 255, 256, 257)]
              + [{'kind': 'methods', 'n': n} for n in (1022, 1023, 1024, 1025)]
              + [{'kind': 'entries', 'n': n} for n in (3000, 8000)]
              + [{'kind': 'longname', 'n': n} for n in (2047, 2048)]
              + [{'kind': 'longstring', 'n': n} for n in (4096, 70000)]
              + [{'kind': 'params', 'n': n} for n in (127, 128, 129, 200)])


def check_boundary(case, ctx, b):
    doc = boundary_doc(case['boundary'])
    scratch = ctx.mkscratch()
    cdir = os.path.join(scratch, 'boundary')
    shutil.rmtree(cdir, ignore_errors=True)
    os.makedirs(cdir)
    try:
        labels = check_doc(ctx, b, doc, girmodel.environment([doc], 0), cdir, boundary=True)
        ctx.label('boundary-rejected-or-timeout' if labels is None else 'boundary-accepted')
        ctx.label('boundary:%s' % case['boundary']['kind'])
    finally:
        shutil.rmtree(cdir, ignore_errors=True)


# ============================================================================ plan / shards / health
def plan(tier):
    if tier == 'quick':
        return [{'n': 20, 'boundaries': []} for i in range(16)]
    return [{'n': 1000, 'boundaries': [j for j in range(len(BOUNDARIES)) if j % 16 == i]} for i in range(16)]


def run_shard(ctx, spec):
    for j in spec.get('boundaries', []):
        ctx.run_case({'boundary': BOUNDARIES[j]}, reraise=False)
    ctx.hyp(girmodel.cases(), spec['n'], shrink=os.environ.get('C06_SHRINK', '1') != '0')


_GATES = [('k:function', 0.2), ('k:callback', 0.1), ('k:record', 0.25), ('k:union', 0.08), ('k:boxed', 0.06),
          ('k:enumeration', 0.07), ('k:bitfield', 0.07), ('k:class', 0.2), ('k:interface', 0.13), ('k:constant', 0.12),
          ('k:alias', 0.1), ('t:basic', 0.5), ('t:string-or-pointer', 0.4), ('t:iface-local', 0.3),
          ('t:iface-foreign', 0.2), ('t:iface-alias', 0.05), ('t:array-C', 0.15), ('t:array-GLib.Array', 0.03),
          ('t:array-GLib.PtrArray', 0.03), ('t:array-GLib.ByteArray', 0.03), ('t:array-length', 0.02),
          ('t:array-fixed', 0.08), ('t:list', 0.15), ('t:hash', 0.1), ('t:error', 0.03), ('nested-container', 0.1),
          ('xns-ref', 0.25), ('rich-compound', 0.1), ('dir:out', 0.3), ('dir:inout', 0.2), ('transfer:full', 0.3),
          ('transfer:container', 0.3), ('scope', 0.1), ('closure-destroy', 0.1), ('throws', 0.15),
          ('vanishing-entry', 0.1), ('field-callback', 0.06), ('field-nonintrospectable', 0.05), ('prop-accessor', 0.03),
          ('vfunc-invoker', 0.03), ('implements', 0.07), ('prerequisites', 0.04), ('shadows', 0.03), ('fundamental', 0.05),
          ('const:utf8', 0.03), ('const:double', 0.02), ('const:int64', 0.01), ('const:boolean', 0.01)]


def health(agg, tier):
    docs = max(1, agg['labels'].get('documents', 0))
    probs = []
    if docs < (400 if tier == 'quick' else 15000):
        probs.append('only %d documents checked' % docs)
    for lab, frac in _GATES:
        if agg['labels'].get(lab, 0) < frac * docs:
            probs.append('%s in %d of %d documents (gate %.0f%%)' % (lab, agg['labels'].get(lab, 0), docs, frac * 100))
    if tier == 'thorough' and agg['labels'].get('boundary-accepted', 0) + agg['labels'].get('boundary-rejected-or-timeout', 0) < len(BOUNDARIES):
        probs.append('boundary documents run: %d of %d' % (agg['labels'].get('boundary-accepted', 0) + agg['labels'].get('boundary-rejected-or-timeout', 0), len(BOUNDARIES)))
    return probs
