"""C12 - runtime GObject type data (the <dump> XML of girepository/gdump.c) is merged
faithfully into the GIR.

Substrate P: a compact model of a GObject-style namespace `Foo` is rendered twice,
(1) as C declarations handed to the real Transformer through the stub front end and
(2) as the <dump> document a library built from those declarations would write
(format read off gdump.c's escaped_printf calls, element order = order of
functions.txt).  The dump goes through the real GDumpParser (a shell "introspection
binary" copies it into place), then MainTransformer, IntrospectablePass, GIRWriter.
The oracle works on the emitted XML with ElementTree and on the model alone.
"""
import os
import shutil
import subprocess
import sys
import xml.etree.ElementTree as ET

from hypothesis import strategies as st

from vlib import pipeline
from vlib.cmodel import ty, param, CONST
from vlib.runner import Violation, crash_clause

ID = 'C12'
LEVEL = 'exploration'
RULE = ('Hypothesis-generated paired (C declarations, dump XML) for namespace Foo: 1-4 classes with parent chains of '
        'length 1-6 through in-namespace classes, fixture classes and HIDDEN types (named in parents= only), ending in '
        'GObject / GInitiallyUnowned; 0-2 fundamental types; 0-2 interfaces with in-namespace / fixture / GObject / unknown '
        'prerequisites; boxed and pointer types with / without a same-named struct or union (tagged, anonymous, opaque) or '
        'with a same-named plain typedef; '
        'enums/flags scanned and/or registered with values that differ in 32-bit signedness between header and dump; '
        'error-quark functions with and without a matching enumeration; instance structs; class / Iface / Interface structs '
        '(tagged, anonymous, opaque, absent) with function-pointer members (inline or through a callback typedef) whose '
        'first parameter is the instance, const instance, nothing, int, gpointer, another type or an unknown type; '
        'properties with random flag words (low 4 bits x noise bits incl. bit 30/31, printed %d) and GType-named types / '
        'default values; signals with every when x flag combination and 0-4 parameters; get-type decoys (with a parameter, '
        'underscore-prefixed). Both tiers add the exhaustive grid (16 low flag nibbles x 13 noise words; 3 whens x 16 signal '
        'flag words). non-trivial = a hidden ancestor precedes the expected parent, or a class struct has both qualifying '
        'and non-qualifying function pointers; distinct = hash of the case')
ASSUMPTIONS = [
    'substrate P: cmodel.to_symbols mirrors scannerparser.y (DESIGN appendix D); the C lexer/parser is not exercised',
    'the dump document is generated from the format of gdump.c (read, not executed: no GLib in the sandbox); elements are '
    'ordered like functions.txt (get-type functions in declaration order, then error quarks)',
    'for ~31 of 32 generated cases the shell "introspection binary" of vlib.pipeline is replaced by an in-process function '
    'with the same effect (a /bin/sh spawn costs ~200 ms on this VM); the grids, the replay corpus and ~1 in 32 generated '
    'cases spawn it for real',
    'dependency GIRs are the miniature fixtures in /verif/fixtures; "known" = registered by the dump in this namespace or '
    'carrying glib:type-name in an included fixture',
    'unknown <implements>/<prerequisite> names are in domain and must simply not be emitted (the GIR cannot name a type '
    'that is defined nowhere); unknown property/signal types must not be given a name',
    'first parameters typed as an ancestor of the class (GObject *, FooBase *) and /*< private >*/ function pointers are '
    'not generated: the statement does not say whether they are "the instance"',
    'a bare <pointer> type cannot be represented in GIR 1.2; only the fate of its get-type function is checked',
]
TECHNIQUE = ('property-based testing (Hypothesis) of the scanner pipeline behind a stub front end and a generated runtime '
             'dump; direct oracle on the emitted XML; exhaustive property-flag and signal-flag grids')
LEVEL_TEXT = ('Randomised search over paired declarations and dumps plus exhaustive flag-word grids; oracle written from the '
              'statement (nearest known ancestor, flag bits 0..3, exact interface sets, mutual struct links).')
LEVEL_NOTE = ('trusts the symbol-tree model of the C front end (DESIGN 1.2) and that the generated dump has the format '
              'gdump.c writes; everything between GDumpParser and GIRWriter is the real code')
DESIGN_REF = 'DESIGN.md section 2, C12'

NS = {'name': 'Foo', 'version': '1.0', 'id_prefixes': ['Foo'], 'sym_prefixes': ['foo']}
GI = '{http://www.gtk.org/introspection/core/1.0}'
C = '{http://www.gtk.org/introspection/c/1.0}'
GLIB = '{http://www.gtk.org/introspection/glib/1.0}'


# ------------------------------------------------------------------ fixtures (read with ElementTree, not giscanner)
def _load_fixtures():
    fix = {}
    incl = {}
    for fn in sorted(os.listdir(pipeline.FIXTURES)):
        if not fn.endswith('.gir'):
            continue
        root = ET.parse(os.path.join(pipeline.FIXTURES, fn)).getroot()
        ns = root.find(GI + 'namespace')
        key = fn[:-4]
        incl[key] = ['%s-%s' % (i.get('name'), i.get('version')) for i in root.findall(GI + 'include')]
        types = {}
        for el in ns:
            gt = el.get(GLIB + 'type-name')
            if gt is not None:
                types[gt] = (ns.get('name') + '.' + el.get('name'), el.tag[len(GI):] if el.tag.startswith(GI) else el.tag)
        fix[key] = types
    return fix, incl


_FIX, _INCL = _load_fixtures()


def fixture_types(include):
    """gtype name -> GIR name for everything reachable from `include`."""
    seen, todo, out = set(), [include], {}
    while todo:
        k = todo.pop()
        if k in seen:
            continue
        seen.add(k)
        for gt, (name, _tag) in _FIX[k].items():
            out.setdefault(gt, name)
        todo.extend(_INCL[k])
    return out


# GType names of the GLib fundamental types -> GIR basic type names (GLib reference manual, "Basic types";
# gchararray is G_TYPE_STRING, guchar is an 8-bit unsigned integer)
FUND = {'gchar': 'gchar', 'guchar': 'guint8', 'gboolean': 'gboolean', 'gint': 'gint', 'guint': 'guint',
        'glong': 'glong', 'gulong': 'gulong', 'gint64': 'gint64', 'guint64': 'guint64', 'gfloat': 'gfloat',
        'gdouble': 'gdouble', 'gchararray': 'utf8', 'gpointer': 'gpointer', 'GType': 'GType', 'void': 'none'}
FUND_VALUE = sorted(k for k in FUND if k != 'void')

ROOTS = {'GObject': [], 'GInitiallyUnowned': ['GObject'], 'GBinding': ['GObject'], 'GTypeModule': ['GObject'],
         'GApplication': ['GObject'], 'GCancellable': ['GObject'], 'GTask': ['GObject']}
HIDDEN = ['FooPrivBase', 'FooHidden', 'GtkHiddenWidget', 'XInternal', 'FooBaseImpl']
FIX_IFACES = ['GTypePlugin', 'GListModel', 'GFile', 'GAsyncResult']
HIDDEN_IFACES = ['FooHiddenIface', 'GtkBuildable']
FIX_VALUE_TYPES = ['GObject', 'GInitiallyUnowned', 'GBinding', 'GTypePlugin', 'GBytes', 'GError', 'GDate', 'GValue',
                   'GClosure', 'GVariant', 'GParam', 'GBindingFlags', 'GUnicodeType', 'GIOCondition', 'GFile',
                   'GCancellable', 'GFileType', 'GApplicationFlags', 'GListModel']
UNKNOWN_VALUE_TYPES = ['FooSecret', 'GtkThing', 'FooPrivBase']
CONTAINERS = ['GStrv', 'GHashTable', 'GByteArray']

CLASS_NAMES = [('Thing', 'thing'), ('Widget', 'widget'), ('Base', 'base'), ('DBusProxy', 'dbus_proxy'),
               ('SubThing', 'sub_thing'), ('Object', 'object')]
FUND_NAMES = [('Fund', 'fund'), ('MiniObject', 'mini_object')]
IFACE_NAMES = [('Iface', 'iface'), ('Editable', 'editable'), ('Plugin', 'plugin')]
BOX_NAMES = [('Box', 'box'), ('Rect', 'rect'), ('Blob', 'blob'), ('Handle', 'handle')]
ENUM_NAMES = [('Kind', 'kind'), ('Mode', 'mode'), ('MyError', 'my_error'), ('IOError', 'io_error'),
              ('DBusError', 'dbus_error'), ('Options', 'options')]
MEMBER_WORDS = ['A', 'B', 'FAILED', 'NOT_FOUND', 'BIG', 'ALL']
PROP_NAMES = ['size', 'name', 'my-prop', 'active', 'child', 'kind', 'x', 'long-property-name']
SIG_NAMES = ['changed', 'my-signal', 'activate', 'notify-me', 'closed', 'x']
VF_NAMES = ['frob', 'activate', 'changed', 'do_it', 'get_size', 'reserved1']
PNAMES = ['self', 'thing', 'object', 'a']
NOISE = [0, 16, 32, 64, 128, 224, 240, 256, 1 << 30, 1 << 31, (1 << 31) | 224, 0xFFFFFFF0, 0x7FFFFFF0]
WHENS = ['first', 'last', 'cleanup']
DEFAULTS = {'int': ['0', '-1', '42', '2147483647'], 'bool': ['TRUE', 'FALSE'],
            'str': ['NULL', '', 'hello', 'a&b<c>"d\'e', 'tab\\there', 'two words', '\\303\\251'],
            'float': ['0.000000', '1.500000'], 'other': [None, None, 'FOO_KIND_A', '((FooBox*) 0x1234)']}


def s32(v):
    v &= 0xFFFFFFFF
    return v - (1 << 32) if v & (1 << 31) else v


def u32(v):
    return v & 0xFFFFFFFF


# ------------------------------------------------------------------ generator
def _value_types(draw, local):
    pool = st.one_of(st.sampled_from(FUND_VALUE), st.sampled_from(FUND_VALUE),
                     st.sampled_from(FIX_VALUE_TYPES), st.sampled_from(UNKNOWN_VALUE_TYPES + CONTAINERS),
                     st.sampled_from(local) if local else st.sampled_from(FUND_VALUE))
    return pool


def _default_for(draw, t):
    if t in ('gint', 'guint', 'glong', 'gulong', 'gint64', 'guint64', 'gchar', 'guchar'):
        k = 'int'
    elif t == 'gboolean':
        k = 'bool'
    elif t == 'gchararray':
        k = 'str'
    elif t in ('gfloat', 'gdouble'):
        k = 'float'
    else:
        k = 'other'
    return draw(st.sampled_from(DEFAULTS[k] + [None]))


@st.composite
def _props(draw, local, maxn=4):
    names = draw(st.lists(st.sampled_from(PROP_NAMES), min_size=0, max_size=maxn, unique=True))
    out = []
    for n in names:
        t = draw(_value_types(draw, local))
        word = draw(st.integers(0, 15)) | draw(st.sampled_from(NOISE + [0, 224]))
        out.append({'n': n, 'ty': t, 'fl': s32(word), 'dv': _default_for(draw, t)})
    return out


@st.composite
def _sigs(draw, local, maxn=3):
    names = draw(st.lists(st.sampled_from(SIG_NAMES), min_size=0, max_size=maxn, unique=True))
    out = []
    for n in names:
        ret = draw(st.sampled_from(['void', 'void', 'void', 'gboolean', 'gint', 'gchararray', 'GObject'] + local[:2]))
        ps = draw(st.lists(_value_types(draw, local), min_size=0, max_size=4))
        out.append({'n': n, 'ret': ret, 'when': draw(st.sampled_from(WHENS)), 'fl': draw(st.integers(0, 15)), 'ps': ps})
    return out


@st.composite
def _vfuncs(draw, others, maxn=4):
    names = draw(st.lists(st.sampled_from(VF_NAMES), min_size=0, max_size=maxn, unique=True))
    out = []
    for n in names:
        first = draw(st.sampled_from(['inst', 'inst', 'inst', 'inst-const', 'none', 'int', 'gpointer', 'other', 'unknown']))
        v = {'n': n, 'first': first, 'pn': draw(st.sampled_from(PNAMES)), 'td': draw(st.integers(0, 4)) == 0,
             'extra': draw(st.integers(0, 2)), 'ret': draw(st.sampled_from(['void', 'void', 'gboolean', 'int']))}
        if first == 'other':
            if others:
                v['other'] = draw(st.sampled_from(others))
            else:
                v['first'] = 'int'
        out.append(v)
    return out


@st.composite
def _case(draw):
    inc = draw(st.sampled_from(['GObject-2.0', 'GObject-2.0', 'Gio-2.0']))
    case = {'inc': inc}
    # ---- enums
    enums = []
    for nm, stem in draw(st.lists(st.sampled_from(ENUM_NAMES), min_size=0, max_size=3, unique=True)):
        flags = (not nm.endswith('Error')) and draw(st.integers(0, 2)) == 0
        mode = draw(st.sampled_from(['both', 'both', 'scanned', 'dump']))
        words = draw(st.lists(st.sampled_from(MEMBER_WORDS), min_size=1, max_size=4, unique=True))
        members = []
        for i, w in enumerate(words):
            vk = draw(st.sampled_from(['seq', 'seq', 'seq', 'high', 'neg', 'big']))
            if flags:
                v = {'seq': 1 << i, 'high': 1 << 31, 'neg': -1, 'big': 0xFFFFFFFF}[vk]
            else:
                v = {'seq': i, 'high': 0x80000000, 'neg': -(i + 1), 'big': 0xFFFFFFFF}[vk]
            members.append({'w': w, 'v': v})
        e = {'n': nm, 'stem': stem, 'flags': flags, 'scanned': mode != 'dump', 'reg': mode != 'scanned',
             'members': members, 'quark': None}
        if nm.endswith('Error') and draw(st.integers(0, 3)) != 0:
            e['quark'] = draw(st.sampled_from(['foo-%s-quark' % stem.replace('_', '-'), 'foo-%s' % stem.replace('_', '-'),
                                               'Foo%s' % nm, 'foo_%s_quark' % stem]))
        enums.append(e)
    case['enums'] = enums
    case['orphan_quark'] = draw(st.sampled_from([None, None, 'foo-orphan-error-quark', 'whatever']))
    # ---- boxed / pointer
    boxed = []
    for nm, stem in draw(st.lists(st.sampled_from(BOX_NAMES), min_size=0, max_size=3, unique=True)):
        boxed.append({'n': nm, 'stem': stem, 'tag': draw(st.sampled_from(['boxed', 'boxed', 'boxed', 'pointer'])),
                      'pair': draw(st.sampled_from([None, None, None, 'struct', 'struct', 'opaque', 'opaque', 'anon', 'anon',
                                                    'union', 'union', 'union-anon', 'union-anon', 'alias'])),
                      'gt': draw(st.sampled_from(['get_type', 'get_type', 'get_type', 'get_gtype']))})
    case['boxed'] = boxed
    # ---- interface / class names first: value types may name any registered in-namespace type
    ifnames = draw(st.lists(st.sampled_from(IFACE_NAMES), min_size=0, max_size=2, unique=True))
    clnames = draw(st.lists(st.sampled_from(CLASS_NAMES), min_size=1, max_size=4, unique=True))
    funames = draw(st.lists(st.sampled_from(FUND_NAMES), min_size=0, max_size=2, unique=True)) \
        if draw(st.integers(0, 3)) == 0 else []
    local = (['Foo' + n for n, _ in clnames] + ['Foo' + n for n, _ in ifnames]
             + ['Foo' + b['n'] for b in boxed if b['pair'] != 'alias' and (b['tag'] == 'boxed' or b['pair'])]
             + ['Foo' + e['n'] for e in enums if e['reg']])
    pointerish = ['Foo' + n for n, _ in ifnames] + ['Foo' + b['n'] for b in boxed if b['pair'] in ('struct', 'opaque', 'anon')]
    # ---- interfaces
    ifaces = []
    for i, (nm, stem) in enumerate(ifnames):
        pre_pool = (['Foo' + n for n, _ in ifnames[:i]] + ['Foo' + n for n, _ in clnames[:1]] + FIX_IFACES
                    + ['GObject', 'GInitiallyUnowned'] + HIDDEN_IFACES)
        ifaces.append({'n': nm, 'stem': stem,
                       'pre': draw(st.lists(st.sampled_from(pre_pool), min_size=0, max_size=3, unique=True)),
                       'inst': draw(st.integers(0, 5)) != 0,
                       'cstruct': draw(st.sampled_from([None, 'tagged', 'tagged', 'anon', 'opaque'])),
                       'sfx': draw(st.sampled_from(['Iface', 'Interface'])),
                       'vf': draw(_vfuncs([p for p in pointerish if p != 'Foo' + nm] + ['Foo' + n for n, _ in clnames])),
                       'props': draw(_props(local, 2)), 'sigs': draw(_sigs(local, 2))})
    case['ifaces'] = ifaces
    # ---- class lattice
    hidden_tail = {}
    classes = []
    for i, (nm, stem) in enumerate(clnames):
        chain = []
        while True:
            opts = ['root', 'root', 'hidden', 'hidden']
            if classes:
                opts += ['ns', 'ns']
            k = draw(st.sampled_from(opts))
            if k == 'hidden' and len(chain) < 4:
                cand = [h for h in HIDDEN if h not in chain]
                h = draw(st.sampled_from(cand))
                chain.append(h)
                if h in hidden_tail:
                    chain.extend(hidden_tail[h])
                    break
                continue
            if k == 'ns':
                cand = [c for c in classes if len(c['chain']) + len(chain) < 6 and not set(chain) & set(c['chain'])]
                if cand:
                    p = draw(st.sampled_from(cand))
                    chain.append('Foo' + p['n'])
                    chain.extend(p['chain'])
                    break
            r = draw(st.sampled_from(sorted(ROOTS)))
            r = draw(st.sampled_from(['GObject', 'GObject', r]))
            chain.append(r)
            chain.extend(ROOTS[r])
            break
        for j, h in enumerate(chain):
            if h in HIDDEN and h not in hidden_tail:
                hidden_tail[h] = chain[j + 1:]
        impl_pool = ['Foo' + n for n, _ in ifnames] + FIX_IFACES + HIDDEN_IFACES
        unrelated = [p for p in pointerish] + ['Foo' + n for n, _ in clnames if 'Foo' + n not in chain and n != nm]
        classes.append({'n': nm, 'stem': stem, 'chain': chain,
                        'abstract': draw(st.integers(0, 3)) == 0, 'final': draw(st.integers(0, 5)) == 0,
                        'impl': draw(st.lists(st.sampled_from(impl_pool), min_size=0, max_size=3, unique=True)),
                        'inst': draw(st.sampled_from(['full', 'full', 'opaque', None])),
                        'cstruct': draw(st.sampled_from([None, 'tagged', 'tagged', 'tagged', 'anon', 'opaque'])),
                        'vf': draw(_vfuncs(unrelated)),
                        'props': draw(_props(local)), 'sigs': draw(_sigs(local)),
                        'meth': draw(st.integers(0, 2)) == 0})
    case['classes'] = classes
    # ---- fundamentals
    funds = []
    for i, (nm, stem) in enumerate(funames):
        k = draw(st.sampled_from(['root', 'root', 'param', 'hidden', 'ns']))
        if k == 'ns' and funds:
            chain = ['Foo' + funds[0]['n']] + funds[0]['chain']
        elif k == 'param':
            chain = ['GParam']
        elif k == 'hidden':
            chain = ['FooHiddenFundamental']
        else:
            chain = []
        funds.append({'n': nm, 'stem': stem, 'chain': chain, 'abstract': draw(st.booleans()), 'final': False,
                      'instantiatable': draw(st.booleans()),
                      'impl': draw(st.lists(st.sampled_from(['Foo' + n for n, _ in ifnames] + HIDDEN_IFACES + ['GTypePlugin']),
                                            min_size=0, max_size=2, unique=True)),
                      'inst': draw(st.sampled_from(['full', 'opaque', None])),
                      'cstruct': draw(st.sampled_from([None, 'tagged', 'opaque'])),
                      'vf': draw(_vfuncs([], 2)), 'props': [], 'sigs': [], 'meth': False})
    case['funds'] = funds
    case['decoys'] = draw(st.lists(st.sampled_from(['param', 'underscore', 'int-quark', 'suffix']), max_size=2, unique=True))
    case['ord'] = draw(st.lists(st.integers(0, 99), min_size=8, max_size=8))
    case['spawn'] = draw(st.integers(0, 31)) == 31
    return case


# ------------------------------------------------------------------ rendering: declarations
def _fwd(name, kind='struct', file_=0):
    d = {'d': 'compound', 'kind': kind, 'tag': '_' + name, 'typedef': name, 'fields': None}
    if file_ is None:
        d['file'] = None
    return d


def _body(name, fields, kind='struct'):
    return {'d': 'compound', 'kind': kind, 'tag': '_' + name, 'typedef': None, 'fields': fields}


def _anon(name, fields, kind='struct'):
    return {'d': 'compound', 'kind': kind, 'tag': None, 'typedef': name, 'fields': fields}


def _fp(ret, params):
    return {'base': 'void', 'kind': 'void', 'q': 0, 'ptrs': [], 'dims': [], 'fp': {'ret': ret, 'params': params}}


def _ptr(name, const=False):
    return ty(name, kind='typedef', q=CONST if const else 0, ptrs=[0])


def _vf_params(v, inst):
    f = v['first']
    ps = []
    if f == 'inst':
        ps.append(param(v['pn'], _ptr(inst)))
    elif f == 'inst-const':
        ps.append(param(v['pn'], _ptr(inst, True)))
    elif f == 'int':
        ps.append(param(v['pn'], ty('int')))
    elif f == 'gpointer':
        ps.append(param(v['pn'], ty('gpointer')))
    elif f == 'other':
        ps.append(param(v['pn'], _ptr(v['other'])))
    elif f == 'unknown':
        ps.append(param(v['pn'], _ptr('FooNowhere')))
    if f != 'none':
        for i in range(v['extra']):
            ps.append(param('arg%d' % i, ty('int')))
    return ps


def _ret(v):
    return ty(v['ret']) if v['ret'] != 'gboolean' else ty('gboolean')


def _struct_decls(owner, inst, sname, mode, first_field, vfs, early, late, td_prefix):
    """Class / interface structure `sname` for instance type `inst`."""
    if mode is None:
        return
    if mode == 'opaque':
        early.append(_fwd(sname))
        return
    fields = [first_field]
    for v in vfs:
        ps = _vf_params(v, inst)
        if v['td']:
            cb = '%s%sFunc' % (td_prefix, ''.join(w.capitalize() for w in v['n'].split('_')))
            late.append(('cb', {'d': 'callback', 'name': cb, 'ret': _ret(v), 'params': ps, 'ptr': True}))
            fields.append({'name': v['n'], 'type': ty(cb, kind='typedef')})
        else:
            fields.append({'name': v['n'], 'type': _fp(_ret(v), ps)})
    if mode == 'tagged':
        early.append(_fwd(sname))
        late.append(('x', _body(sname, fields)))
    else:
        late.append(('x', _anon(sname, fields)))


def build(case):
    """-> (decls, dump text, get_type symbols, quark symbols)"""
    early, late = [], []            # early: forward typedefs; late: (group, decl)
    gettypes = []                   # (symbol, xml element text)
    quarks = []
    foreign = set()

    def gt_func(sym):
        late.append(('x', {'d': 'function', 'name': sym, 'ret': ty('GType'), 'params': []}))

    for e in case['enums']:
        cname = 'Foo' + e['n']
        up = 'FOO_' + e['stem'].upper() + '_'
        if e['scanned']:
            late.append(('e', {'d': 'enum', 'name': cname, 'tag': None, 'flags': e['flags'],
                               'members': [{'name': up + m['w'], 'value': m['v']} for m in e['members']]}))
        if e['reg']:
            sym = 'foo_%s_get_type' % e['stem']
            gt_func(sym)
            rows = []
            for m in e['members']:
                dv = u32(m['v']) if e['flags'] else s32(m['v'])
                rows.append('    <member name="%s" nick="%s" value="%d"/>\n' % (up + m['w'], m['w'].lower().replace('_', '-'), dv))
            tag = 'flags' if e['flags'] else 'enum'
            gettypes.append((sym, '  <%s name="%s" get-type="%s">\n%s  </%s>\n' % (tag, cname, sym, ''.join(rows), tag)))
        if e['quark'] is not None:
            q = 'foo_%s_quark' % e['stem']
            late.append(('x', {'d': 'function', 'name': q, 'ret': ty('GQuark'), 'params': []}))
            quarks.append((q, e['quark']))
    if case.get('orphan_quark') is not None:
        late.append(('x', {'d': 'function', 'name': 'foo_orphan_error_quark', 'ret': ty('GQuark'), 'params': []}))
        quarks.append(('foo_orphan_error_quark', case['orphan_quark']))

    for b in case['boxed']:
        cname = 'Foo' + b['n']
        sym = 'foo_%s_%s' % (b['stem'], b['gt'])
        gt_func(sym)
        gettypes.append((sym, '  <%s name="%s" get-type="%s"/>\n' % (b['tag'], cname, sym)))
        flds = [{'name': 'x', 'type': ty('int')}, {'name': 'data', 'type': ty('gpointer')}]
        p = b['pair']
        if p == 'struct':
            early.append(_fwd(cname))
            late.append(('x', _body(cname, flds)))
        elif p == 'opaque':
            early.append(_fwd(cname))
        elif p == 'anon':
            late.append(('e', _anon(cname, flds)))
        elif p == 'union':
            early.append(_fwd(cname, 'union'))
            late.append(('x', _body(cname, flds, 'union')))
        elif p == 'union-anon':
            late.append(('e', _anon(cname, flds, 'union')))
        elif p == 'alias':
            # typedef gpointer FooHandle; registered with g_boxed_type_register_static / g_pointer_type_register_static
            late.append(('e', {'d': 'typedef', 'name': cname, 'type': ty('gpointer', kind='typedef')}))

    def props_sigs(t):
        out = []
        for p in t['props']:
            if p['dv'] is None:
                out.append('    <property name="%s" type="%s" flags="%d"/>\n' % (p['n'], p['ty'], p['fl']))
            else:
                out.append('    <property name="%s" type="%s" flags="%d" default-value="%s"/>\n'
                           % (p['n'], p['ty'], p['fl'], _esc(p['dv'])))
        for s in t['sigs']:
            a = ' when="%s"' % s['when']
            for bit, nm in enumerate(('no-recurse', 'detailed', 'action', 'no-hooks')):
                if s['fl'] & (1 << bit):
                    a += ' %s="1"' % nm
            out.append('    <signal name="%s" return="%s"%s>\n%s    </signal>\n'
                       % (s['n'], s['ret'], a, ''.join('      <param type="%s"/>\n' % p for p in s['ps'])))
        return ''.join(out)

    for it in case['ifaces']:
        cname = 'Foo' + it['n']
        sym = 'foo_%s_get_type' % it['stem']
        gt_func(sym)
        if it['inst']:
            early.append(_fwd(cname))
        _struct_decls(it, cname, cname + it['sfx'], it['cstruct'],
                      {'name': 'g_iface', 'type': ty('GTypeInterface', kind='typedef')}, it['vf'], early, late, cname)
        gettypes.append((sym, '  <interface name="%s" get-type="%s">\n%s%s  </interface>\n'
                         % (cname, sym, ''.join('    <prerequisite name="%s"/>\n' % p for p in it['pre']), props_sigs(it))))

    for kind in ('classes', 'funds'):
        for cl in case[kind]:
            cname = 'Foo' + cl['n']
            sym = 'foo_%s_get_type' % cl['stem']
            gt_func(sym)
            parent_c = cl['chain'][0] if cl['chain'] else 'GTypeInstance'
            if cl['inst'] is not None:
                early.append(_fwd(cname))
                if cl['inst'] == 'full':
                    late.append(('x', _body(cname, [{'name': 'parent_instance', 'type': ty(parent_c, kind='typedef')},
                                                    {'name': 'count', 'type': ty('int')}])))
            pclass = (parent_c + 'Class') if cl['chain'] else 'GTypeClass'
            if parent_c not in ROOTS and not parent_c.startswith('GT') and parent_c != 'GParam':
                # by-value members need complete types: whatever the scanned header does not define
                # comes from a private, unscanned header
                if cl['inst'] == 'full':
                    foreign.add(parent_c)
                if cl['cstruct'] in ('tagged', 'anon'):
                    foreign.add(pclass)
            _struct_decls(cl, cname, cname + 'Class', cl['cstruct'],
                          {'name': 'parent_class', 'type': ty(pclass, kind='typedef')}, cl['vf'], early, late, cname)
            if cl.get('meth') and cl['inst'] is not None:
                for v in cl['vf']:
                    if v['first'] == 'inst':
                        late.append(('x', {'d': 'function', 'name': 'foo_%s_%s' % (cl['stem'], v['n']),
                                           'ret': _ret(v), 'params': _vf_params(v, cname)}))
                taken = set('get_' + v['n'] if False else v['n'] for v in cl['vf'] if v['first'] == 'inst')
                for p in cl['props'][:2]:
                    acc = 'get_' + p['n'].replace('-', '_')
                    if acc in taken:
                        continue
                    late.append(('x', {'d': 'function', 'name': 'foo_%s_%s' % (cl['stem'], acc),
                                       'ret': ty('int'), 'params': [param('self', _ptr(cname))]}))
            attrs = ''
            if kind == 'classes':
                attrs += ' parents="%s"' % ','.join(cl['chain'])
                if cl['abstract']:
                    attrs += ' abstract="1"'
                if cl['final']:
                    attrs += ' final="1"'
                tag = 'class'
            else:
                if cl['abstract']:
                    attrs += ' abstract="1"'
                if cl['final']:
                    attrs += ' final="1"'
                if cl['instantiatable']:
                    attrs += ' instantiatable="1"'
                if cl['chain']:
                    attrs += ' parents="%s"' % ','.join(cl['chain'])
                tag = 'fundamental'
            gettypes.append((sym, '  <%s name="%s" get-type="%s"%s>\n%s%s  </%s>\n'
                             % (tag, cname, sym, attrs, ''.join('    <implements name="%s"/>\n' % i for i in cl['impl']),
                                props_sigs(cl) if kind == 'classes' else '', tag)))

    for d in case.get('decoys', []):
        if d == 'param':
            late.append(('x', {'d': 'function', 'name': 'foo_decoy_get_type', 'ret': ty('GType'),
                               'params': [param('index', ty('int'))]}))
        elif d == 'underscore':
            late.append(('x', {'d': 'function', 'name': '_foo_private_get_type', 'ret': ty('GType'), 'params': []}))
        elif d == 'int-quark':
            late.append(('x', {'d': 'function', 'name': 'foo_count_error_quark', 'ret': ty('int'), 'params': []}))
        elif d == 'suffix':
            late.append(('x', {'d': 'function', 'name': 'foo_thing_get_type_name', 'ret': ty('GType'), 'params': []}))

    ordk = case.get('ord') or [0]

    def shuffled(items):
        idx = sorted(range(len(items)), key=lambda i: (ordk[i % len(ordk)] * 7919 + i * ordk[(i + 3) % len(ordk)]) % 101)
        return [items[i] for i in idx]

    bodies = set()
    for _g, d in late:
        if d['d'] == 'compound' and d.get('fields') is not None:
            bodies.add(d['typedef'] or d['tag'][1:])
    fwds = set(d['typedef'] for d in early)
    decls = [{'d': 'compound', 'kind': 'struct', 'tag': '_' + n, 'typedef': None if n in fwds else n, 'file': None,
              'fields': [{'name': 'dummy', 'type': ty('int')}]} for n in sorted(foreign - bodies)]
    decls += shuffled(early)
    decls += shuffled([d for g, d in late if g == 'e'])
    decls += shuffled([d for g, d in late if g == 'cb'])
    decls += shuffled([d for g, d in late if g == 'x'])
    # the dump program walks functions.txt: get-type functions in declaration order, then the quarks
    pos = {}
    for i, d in enumerate(decls):
        if d['d'] == 'function':
            pos[d['name']] = i
    gettypes.sort(key=lambda g: pos[g[0]])
    quarks.sort(key=lambda q: pos[q[0]])
    dump = '<?xml version="1.0"?>\n<dump>\n' + ''.join(x for _s, x in gettypes)
    dump += ''.join('  <error-quark function="%s" domain="%s"/>\n' % (q, _esc(dom)) for q, dom in quarks)
    dump += '</dump>\n'
    return decls, dump, [g[0] for g in gettypes], [q[0] for q in quarks]


def _esc(s):
    return (s.replace('&', '&amp;').replace('<', '&lt;').replace('>', '&gt;').replace("'", '&apos;').replace('"', '&quot;'))


# ------------------------------------------------------------------ oracle
def _by_gtype(ns, gname):
    return [e for e in ns if e.get(GLIB + 'type-name') == gname]


def _type_expect(gname, known):
    """-> ('basic', name) | ('named', GIR name) | ('strv',) | ('container', name) | ('unknown',)"""
    if gname in FUND:
        return ('basic', FUND[gname])
    if gname == 'GStrv':
        return ('strv',)
    if gname == 'GHashTable':
        return ('container', 'GLib.HashTable')
    if gname == 'GByteArray':
        return ('container', 'GLib.ByteArray')
    if gname in known:
        return ('named', known[gname])
    return ('unknown',)


def _check_type(holder, gname, known, clause, what):
    """holder: element with a <type> or <array> child."""
    exp = _type_expect(gname, known)
    tel = holder.find(GI + 'type')
    ael = holder.find(GI + 'array')
    if exp[0] in ('basic', 'named'):
        got = tel.get('name') if tel is not None else None
        if got != exp[1]:
            raise Violation(clause, '%s: reported type %s, expected GIR type %r, got %r' % (what, gname, exp[1], got))
    elif exp[0] == 'strv':
        inner = ael.find(GI + 'type') if ael is not None else None
        if inner is None or inner.get('name') != 'utf8':
            raise Violation(clause, '%s: reported GStrv, expected an array of utf8' % what)
    elif exp[0] == 'container':
        got = (tel.get('name') if tel is not None else None) or (ael.get('name') if ael is not None else None)
        if got != exp[1]:
            raise Violation(clause, '%s: reported %s, expected %s, got %r' % (what, gname, exp[1], got))
    else:
        got = tel.get('name') if tel is not None else (ael.get('name') if ael is not None else None)
        if got is not None:
            raise Violation(clause + ':unknown-type-named', '%s: reported type %s is defined nowhere but the GIR names %r'
                            % (what, gname, got))


def _flag(el, name, default):
    v = el.get(name)
    if v is None:
        return default
    return v == '1'


def _check_props_sigs(el, t, known, ctx, lab):
    gname = 'Foo' + t['n']
    props = el.findall(GI + 'property')
    if sorted(p.get('name') for p in props) != sorted(p['n'] for p in t['props']):
        raise Violation('property-set', '%s: reported %r, GIR has %r' % (gname, sorted(p['n'] for p in t['props']),
                                                                          sorted(p.get('name') for p in props)))
    for p in t['props']:
        pel = [x for x in props if x.get('name') == p['n']][0]
        w = p['fl']
        got = (_flag(pel, 'readable', True), _flag(pel, 'writable', False), _flag(pel, 'construct', False),
               _flag(pel, 'construct-only', False))
        exp = (bool(w & 1), bool(w & 2), bool(w & 4), bool(w & 8))
        for nm, g, e in zip(('readable', 'writable', 'construct', 'construct-only'), got, exp):
            if g != e:
                raise Violation('property-flag:' + nm, '%s:%s flags=%d (0x%x): %s expected %s, GIR says %s'
                                % (gname, p['n'], w, u32(w), nm, e, g))
        _check_type(pel, p['ty'], known, 'property-type', '%s:%s' % (gname, p['n']))
        dv = pel.get('default-value')
        if dv != p['dv']:
            if p['dv'] == '' and dv is None:
                if ctx.known('default-value:empty-string'):
                    continue
                raise Violation('default-value:empty-string', '%s:%s reported default-value="" (an empty string default), '
                                'the GIR has no default-value attribute' % (gname, p['n']))
            raise Violation('default-value', '%s:%s reported %r, GIR has %r' % (gname, p['n'], p['dv'], dv))
        lab.add('prop-low-%d' % (w & 15))
        if u32(w) >> 31:
            lab.add('prop-negative-flag-word')
        if p['dv'] is not None:
            lab.add('prop-default')
    sigs = el.findall(GLIB + 'signal')
    if sorted(s.get('name') for s in sigs) != sorted(s['n'] for s in t['sigs']):
        raise Violation('signal-set', '%s: reported %r, GIR has %r' % (gname, sorted(s['n'] for s in t['sigs']),
                                                                        sorted(s.get('name') for s in sigs)))
    for s in t['sigs']:
        sel = [x for x in sigs if x.get('name') == s['n']][0]
        if sel.get('when') != s['when']:
            raise Violation('signal-when', '%s::%s reported %s, GIR has %r' % (gname, s['n'], s['when'], sel.get('when')))
        for bit, nm in enumerate(('no-recurse', 'detailed', 'action', 'no-hooks')):
            e = bool(s['fl'] & (1 << bit))
            if _flag(sel, nm, False) != e:
                raise Violation('signal-flag:' + nm, '%s::%s reported %s=%s, GIR has %r' % (gname, s['n'], nm, e, sel.get(nm)))
        rv = sel.find(GI + 'return-value')
        if rv is None:
            raise Violation('signal-return', '%s::%s has no return-value' % (gname, s['n']))
        _check_type(rv, s['ret'], known, 'signal-return', '%s::%s return' % (gname, s['n']))
        pars = sel.find(GI + 'parameters')
        pl = pars.findall(GI + 'parameter') if pars is not None else []
        if len(pl) != len(s['ps']):
            raise Violation('signal-param-count', '%s::%s reported %d parameters, GIR has %d' % (gname, s['n'], len(s['ps']), len(pl)))
        for i, (pe, pt) in enumerate(zip(pl, s['ps'])):
            _check_type(pe, pt, known, 'signal-param-type', '%s::%s parameter %d' % (gname, s['n'], i))
        lab.add('when-' + s['when'])
        lab.add('sig-flags-%d' % s['fl'])
        lab.add('sig-params-%d' % len(s['ps']))


def _qualifies(v):
    return v['first'] in ('inst', 'inst-const')


class _InprocDumper(object):
    """Stands in for the `subprocess` module inside giscanner.gdumpparser for most cases: does in-process exactly what
    the shell "introspection binary" of vlib.pipeline does (keep functions.txt, copy the prepared dump to the output
    path). Spawning /bin/sh costs ~200 ms per case on this VM; cases with case['spawn'] (the grids and ~1 in 32
    generated ones) still go through the real subprocess."""
    CalledProcessError = subprocess.CalledProcessError

    @staticmethod
    def check_call(args, stdout=None, stderr=None):
        spec = args[-1]
        if not spec.startswith('--introspect-dump=') or args[0] != '/bin/sh':
            raise AssertionError('unexpected dump command %r' % (args,))
        inp, outp = spec[len('--introspect-dump='):].split(',', 1)
        shutil.copyfile(inp, args[-2] + '.functions')
        shutil.copyfile(args[-2], outp)
        return 0


def check_case(case, ctx):
    decls, dump, gt_syms, q_syms = build(case)
    pipeline.M()
    sys.modules['giscanner.gdumpparser']._verif_keep_subprocess = True
    sys.modules['giscanner.gdumpparser'].subprocess = subprocess if case.get('spawn') else _InprocDumper
    full = {'ns': NS, 'includes': [case['inc']], 'decls': decls, 'comments': [], 'dump': dump}
    try:
        res = pipeline.run(full, ctx.mkscratch())
    except Exception as e:
        raise Violation(crash_clause(e), '%r' % (e,))
    if res.fatal is not None:
        raise Violation('fatal-on-valid-input', '%s | %s' % (res.fatal[:300], [d.text[:200] for d in res.diags if d.level == 2][:2]))
    lab = set()

    # ---- functions.txt
    want = sorted(['get-type:' + s for s in gt_syms] + ['error-quark:' + s for s in q_syms])
    got = sorted((res.functions_txt or '').split())
    if got != want:
        raise Violation('functions-txt', 'expected %r, the dump program was handed %r' % (want, got))

    root = ET.fromstring(res.gir)
    ns = root.find(GI + 'namespace')
    fx = fixture_types(case['inc'])
    known = dict(fx)
    for kind in ('classes', 'funds', 'ifaces'):
        for t in case[kind]:
            known['Foo' + t['n']] = t['n']
    for b in case['boxed']:
        if b['pair'] != 'alias' and (b['tag'] == 'boxed' or b['pair']):
            known['Foo' + b['n']] = b['n']
    for e in case['enums']:
        if e['reg']:
            known['Foo' + e['n']] = e['n']

    links = {}        # expected record name -> type name
    nontrivial = False

    # ---- classes and fundamentals
    for kind in ('classes', 'funds'):
        for cl in case[kind]:
            gname = 'Foo' + cl['n']
            els = _by_gtype(ns, gname)
            if len(els) != 1 or els[0].tag != GI + 'class':
                raise Violation('class-missing', '%s reported as %s: %d elements carry its glib:type-name (%r)'
                                % (gname, kind, len(els), [e.tag for e in els]))
            el = els[0]
            gt = 'foo_%s_get_type' % cl['stem']
            if el.get(GLIB + 'get-type') != gt:
                raise Violation('get-type-attr', '%s: expected %s got %r' % (gname, gt, el.get(GLIB + 'get-type')))
            exp_parent = None
            hidden_before = 0
            for a in cl['chain']:
                if a in known:
                    exp_parent = known[a]
                    break
                hidden_before += 1
            if el.get('parent') != exp_parent:
                clause = 'parent'
                if hidden_before:
                    clause = 'parent:hidden-ancestors'
                raise Violation(clause, '%s parents=%r: nearest known ancestor is %r, GIR parent=%r'
                                % (gname, ','.join(cl['chain']), exp_parent, el.get('parent')))
            if hidden_before and exp_parent is not None:
                lab.add('hidden-ancestor')
                nontrivial = True
                if hidden_before >= 2:
                    lab.add('hidden-ancestors-2+')
            if exp_parent is not None:
                lab.add('parent-in-namespace' if '.' not in exp_parent else 'parent-fixture')
            else:
                lab.add('parent-none')
            exp_impl = sorted(known[i] for i in cl['impl'] if i in known)
            got_impl = sorted(i.get('name') for i in el.findall(GI + 'implements'))
            if got_impl != exp_impl:
                raise Violation('implements', '%s reported %r (known: %r), GIR has %r' % (gname, cl['impl'], exp_impl, got_impl))
            if len(exp_impl) != len(cl['impl']):
                lab.add('implements-unknown')
            if exp_impl:
                lab.add('implements-known')
            if kind == 'funds':
                lab.add('fundamental')
            _check_props_sigs(el, cl, known, ctx, lab)
            exp_vf = []
            if cl['cstruct'] is not None:
                links[cl['n'] + 'Class'] = cl['n']
                if cl['cstruct'] != 'opaque':
                    exp_vf = sorted(v['n'] for v in cl['vf'] if _qualifies(v))
                    if exp_vf and len(exp_vf) != len(cl['vf']):
                        lab.add('mixed-vfuncs')
                        nontrivial = True
                    if any(v['td'] for v in cl['vf'] if _qualifies(v)):
                        lab.add('vfunc-via-typedef')
                    for v in cl['vf']:
                        lab.add('fp-first-' + v['first'])
            got_vf = sorted(v.get('name') for v in el.findall(GI + 'virtual-method'))
            if got_vf != exp_vf:
                raise Violation('virtual-methods', '%s: class struct %s function pointers %r: expected virtual methods %r, got %r'
                                % (gname, cl['cstruct'], [(v['n'], v['first'], v['pn']) for v in cl['vf']], exp_vf, got_vf))
            want_ts = (cl['n'] + 'Class') if cl['cstruct'] is not None else None
            if el.get(GLIB + 'type-struct') != want_ts:
                raise Violation('type-struct', '%s: expected glib:type-struct=%r got %r' % (gname, want_ts, el.get(GLIB + 'type-struct')))

    # ---- interfaces
    for it in case['ifaces']:
        gname = 'Foo' + it['n']
        els = _by_gtype(ns, gname)
        if len(els) != 1 or els[0].tag != GI + 'interface':
            raise Violation('interface-missing', '%s: %d elements carry its glib:type-name (%r)' % (gname, len(els), [e.tag for e in els]))
        el = els[0]
        gt = 'foo_%s_get_type' % it['stem']
        if el.get(GLIB + 'get-type') != gt:
            raise Violation('get-type-attr', '%s: expected %s got %r' % (gname, gt, el.get(GLIB + 'get-type')))
        exp_pre = sorted(known[i] for i in it['pre'] if i in known)
        got_pre = sorted(i.get('name') for i in el.findall(GI + 'prerequisite'))
        if got_pre != exp_pre:
            raise Violation('prerequisites', '%s reported %r (known: %r), GIR has %r' % (gname, it['pre'], exp_pre, got_pre))
        if exp_pre:
            lab.add('iface-prerequisite')
        if len(exp_pre) != len(it['pre']):
            lab.add('iface-prerequisite-unknown')
        _check_props_sigs(el, it, known, ctx, lab)
        exp_vf = []
        sname = it['n'] + it['sfx']
        if it['cstruct'] is not None:
            links[sname] = it['n']
            lab.add('iface-struct-' + it['sfx'])
            if it['cstruct'] != 'opaque':
                exp_vf = sorted(v['n'] for v in it['vf'] if _qualifies(v))
                if exp_vf and len(exp_vf) != len(it['vf']):
                    lab.add('mixed-vfuncs')
                    nontrivial = True
        got_vf = sorted(v.get('name') for v in el.findall(GI + 'virtual-method'))
        if got_vf != exp_vf:
            raise Violation('virtual-methods', '%s: %s %s function pointers %r: expected virtual methods %r, got %r'
                            % (gname, sname, it['cstruct'], [(v['n'], v['first'], v['pn']) for v in it['vf']], exp_vf, got_vf))
        want_ts = sname if it['cstruct'] is not None else None
        if el.get(GLIB + 'type-struct') != want_ts:
            raise Violation('type-struct', '%s: expected glib:type-struct=%r got %r' % (gname, want_ts, el.get(GLIB + 'type-struct')))

    # ---- the reverse links
    got_links = dict((r.get('name'), r.get(GLIB + 'is-gtype-struct-for')) for r in ns.findall(GI + 'record')
                     if r.get(GLIB + 'is-gtype-struct-for') is not None)
    if got_links != links:
        raise Violation('is-gtype-struct-for', 'expected %r, records say %r' % (links, got_links))

    # ---- boxed / pointer
    for b in case['boxed']:
        gname = 'Foo' + b['n']
        gt = 'foo_%s_%s' % (b['stem'], b['gt'])
        els = _by_gtype(ns, gname)
        bare = [e for e in ns.findall(GLIB + 'boxed') if e.get(GLIB + 'name') == b['n']]
        if b['pair'] == 'alias':
            # no struct or union of that name: nothing to attach to, yet the reported type has to appear somewhere
            if b['tag'] == 'boxed' and len(els) != 1:
                if ctx.known('boxed-dropped:same-named-alias'):
                    continue
                raise Violation('boxed-dropped:same-named-alias', '%s is reported as a boxed type and the header has `typedef gpointer '
                                '%s;`: %d elements carry its glib:type-name' % (gname, gname, len(els)))
            lab.add('%s-alias' % b['tag'])
        elif b['pair']:
            want_tag = GI + ('union' if b['pair'].startswith('union') else 'record')
            if len(els) != 1 or els[0].tag != want_tag or els[0].get('name') != b['n']:
                raise Violation('%s-not-attached' % b['tag'], '%s (%s, header has a %s): elements carrying its type name: %r'
                                % (gname, b['tag'], b['pair'], [(e.tag, e.get('name')) for e in els]))
            if els[0].get(GLIB + 'get-type') != gt:
                raise Violation('get-type-attr', '%s: expected %s got %r' % (gname, gt, els[0].get(GLIB + 'get-type')))
            if bare:
                raise Violation('boxed-duplicated', '%s attaches to a %s but a separate <glib:boxed> was emitted' % (gname, b['pair']))
            lab.add('%s-paired' % b['tag'])
            lab.add('paired-' + b['pair'])
        elif b['tag'] == 'boxed':
            if len(els) != 1 or els[0].tag != GLIB + 'boxed':
                raise Violation('boxed-bare-missing', '%s: expected a bare <glib:boxed>, elements carrying its type name: %r'
                                % (gname, [(e.tag, e.get('name')) for e in els]))
            if els[0].get(GLIB + 'get-type') != gt:
                raise Violation('get-type-attr', '%s: expected %s got %r' % (gname, gt, els[0].get(GLIB + 'get-type')))
            lab.add('boxed-bare')
        else:
            lab.add('pointer-bare')

    # ---- enums / flags
    quark_expect = {}
    for e in case['enums']:
        gname = 'Foo' + e['n']
        want_tag = GI + ('bitfield' if e['flags'] else 'enumeration')
        els = [x for x in ns if x.tag in (GI + 'enumeration', GI + 'bitfield') and x.get(C + 'type') == gname]
        if len(els) != 1:
            raise Violation('enum-missing-or-duplicated', '%s appears %d times' % (gname, len(els)))
        el = els[0]
        if e['reg']:
            gt = 'foo_%s_get_type' % e['stem']
            if el.get(GLIB + 'type-name') != gname or el.get(GLIB + 'get-type') != gt:
                raise Violation('enum-registration', '%s: expected glib:type-name/get-type %s/%s, got %r/%r'
                                % (gname, gname, gt, el.get(GLIB + 'type-name'), el.get(GLIB + 'get-type')))
            if el.tag != want_tag:
                raise Violation('enum-kind', '%s reported as %s, emitted as %s' % (gname, 'flags' if e['flags'] else 'enum', el.tag))
            lab.add('enum-registered' + ('-and-scanned' if e['scanned'] else '-only'))
            up = 'FOO_' + e['stem'].upper() + '_'
            by_id = dict((m.get(C + 'identifier'), m.get('value')) for m in el.findall(GI + 'member'))
            for m in e['members']:
                dumped = u32(m['v']) if e['flags'] else s32(m['v'])
                ok = set([str(dumped)])
                if e['scanned']:
                    ok.add(str(m['v']))
                    if dumped != m['v']:
                        lab.add('enum-sign-differs')
                if by_id.get(up + m['w']) not in ok:
                    raise Violation('enum-member-value', '%s member %s: header value %r, dump value %d, GIR %r'
                                    % (gname, up + m['w'], m['v'] if e['scanned'] else None, dumped, by_id.get(up + m['w'])))
        if e['quark'] is not None:
            quark_expect[gname] = e['quark']
            lab.add('quark-matched' + ('-registered' if e['reg'] else '-scanned-only'))
    for x in ns:
        if x.tag in (GI + 'enumeration', GI + 'bitfield'):
            exp = quark_expect.get(x.get(C + 'type'))
            if x.get(GLIB + 'error-domain') != exp:
                raise Violation('error-domain', '%s: foo_..._error_quark reports domain %r, GIR has glib:error-domain=%r'
                                % (x.get(C + 'type'), exp, x.get(GLIB + 'error-domain')))
    if case.get('orphan_quark') is not None:
        lab.add('quark-unmatched')

    # ---- get-type functions are gone
    idents = {}
    for x in root.iter():
        ci = x.get(C + 'identifier')
        if ci is not None:
            idents.setdefault(ci, x.tag)
    bare_pointers = set('foo_%s_%s' % (b['stem'], b['gt']) for b in case['boxed']
                        if b['tag'] == 'pointer' and b['pair'] in (None, 'alias'))
    alias_boxed = set('foo_%s_%s' % (b['stem'], b['gt']) for b in case['boxed'] if b['tag'] == 'boxed' and b['pair'] == 'alias')
    for s in gt_syms:
        if s in idents:
            if s in bare_pointers:
                if ctx.known('get-type-function-kept:bare-pointer'):
                    continue
                raise Violation('get-type-function-kept:bare-pointer', '%s is the get-type function of a reported <pointer> type '
                                'without a same-named struct; it is still emitted as %s' % (s, idents[s]))
            if s in alias_boxed and ctx.known('boxed-dropped:same-named-alias'):
                continue
            raise Violation('get-type-function-kept', '%s is still emitted as %s' % (s, idents[s]))
    for d in case.get('decoys', []):
        lab.add('decoy-' + d)

    ctx.label(*sorted(lab))
    if nontrivial:
        ctx.note_nontrivial(case)
        from vlib import cmodel
        ctx.sample({'header': cmodel.to_header_text(decls)[:1200], 'dump': dump[:1200]}, 2)


# ------------------------------------------------------------------ exhaustive grids
def _grid_cases():
    cases = []
    base = {'spawn': True, 'inc': 'GObject-2.0', 'enums': [], 'orphan_quark': None, 'boxed': [], 'ifaces': [], 'funds': [], 'decoys': [],
            'ord': [1, 2, 3, 4, 5, 6, 7, 8]}
    types = ['gint', 'gchararray', 'GObject', 'FooThing', 'gboolean', 'gdouble', 'FooSecret', 'guint64']
    for noise in NOISE:
        props = [{'n': 'p%d' % low, 'ty': types[low % len(types)], 'fl': s32(noise | low),
                  'dv': [None, '0', '', 'x'][low % 4] if types[low % len(types)] in ('gint', 'gchararray') else None}
                 for low in range(16)]
        c = dict(base)
        c['classes'] = [{'n': 'Thing', 'stem': 'thing', 'chain': ['FooHidden', 'GObject'], 'abstract': False, 'final': False,
                         'impl': [], 'inst': 'full', 'cstruct': 'tagged', 'vf': [], 'props': props, 'sigs': [], 'meth': False}]
        cases.append(c)
    for when in WHENS:
        sigs = [{'n': 's%d' % fl, 'ret': 'void' if fl % 2 else 'gboolean', 'when': when, 'fl': fl,
                 'ps': ['gint', 'FooThing', 'gchararray', 'GObject'][:fl % 5]} for fl in range(16)]
        c = dict(base)
        c['classes'] = [{'n': 'Thing', 'stem': 'thing', 'chain': ['GInitiallyUnowned', 'GObject'], 'abstract': False,
                         'final': False, 'impl': [], 'inst': 'opaque', 'cstruct': None, 'vf': [], 'props': [], 'sigs': sigs,
                         'meth': False}]
        cases.append(c)
    return cases


def plan(tier):
    if tier == 'quick':
        return [{'n': 200, 'grid': i} for i in range(16)]
    return [{'n': 3000, 'grid': i} for i in range(16)]


def run_shard(ctx, spec):
    grid = _grid_cases()
    mine = grid[spec['grid']::16]
    for c in mine:
        ctx.run_case(c, reraise=False)
    ctx.extra['grid_cells'] = len(mine)
    ctx.extra['exhaustive_grid'] = ('%d property flag words (16 low nibbles x %d noise words) and %d signal (when, flags) '
                                    'combinations' % (16 * len(NOISE), len(NOISE), 16 * len(WHENS)))
    ctx.hyp(_case(), spec['n'])


def health(agg, tier):
    ev = max(1, agg['evals'])
    probs = []
    gates = [('hidden-ancestor', 0.25), ('hidden-ancestors-2+', 0.05), ('parent-in-namespace', 0.1), ('parent-fixture', 0.3),
             ('implements-known', 0.1), ('implements-unknown', 0.1), ('iface-prerequisite', 0.1),
             ('iface-prerequisite-unknown', 0.05), ('iface-struct-Iface', 0.05), ('iface-struct-Interface', 0.05),
             ('boxed-paired', 0.1), ('boxed-bare', 0.05), ('paired-union', 0.02), ('pointer-paired', 0.03),
             ('quark-matched-registered', 0.03), ('quark-matched-scanned-only', 0.02), ('quark-unmatched', 0.1),
             ('enum-sign-differs', 0.03), ('mixed-vfuncs', 0.15), ('vfunc-via-typedef', 0.03), ('fundamental', 0.05),
             ('when-first', 0.1), ('when-last', 0.1), ('when-cleanup', 0.1), ('prop-negative-flag-word', 0.05),
             ('prop-default', 0.1)]
    for lab, frac in gates:
        if agg['labels'].get(lab, 0) < frac * ev:
            probs.append('%s in %d of %d cases' % (lab, agg['labels'].get(lab, 0), ev))
    for low in range(16):
        if agg['labels'].get('prop-low-%d' % low, 0) < len(NOISE):
            probs.append('property flag nibble %d seen %d times' % (low, agg['labels'].get('prop-low-%d' % low, 0)))
        if agg['labels'].get('sig-flags-%d' % low, 0) < 3:
            probs.append('signal flag word %d seen %d times' % (low, agg['labels'].get('sig-flags-%d' % low, 0)))
    if agg['discards'] > 0.05 * ev:
        probs.append('discard rate %d/%d' % (agg['discards'], ev))
    return probs
