"""C01 - parameter and return-value annotations are reflected exactly in the GIR.

Generator: a namespace Foo with 1-6 callables over all five callable kinds (function, method,
callback typedef, signal, virtual method - own block or inherited from the invoker), 0-5
parameters and a return value over a type-kind table, and for every value an annotation set
drawn from the full vocabulary without regard to validity.

Oracle (neither part copies maintransformer.py):
  clause 1  vlib/annrules.py (a table written from the property statement, giannotations.rst and
            tests/warn/*.h) says which annotations are applicable at their site and which GIR
            attributes the documentation promises; those are asserted directly.
  clause 2  for an annotation the table classifies inapplicable the same API is run again with
            exactly that annotation deleted; the run with the annotation must have a diagnostic
            the baseline lacks, positioned in that block, and the attributes the annotation
            governs must be identical in both GIRs.
  Sites the documentation does not decide are executed (no traceback, well-formed GIR) and
  listed, never asserted.
"""
import collections
import copy
import shutil
import subprocess
import sys
import xml.etree.ElementTree as ET

from hypothesis import strategies as st

from vlib import pipeline, cmodel, annrules as AR
from vlib.cmodel import ty, param, CONST
from vlib.runner import Violation, Discard, crash_clause

ID = 'C01'
LEVEL = 'exploration'
RULE = ('Hypothesis-generated namespaces with 1-6 callables over {function, method on a class or boxed record, callback typedef, '
        'signal annotated through Class::signal, virtual method annotated through ClassStruct::slot or through its invoker}, 0-5 '
        'parameters and a return value over ~45 C type spellings in 28 type kinds (pointer depth 0-2, const on either level), '
        'optional trailing GError**, and per value 0-4 annotations from the full parameter vocabulary drawn without regard to '
        'validity (biased so that about half are applicable at their site). Each (annotation, value) pair is classified by '
        'vlib/annrules.py as applicable (clause 1: documented GIR attributes asserted), inapplicable (clause 2: new diagnostic in the '
        'block + governed attributes identical to a baseline run without that annotation), fatal (deliberate: fatal diagnostic naming '
        'the offender) or undecided (executed only). non-trivial = at least one pair asserted by clause 1 and one by clause 2; '
        'distinct = hash of the case. The thorough tier adds the exhaustive single-annotation product.')
ASSUMPTIONS = [
    'substrate P: cmodel.to_symbols mirrors scannerparser.y (calibrated by tools/calibrate_p.py)',
    'the introspection dump is a prepared XML file copied in-process (no real binary, no /bin/sh spawn)',
    'the applicability table vlib/annrules.py is the trusted statement of the documentation; undecided cells are not asserted',
    'GLib/GObject/Gio are the small fixture GIRs under fixtures/',
    'c:type preservation under (type) is not asserted (C02 owns c:type spelling)',
]
TECHNIQUE = ('property-based testing (Hypothesis) on the real scanner pipeline behind a stub C front end; documentation-derived '
             'applicability table as direct oracle plus a delete-one-annotation metamorphic relation for inapplicable annotations')
LEVEL_TEXT = ('Randomised search over annotation x type kind x direction x callable kind x neighbouring annotations; the thorough tier '
              'enumerates the single-annotation product exhaustively. A disagreement is either a defect or a documentation question.')
LEVEL_NOTE = 'trusts the symbol-tree model of the C front end, the fixture GIRs and the hand-written applicability table'
DESIGN_REF = 'DESIGN.md section 2, C01 and appendix A'

NS = {'name': 'Foo', 'version': '1.0', 'id_prefixes': ['Foo'], 'sym_prefixes': ['foo']}
GI = '{http://www.gtk.org/introspection/core/1.0}'
C = '{http://www.gtk.org/introspection/c/1.0}'
GLIB = '{http://www.gtk.org/introspection/glib/1.0}'
CFILE = '/src/foo.c'
BLOCK_STRIDE = 40
MISSING = 'no_such_param'


def T(name, ptr=0, const=False):
    return ty(name, 'typedef', CONST if const else 0, [0] * ptr)


def B(name, ptr=0, const=False):
    return ty(name, 'basic', CONST if const else 0, [0] * ptr)


VOID = ty('void', 'void')

# spelling -> (C type, type kind (annrules category), GType name usable as a signal argument or None)
KINDS = collections.OrderedDict([
    ('int', (B('int'), 'basic', 'gint')),
    ('guint', (T('guint'), 'basic', 'guint')),
    ('gboolean', (T('gboolean'), 'basic', 'gboolean')),
    ('double', (B('double'), 'basic', 'gdouble')),
    ('GType', (T('GType'), 'basic', 'GType')),
    ('gsize', (T('gsize'), 'basic', None)),
    ('alias-int', (T('FooAliasInt'), 'basic', None)),
    ('enum', (T('FooKind'), 'enum', None)),
    ('flags', (T('FooFlags'), 'enum', None)),
    ('str', (B('char', 1), 'string', 'gchararray')),
    ('cstr', (B('char', 1, True), 'string', None)),
    ('gpointer', (T('gpointer'), 'untyped', 'gpointer')),
    ('gconstpointer', (T('gconstpointer'), 'untyped', None)),
    ('rec*', (T('FooRec', 1), 'record', None)),
    ('crec*', (T('FooRec', 1, True), 'record', None)),
    ('boxed*', (T('FooBoxed', 1), 'boxed', 'FooBoxed')),
    ('GDateTime*', (T('GDateTime', 1), 'boxed', 'GDateTime')),
    ('union*', (T('FooUnion', 1), 'union', None)),
    ('rec**', (T('FooRec', 2), 'recpp', None)),
    ('boxed**', (T('FooBoxed', 2), 'recpp', None)),
    ('obj*', (T('FooObj', 1), 'object', 'FooObj')),
    ('GObject*', (T('GObject', 1), 'object', 'GObject')),
    ('iface*', (T('FooIface', 1), 'iface', 'FooIface')),
    ('obj**', (T('FooObj', 2), 'objpp', None)),
    ('GVariant*', (T('GVariant', 1), 'variant', 'GVariant')),
    ('GClosure*', (T('GClosure', 1), 'closure', 'GClosure')),
    ('GList*', (T('GList', 1), 'list', None)),
    ('GSList*', (T('GSList', 1), 'list', None)),
    ('GHashTable*', (T('GHashTable', 1), 'map', 'GHashTable')),
    ('GArray*', (T('GArray', 1), 'garray', 'GArray')),
    ('GPtrArray*', (T('GPtrArray', 1), 'gptrarray', 'GPtrArray')),
    ('GByteArray*', (T('GByteArray', 1), 'gbytearray', 'GByteArray')),
    ('strv', (B('char', 2), 'strv', 'GStrv')),
    ('cstrv', (ty('char', 'basic', CONST, [CONST, 0]), 'strv', None)),
    ('int*', (B('int', 1), 'basicptr', None)),
    ('cint*', (B('int', 1, True), 'basicptr', None)),
    ('gsize*', (T('gsize', 1), 'basicptr', None)),
    ('int**', (B('int', 2), 'basicpp', None)),
    ('cb', (T('FooCallback'), 'callback', None)),
    ('GDestroyNotify', (T('GDestroyNotify'), 'destroy', None)),
    ('GAsyncReadyCallback', (T('GAsyncReadyCallback'), 'asyncready', None)),
    ('GError**', (T('GError', 2), 'error', None)),
    ('foreign*', (T('XOther', 1), 'foreignptr', None)),
    ('foreign', (T('XOtherVal'), 'foreign', None)),
])
KIND_NAMES = list(KINDS)
SIG_KINDS = [k for k in KIND_NAMES if KINDS[k][2] is not None]
CALLABLE_KINDS = ['function', 'method', 'callback', 'signal', 'vfunc']
ANN_NAMES = ['transfer', 'in', 'out', 'inout', 'nullable', 'optional', 'allow-none', 'not', 'skip', 'array', 'element-type',
             'type', 'scope', 'closure', 'destroy', 'attributes']
DIRECTIONS = ('in', 'out', 'inout')
USER_TYPES = sorted(AR.TYPE_SPECS)
ELEM_TYPES = ['utf8', 'gint', 'guint8', 'gpointer', 'Foo.Rec', 'Foo.Obj', 'gdouble', 'filename', 'Foo.Missing']


def _by_cat(names):
    d = collections.OrderedDict()
    for k in names:
        d.setdefault(KINDS[k][1], []).append(k)
    return d


CAT_KINDS = _by_cat(KIND_NAMES)
SIG_CAT_KINDS = _by_cat(SIG_KINDS)
RET_CAT_KINDS = _by_cat([k for k in KIND_NAMES if k != 'GError**'])


# type kinds for which few annotations are decided get a double share so that every kind clears the health gate
HEAVY = ('error', 'foreign', 'foreignptr', 'basicpp')


STEPS = (1, 2, 3, 5, 7, 11)


@st.composite
def _kind(draw, table, seq):
    """Type kinds are walked cyclically from a per-case random offset with a per-case random stride, so that every kind
    gets the same share of values whatever clumping the example generator applies; the spelling within a kind is free."""
    cats = list(table) + [c for c in HEAVY if c in table]
    seq['i'] += 1
    cat = cats[(seq['o'] + seq['i'] * seq['step']) % len(cats)]
    return draw(st.sampled_from(table[cat]))


def cat_of(kind):
    return 'void' if kind == 'void' else KINDS[kind][1]


def ctype_of(kind):
    return VOID if kind == 'void' else KINDS[kind][0]


# ------------------------------------------------------------------ building the pipeline case
def fixed_decls():
    d = []
    d.append({'d': 'typedef', 'name': 'XOther', 'type': ty('_XOther', 'struct'), 'file': None})
    d.append({'d': 'typedef', 'name': 'XOtherVal', 'type': B('int'), 'file': None})
    d.append({'d': 'typedef', 'name': 'FooAliasInt', 'type': T('gint')})
    d.append({'d': 'enum', 'name': 'FooKind', 'tag': None, 'flags': False,
              'members': [{'name': 'FOO_KIND_A', 'value': None}, {'name': 'FOO_KIND_B', 'value': None}]})
    d.append({'d': 'enum', 'name': 'FooFlags', 'tag': None, 'flags': True,
              'members': [{'name': 'FOO_FLAGS_X', 'value': 1, 'shift': True}, {'name': 'FOO_FLAGS_Y', 'value': 2, 'shift': True}]})
    d.append({'d': 'compound', 'kind': 'struct', 'tag': '_FooRec', 'typedef': 'FooRec', 'fields': [{'name': 'v', 'type': B('int')}]})
    d.append({'d': 'compound', 'kind': 'struct', 'tag': '_FooBoxed', 'typedef': 'FooBoxed',
              'fields': [{'name': 'refs', 'type': B('int')}]})
    d.append({'d': 'compound', 'kind': 'union', 'tag': '_FooUnion', 'typedef': 'FooUnion',
              'fields': [{'name': 'i', 'type': B('int')}, {'name': 'd', 'type': B('double')}]})
    d.append({'d': 'callback', 'name': 'FooCallback', 'ret': VOID,
              'params': [param('v', B('int')), param('user_data', T('gpointer'))]})
    d.append({'d': 'function', 'name': 'foo_boxed_get_type', 'ret': T('GType'), 'params': []})
    d.append({'d': 'compound', 'kind': 'struct', 'tag': '_FooObj', 'typedef': 'FooObj', 'fields': None})
    d.append({'d': 'compound', 'kind': 'struct', 'tag': '_FooObjClass', 'typedef': 'FooObjClass', 'fields': None})
    d.append({'d': 'compound', 'kind': 'struct', 'tag': '_FooIface', 'typedef': 'FooIface', 'fields': None})
    d.append({'d': 'function', 'name': 'foo_obj_get_type', 'ret': T('GType'), 'params': []})
    d.append({'d': 'function', 'name': 'foo_iface_get_type', 'ret': T('GType'), 'params': []})
    return d


def ann_text(a):
    return '(' + ' '.join(a) + ')'


def c_ident(c):
    k, i = c['kind'], c['idx']
    if k == 'function':
        return 'foo_do_%d' % i
    if k == 'method':
        return ('foo_obj_act_%d' if c.get('on', 'obj') == 'obj' else 'foo_boxed_act_%d') % i
    if k == 'callback':
        return 'FooFunc%d' % i
    if k == 'signal':
        return 'FooObj::sig-%d' % i
    if c.get('sub') == 'invoker':
        return 'foo_obj_vm_%d' % i
    return 'FooObjClass::slot_%d' % i


def block_line(c):
    return 10 + BLOCK_STRIDE * c['idx']


def _block(c, drop):
    """drop = (value index or 'ret', annotation index) to leave out, or None."""
    lines = ['/**', ' * %s:' % c_ident(c)]
    if c['kind'] == 'signal':
        lines.append(' * @object: the emitter')
    elif c['kind'] in ('method', 'vfunc'):
        lines.append(' * @self: the instance')
    for j, p in enumerate(c['params']):
        anns = [a for k, a in enumerate(p['ann']) if drop != (j, k)]
        lines.append(' * @%s:%s a parameter' % (p['name'], (' ' + ' '.join(ann_text(a) for a in anns) + ':') if anns else ''))
    ranns = [a for k, a in enumerate(c['ret']['ann']) if drop != ('ret', k)]
    if c['ret']['kind'] != 'void' or ranns:
        lines.append(' *')
        lines.append(' * Returns:%s a value' % ((' ' + ' '.join(ann_text(a) for a in ranns) + ':') if ranns else ''))
    lines.append(' */')
    return '\n'.join(lines)


def build(case, drop=None):
    """-> pipeline case. drop = (callable position, value, annotation index)."""
    decls = fixed_decls()
    comments = []
    cls_fields = [{'name': 'parent_class', 'type': T('GObjectClass')}]
    sigs = []
    for ci, c in enumerate(case['callables']):
        params = [param(p['name'], ctype_of(p['kind'])) for p in c['params']]
        ret = ctype_of(c['ret']['kind'])
        k = c['kind']
        if k == 'function':
            decls.append({'d': 'function', 'name': c_ident(c), 'ret': ret, 'params': params})
        elif k == 'method':
            self_t = T('FooObj', 1) if c.get('on', 'obj') == 'obj' else T('FooBoxed', 1)
            decls.append({'d': 'function', 'name': c_ident(c), 'ret': ret, 'params': [param('self', self_t)] + params})
        elif k == 'callback':
            decls.append({'d': 'callback', 'name': c_ident(c), 'ret': ret, 'params': params})
        elif k == 'signal':
            sigs.append('<signal name="sig-%d" return="%s" when="last">%s</signal>'
                        % (c['idx'], 'void' if c['ret']['kind'] == 'void' else KINDS[c['ret']['kind']][2],
                           ''.join('<param type="%s"/>' % KINDS[p['kind']][2] for p in c['params'])))
        else:
            vparams = [param('self', T('FooObj', 1))] + params
            if c.get('sub') == 'invoker':
                decls.append({'d': 'function', 'name': c_ident(c), 'ret': ret, 'params': vparams})
                cls_fields.append({'name': 'vm_%d' % c['idx'], 'type': {'fp': {'ret': ret, 'params': vparams}}})
            else:
                cls_fields.append({'name': 'slot_%d' % c['idx'], 'type': {'fp': {'ret': ret, 'params': vparams}}})
        d = None
        if drop is not None and drop[0] == ci:
            d = (drop[1], drop[2])
        if any(p['ann'] for p in c['params']) or c['ret']['ann'] or True:
            comments.append([_block(c, d), CFILE, block_line(c)])
    decls.append({'d': 'compound', 'kind': 'struct', 'tag': '_FooObj', 'typedef': None,
                  'fields': [{'name': 'parent_instance', 'type': T('GObject')}]})
    decls.append({'d': 'compound', 'kind': 'struct', 'tag': '_FooObjClass', 'typedef': None, 'fields': cls_fields})
    dump = ('<?xml version="1.0"?>\n<dump>\n'
            '<class name="FooObj" get-type="foo_obj_get_type" parents="GObject">\n<implements name="FooIface"/>\n%s\n</class>\n'
            '<interface name="FooIface" get-type="foo_iface_get_type"><prerequisite name="GObject"/></interface>\n'
            '<boxed name="FooBoxed" get-type="foo_boxed_get_type"/>\n'
            '</dump>\n' % '\n'.join(sigs))
    return {'ns': NS, 'includes': ['Gio-2.0'], 'decls': decls, 'comments': comments, 'dump': dump}


class _InprocDumper(object):
    """Stands in for `subprocess` inside giscanner.gdumpparser: does in-process what the shell "introspection binary"
    of vlib.pipeline does (spawning /bin/sh costs 200-300 ms per run on this VM)."""
    CalledProcessError = subprocess.CalledProcessError

    @staticmethod
    def check_call(args, stdout=None, stderr=None):
        spec = args[-1]
        if not spec.startswith('--introspect-dump=') or args[0] != '/bin/sh':
            raise AssertionError('unexpected dump command %r' % (args,))
        inp, outp = spec[len('--introspect-dump='):].split(',', 1)
        shutil.copyfile(inp, args[-2] + '.functions')
        shutil.copyfile(args[-2], outp)
        return 0


def run_pipeline(case, ctx, drop=None):
    pipeline.M()
    sys.modules['giscanner.gdumpparser'].subprocess = _InprocDumper
    try:
        return pipeline.run(build(case, drop), ctx.mkscratch())
    except Exception as e:
        raise Violation(crash_clause(e), '%r%s\n%s' % (e, ' (baseline without annotation %r)' % (drop,) if drop else '',
                                                        describe(case)))


def describe(case):
    full = build(case)
    return ('--- header ---\n' + cmodel.to_header_text([d for d in full['decls'][len(fixed_decls()):]])[:1800]
            + '\n--- comments ---\n' + '\n'.join(c[0] for c in full['comments'])[:2500])


# ------------------------------------------------------------------ sites
def own_direction(anns):
    for a in anns:
        if a[0] in DIRECTIONS:
            return a[0]
    return None


def removed_index(c):
    """Index of the trailing GError** parameter the scanner turns into throws="1", or None."""
    if c['kind'] != 'signal' and c['params'] and c['params'][-1]['kind'] == 'GError**':
        return len(c['params']) - 1
    return None


def target_index(c, name):
    for j, p in enumerate(c['params']):
        if p['name'] == name:
            return j
    return None


def array_length_name(a):
    for o in a[1:]:
        if o.startswith('length='):
            return o[len('length='):]
    return None


def values_of(c):
    """[(value id, value dict)] : parameters by index, then 'ret'."""
    return [(j, p) for j, p in enumerate(c['params'])] + [('ret', c['ret'])]


def facts_for(c, vid, k, anns):
    a = anns[k]
    f = set()
    if len(anns) == 1:
        f.add('sole')
    n = a[0]
    if n in ('element-type', 'closure', 'destroy'):
        f.add('nargs:%d' % (len(a) - 1))
    if n == 'element-type':
        args = a[1:]
        if args and all(AR.TYPE_SPECS.get(x) is not None and not AR.TYPE_SPECS[x][1] for x in args):
            f.add('elem:resolvable')
        if args and all(x in AR.POINTER_ELEMENTS for x in args):
            f.add('elem:pointer')
        if args and all(x in AR.BYTE_ELEMENTS for x in args):
            f.add('elem:byte')
    if n == 'type' and len(a) == 2 and AR.TYPE_SPECS.get(a[1]) is not None:
        f.add('type:resolvable')
    if n == 'array':
        for b in anns:
            if b[0] == 'element-type':
                if len(b) == 2:
                    f.add('nb-elem:nargs1')
                if len(b) >= 2 and all(AR.TYPE_SPECS.get(x) is not None and not AR.TYPE_SPECS[x][1] for x in b[1:]):
                    f.add('nb-elem:resolvable')
    tname = None
    if n in ('closure', 'destroy') and len(a) == 2:
        tname = a[1]
    elif n == 'array':
        tname = array_length_name(a)
    if tname is not None:
        t = target_index(c, tname)
        if t is None:
            f.add('target:missing')
        else:
            f.add('target:' + cat_of(c['params'][t]['kind']))
    if vid != 'ret':
        later = c['params'][vid + 1:]
        if any(cat_of(p['kind']) == 'destroy' for p in later):
            f.add('later-destroy')
    return f


def classify(c, dirs):
    """-> {(vid, k): (verdict, expect, prov, row, site, facts)} for every annotation of callable c."""
    out = {}
    rem = removed_index(c)
    targets = set()
    for vid, v in values_of(c):
        for a in v['ann']:
            if a[0] == 'array' and array_length_name(a) is not None:
                targets.add(target_index(c, array_length_name(a)))
    destroy_targets = set()
    for vid, v in values_of(c):
        for a in v['ann']:
            if a[0] == 'destroy' and len(a) == 2:
                destroy_targets.add(target_index(c, a[1]))
    for vid, v in values_of(c):
        anns = v['ann']
        for k, a in enumerate(anns):
            site = {'pos': 'return' if vid == 'ret' else 'param', 'callable': c['kind'], 'cat': cat_of(v['kind']),
                    'dir': 'return' if vid == 'ret' else dirs[vid], 'nb': AR.neighbour_keys(anns, k)}
            facts = facts_for(c, vid, k, anns)
            if vid != 'ret' and vid in targets and (a[0] == 'transfer' or any(
                    b[0] == 'array' and array_length_name(b) == v['name'] for b in anns)):
                # a length parameter's ownership is not a documented notion; an array that is its own length is nonsense
                verdict, expect, prov, row = AR.UNDECIDED, [], '', -1
            elif a[0] == 'scope' and vid != 'ret' and vid in destroy_targets:
                # another parameter names this one as its destroy notifier; the scanner then marks it 'notified' on
                # purpose (maintransformer: "technically bogus ... handled in the final transformation pass"), so two
                # annotations compete for the attribute and the documentation does not say which wins
                verdict, expect, prov, row = AR.UNDECIDED, [], '', -1
            elif vid == rem:
                # the trailing GError** disappears from the parameter list: nothing is promised about its annotations,
                # except that a reference to a missing parameter stays fatal
                verdict, expect, prov, row = AR.UNDECIDED, [], '', -1
            else:
                verdict, expect, prov, row = AR.decide(site, a, facts)
            out[(vid, k)] = (verdict, expect, prov, row, site, facts)
    return out


def effective_dirs(c):
    """Effective direction per parameter index: own annotation, else in; a parameter named by a decided-applicable
    length= follows the array's direction (S); everything the documentation leaves open is 'unknown'."""
    n = len(c['params'])
    own = [own_direction(p['ann']) for p in c['params']]
    dirs = [o or 'in' for o in own]
    owners = collections.defaultdict(list)       # target index -> [(owner vid, decided-applicable?)]
    pre = classify(c, ['unknown'] * n)
    for vid, v in values_of(c):
        for k, a in enumerate(v['ann']):
            if a[0] != 'array':
                continue
            nm = array_length_name(a)
            t = target_index(c, nm) if nm is not None else None
            if t is None or t == vid:
                continue
            owners[t].append((vid, pre[(vid, k)][0] == AR.APPLICABLE))
    prop = [None] * n           # direction the documentation promises for a length parameter
    for t, lst in owners.items():
        ds = set()
        for vid, decided in lst:
            if vid == 'ret':
                # a (bogus) direction annotation on the return value is not a documented notion
                ds.add('unknown' if own_direction(c['ret']['ann']) else 'ret')
            elif vid in owners:
                ds.add('unknown')
            elif not decided and dirs[vid] != dirs[t]:
                ds.add('unknown')
            else:
                ds.add(dirs[vid])
        if 'unknown' in ds:
            dirs[t] = 'unknown'
        elif 'ret' in ds:
            dirs[t] = 'out' if own[t] == 'out' and ds <= set(['ret', 'out']) else 'unknown'
        elif len(ds) > 1:
            dirs[t] = 'unknown'
        else:
            d = next(iter(ds))
            if own[t] not in (None, d):
                dirs[t] = 'unknown'
            else:
                prop[t] = d
                # without an own direction annotation the other annotations of the length parameter are judged by the
                # scanner before or after the propagation depending on parameter order: not a documented notion
                dirs[t] = d if (own[t] == d or d == 'in') else 'unknown'
    return dirs, prop


# ------------------------------------------------------------------ reading the GIR
def find_elements(ns, c):
    """GIR elements describing callable c: [(label, element)] (method and its virtual method for invoker mode)."""
    k, i = c['kind'], c['idx']
    out = []
    if k == 'function':
        out = [('function', e) for e in ns.findall(GI + 'function') if e.get(C + 'identifier') == c_ident(c)]
    elif k == 'callback':
        out = [('callback', e) for e in ns.findall(GI + 'callback') if e.get('name') == 'Func%d' % i]
    else:
        holder = None
        if k == 'method' and c.get('on', 'obj') == 'boxed':
            for e in ns.findall(GI + 'record'):
                if e.get('name') == 'Boxed':
                    holder = e
        else:
            for e in ns.findall(GI + 'class'):
                if e.get('name') == 'Obj':
                    holder = e
        if holder is None:
            return []
        if k == 'method':
            out = [('method', e) for e in holder.findall(GI + 'method') if e.get(C + 'identifier') == c_ident(c)]
        elif k == 'signal':
            out = [('signal', e) for e in holder.findall(GLIB + 'signal') if e.get('name') == 'sig-%d' % i]
        elif c.get('sub') == 'invoker':
            out = [('method', e) for e in holder.findall(GI + 'method') if e.get(C + 'identifier') == c_ident(c)]
            for e in holder.findall(GI + 'virtual-method'):
                if e.get('name') == 'vm_%d' % i and e.get('invoker') == 'vm_%d' % i:
                    out.append(('vfunc', e))
        else:
            out = [('vfunc', e) for e in holder.findall(GI + 'virtual-method') if e.get('name') == 'slot_%d' % i]
    return out


def value_element(el, c, vid):
    if vid == 'ret':
        return el.find(GI + 'return-value')
    name = c['params'][vid]['name']
    for p in el.findall(GI + 'parameters/' + GI + 'parameter'):
        if p.get('name') == name:
            return p
    return None


def type_child(vel):
    for ch in vel:
        if ch.tag in (GI + 'type', GI + 'array', GI + 'varargs'):
            return ch
    return None


def type_sig(t):
    if t is None:
        return None
    return (t.tag.replace(GI, ''), tuple(sorted((k.replace(GI, '').replace(C, 'c:'), v) for k, v in t.attrib.items())),
            tuple(type_sig(ch) for ch in t if ch.tag in (GI + 'type', GI + 'array')))


def attribute_children(vel):
    return sorted((a.get('name'), a.get('value')) for a in vel.findall(GI + 'attribute'))


def governed(vel, name):
    if vel is None:
        return None
    out = []
    for g in AR.GOVERNS[name]:
        if g == '#type':
            out.append(type_sig(type_child(vel)))
        elif g == '#attributes':
            out.append(tuple(attribute_children(vel)))
        else:
            out.append(vel.get(g))
    return out


def eff_zero_terminated(arr):
    z = arr.get('zero-terminated')
    if z is not None:
        return z == '1'
    return arr.get('length') is None and arr.get('fixed-size') is None


def diag_key(d):
    return (d.level, d.text, tuple(d.where()))


# ------------------------------------------------------------------ clause 1
def check_expect(tok, a, vel, el, c, vid, dirs, where):
    def bad(clause, msg):
        raise Violation(clause, '%s: %s' % (where, msg))

    t = tok[0]
    if t == 'attr':
        want = a[1] if tok[2] == '$0' else tok[2]
        if vel.get(tok[1]) != want:
            bad('attr:%s:%s' % (a[0], tok[1]), 'expected %s="%s", got %r' % (tok[1], want, vel.get(tok[1])))
    elif t == 'attr-in':
        if vel.get(tok[1]) not in tok[2]:
            bad('attr:%s:%s' % (a[0], tok[1]), 'expected %s in %r, got %r' % (tok[1], tok[2], vel.get(tok[1])))
    elif t == 'noattr':
        if vel.get(tok[1]) is not None:
            bad('noattr:%s:%s' % (AR._key_of(a), tok[1]), 'expected no %s attribute, got %r' % (tok[1], vel.get(tok[1])))
    elif t == 'index':
        j = target_index(c, a[1])
        if vel.get(tok[1]) != str(j):
            bad('index:%s' % tok[1], 'expected %s="%d" (position of %s among <parameter>s), got %r' % (tok[1], j, a[1], vel.get(tok[1])))
    elif t == 'selfindex':
        if vel.get(tok[1]) != str(vid):
            bad('index:%s' % tok[1], 'expected %s="%d" (own position), got %r' % (tok[1], vid, vel.get(tok[1])))
    elif t == 'array':
        tc = type_child(vel)
        if tc is None or tc.tag != GI + 'array':
            bad('array:not-an-array', 'type child is %s' % (None if tc is None else tc.tag.replace(GI, '')))
    elif t == 'array-opts':
        arr = type_child(vel)
        if arr is None or arr.tag != GI + 'array':
            return
        if a[0] != 'array':
            return
        for o in a[1:]:
            key, _, val = o.partition('=')
            if key == 'length':
                j = target_index(c, val)
                if arr.get('length') != str(j):
                    bad('array:length', 'expected length="%d" (position of %s), got %r' % (j, val, arr.get('length')))
            elif key == 'fixed-size':
                if arr.get('fixed-size') != val:
                    bad('array:fixed-size', 'expected fixed-size="%s", got %r' % (val, arr.get('fixed-size')))
            elif key == 'zero-terminated':
                want = (val != '0')
                if eff_zero_terminated(arr) != want:
                    bad('array:zero-terminated', 'annotation %s, effective zero-termination %r (zero-terminated=%r length=%r fixed-size=%r)'
                        % (o, eff_zero_terminated(arr), arr.get('zero-terminated'), arr.get('length'), arr.get('fixed-size')))
    elif t == 'length-dir':
        if vid == 'ret' or a[0] != 'array':
            return
        nm = array_length_name(a)
        j = target_index(c, nm) if nm is not None else None
        dirs, prop = dirs
        if j is None or j == vid or prop[j] is None or dirs[vid] == 'unknown' or j == removed_index(c):
            return
        tel = value_element(el, c, j)
        if tel is None:
            bad('length-dir:parameter-missing', nm)
        got = tel.get('direction') or 'in'
        if got != dirs[vid]:
            bad('length-dir', 'length parameter %s has direction %s, the array %s' % (nm, got, dirs[vid]))
    elif t == 'elem':
        tc = type_child(vel)
        if tc is None:
            bad('elem:no-type', '')
        kids = [ch for ch in tc if ch.tag in (GI + 'type', GI + 'array')]
        args = a[1:] if a[0] == 'element-type' else []
        want = [AR.TYPE_SPECS[x][0] for x in args]
        got = [ch.get('name') for ch in kids]
        if got != want:
            bad('elem:names', 'expected element types %r, got %r' % (want, got))
    elif t == 'type':
        tc = type_child(vel)
        name, kids = AR.TYPE_SPECS[a[1]]
        if tc is None or tc.tag != GI + 'type' or tc.get('name') != name:
            bad('type:name', 'expected <type name="%s">, got %r' % (name, None if tc is None else (tc.tag.replace(GI, ''), tc.get('name'))))
        if kids:
            got = [ch.get('name') for ch in tc if ch.tag in (GI + 'type', GI + 'array')]
            if got != kids:
                bad('type:children', 'expected %r, got %r' % (kids, got))
    elif t == 'attributes':
        want = sorted((o.split('=', 1)[0], o.split('=', 1)[1]) for o in a[1:] if '=' in o and o.split('=', 1)[1] != '')
        got = attribute_children(vel)
        if got != want:
            bad('attributes', 'expected <attribute> children %r, got %r' % (want, got))
    else:
        raise AssertionError(tok)


# ------------------------------------------------------------------ known findings (exclusion by shape)
def known_key(c, vid, a, anns, clause, site=None):
    """Key of a recorded open finding that this failed expectation matches, or None."""
    n = AR._key_of(a)
    if clause == 'inapplicable:no-diagnostic:nullable' and site is not None and site['cat'] == 'enum':
        return 'nullable-accepted-on-enum-value'
    if clause == 'inapplicable:attribute-changed:closure' and c['kind'] == 'callback' and len(a) == 1:
        return 'closure-on-non-gpointer-warned-but-applied'
    if clause == 'attr:out:caller-allocates' and vid != 'ret' and any(
            b[0] == 'array' and array_length_name(b) == c['params'][vid]['name'] for _, w in values_of(c) for b in w['ann']):
        return 'out-option-ignored-on-length-parameter'
    keys = AR.neighbour_keys(anns, anns.index(a))
    if clause.startswith(('noattr:', 'attr:')):
        if 'not:optional' in keys or n == 'not:optional':
            return 'not-optional-acts-as-not-nullable'
    if clause == 'index:closure' and a[0] == 'closure' and vid != 'ret' and len(a) == 2:
        t = target_index(c, a[1])
        if any(j > vid and j != t and cat_of(q['kind']) == 'untyped' and q['name'].endswith('data') for j, q in enumerate(c['params'])):
            return 'closure-annotation-overridden-by-user-data-heuristic'
    if clause == 'index:destroy' and a[0] == 'destroy' and vid != 'ret' and len(a) == 2:
        t = target_index(c, a[1])
        if any(j > vid and j != t and cat_of(q['kind']) == 'destroy' for j, q in enumerate(c['params'])):
            return 'destroy-annotation-overridden-by-destroy-notify-heuristic'
    if clause == 'attr:scope:scope' and vid != 'ret' and cat_of(c['params'][vid]['kind']) == 'asyncready':
        return 'scope-annotation-overridden-on-async-ready-callback'
    return None


# ------------------------------------------------------------------ the oracle
def cell_key(a, site):
    return '%s|%s|%s' % (AR.form_of(a), site['cat'], site['dir'])


SIG_FUNDAMENTAL = frozenset(['int', 'guint', 'gboolean', 'double', 'GType', 'str', 'gpointer'])


def crash_shapes(c, vid, v, a):
    """Keys of recorded crash findings that annotation a on value v is an instance of."""
    if c['kind'] == 'signal':
        if vid == 'ret' and a[0] == 'array' and array_length_name(a) is not None and target_index(c, array_length_name(a)) is not None:
            yield 'crash:signal-return-array-length'
        if a[0] == 'type' and len(a) == 2 and AR.TYPE_SPECS.get(a[1]) is None and v['kind'] not in SIG_FUNDAMENTAL \
                and v['kind'] != 'void':
            yield 'crash:unresolvable-type-on-signal-value'
        if a[0] == 'type' and len(a) == 2 and a[1] in ('gint', 'guint8', 'gboolean', 'gdouble') \
                and v['kind'] not in SIG_FUNDAMENTAL and v['kind'] != 'void' \
                and any(b[0] in ('nullable', 'allow-none') or (b[0] == 'transfer' and b[1:] in (['none'], ['full'])) for b in v['ann']):
            yield 'crash:basic-type-override-on-signal-value'


def without_known_crashes(case, ctx):
    """Exclusion by construction: drop exactly the annotations that are instances of an open crash finding."""
    out = None
    for ci, c in enumerate(case['callables']):
        for vid, v in values_of(c):
            for k in range(len(v['ann']) - 1, -1, -1):
                for key in crash_shapes(c, vid, v, v['ann'][k]):
                    if ctx.known(key):
                        if out is None:
                            out = copy.deepcopy(case)
                        oc = out['callables'][ci]
                        del (oc['ret'] if vid == 'ret' else oc['params'][vid])['ann'][k]
                        break
    return case if out is None else out


def check_case(case, ctx):
    case = without_known_crashes(case, ctx)
    cs = case['callables']
    # domain guard (replayed / shrunk cases): no reference to the instance parameter or to the removed GError**
    for c in cs:
        rem = removed_index(c)
        names = [p['name'] for p in c['params']]
        if len(set(names)) != len(names):
            raise Discard()
        for vid, v in values_of(c):
            seen = set()
            for a in v['ann']:
                if a[0] in seen:
                    raise Discard()
                seen.add(a[0])
                tn = a[1] if (a[0] in ('closure', 'destroy') and len(a) == 2) else (array_length_name(a) if a[0] == 'array' else None)
                if tn is not None and (tn in ('self', 'object') or (rem is not None and tn == c['params'][rem]['name'])):
                    raise Discard()
    res = run_pipeline(case, ctx)
    plans = []
    expect_fatal = []
    maybe_fatal = False
    for ci, c in enumerate(cs):
        dirs, prop = effective_dirs(c)
        cl = classify(c, dirs)
        plans.append((ci, c, (dirs, prop), cl))
        for (vid, k), (verdict, expect, prov, row, site, facts) in cl.items():
            if verdict == AR.FATAL:
                a = (vid == 'ret' and c['ret'] or c['params'][vid])['ann'][k]
                expect_fatal.append((c, vid, a))
            elif 'target:missing' in facts:
                maybe_fatal = True
    if res.fatal is not None:
        if 'Traceback' in res.fatal:
            raise Violation('fatal-with-traceback', res.fatal[:400])
        if expect_fatal:
            fat = [d for d in res.diags if d.level == 2]
            if not fat or not any(MISSING in d.text for d in fat):
                raise Violation('fatal:offender-not-named', 'fatal diagnostics %r do not name %s' % ([d.text for d in fat], MISSING))
            ctx.label('deliberate-fatal')
            return
        if maybe_fatal:
            ctx.label('undecided-fatal')
            return
        raise Violation('fatal-on-valid-input', '%s | %s\n%s' % (res.fatal[:300], [d.text[:200] for d in res.diags if d.level == 2][:2],
                                                                   describe(case)))
    if expect_fatal:
        c, vid, a = expect_fatal[0]
        raise Violation('fatal:missing', '%s on %s of %s names a parameter that does not exist, but the scanner went on\n%s'
                        % (ann_text(a), vid, c_ident(c), describe(case)))
    try:
        root = ET.fromstring(res.gir)
    except ET.ParseError as e:
        raise Violation('gir-not-well-formed', str(e))
    ns = root.find(GI + 'namespace')
    base_keys = collections.Counter(diag_key(d) for d in res.diags)
    n1 = n2 = 0
    hist = ctx.extra.setdefault('asserted_cells', {})
    und = ctx.extra.setdefault('undecided_cells', {})
    for ci, c, dirs, cl in plans:
        els = find_elements(ns, c)
        if not els:
            raise Violation('callable-missing', '%s not found in the GIR\n%s' % (c_ident(c), describe(case)))
        rem = removed_index(c)
        if rem is not None and els[0][1].get('throws') != '1' and c['kind'] != 'callback':
            pass
        for (vid, k), (verdict, expect, prov, row, site, facts) in sorted(cl.items(), key=lambda x: (str(x[0][0]), x[0][1])):
            v = c['ret'] if vid == 'ret' else c['params'][vid]
            a = v['ann'][k]
            where = '%s %s %s [%s, %s, dir %s] annotations %s' % (c_ident(c), 'return value' if vid == 'ret' else 'parameter ' + v['name'],
                                                                   ann_text(a), v['kind'], c['kind'], site['dir'],
                                                                   ' '.join(ann_text(x) for x in v['ann']))
            ctx.label('verdict:' + verdict)
            if verdict == AR.UNDECIDED:
                und[cell_key(a, site)] = und.get(cell_key(a, site), 0) + 1
                continue
            if verdict == AR.APPLICABLE:
                for label, el in els:
                    vel = value_element(el, c, vid)
                    if vel is None:
                        raise Violation('value-missing', '%s: no element in <%s>' % (where, label))
                    for tok in expect:
                        try:
                            check_expect(tok, a, vel, el, c, vid, dirs, where + ' in <%s>' % label)
                        except Violation as e:
                            key = known_key(c, vid, a, v['ann'], e.clause)
                            if key is not None and ctx.known(key):
                                continue
                            e.detail = '%s\n  table row %d: %s\n%s' % (e.detail, row, prov, describe(case))
                            raise Violation(e.clause, e.detail)
                n1 += 1
            elif verdict == AR.INAPPLICABLE:
                bres = run_pipeline(case, ctx, drop=(ci, vid, k))
                if bres.fatal is not None:
                    raise Violation('baseline-fatal', '%s: %s' % (where, bres.fatal[:300]))
                bns = ET.fromstring(bres.gir).find(GI + 'namespace')
                bkeys = collections.Counter(diag_key(d) for d in bres.diags)
                lo, hi = block_line(c), block_line(c) + BLOCK_STRIDE - 1
                new = [key for key in (base_keys - bkeys) if any(f == CFILE and lo <= l <= hi for f, l in key[2])]
                if not new:
                    key = known_key(c, vid, a, v['ann'], 'inapplicable:no-diagnostic:%s' % AR._key_of(a).split(':')[0], site)
                    if key is not None and ctx.known(key):
                        continue
                    raise Violation('inapplicable:no-diagnostic:%s' % AR._key_of(a).split(':')[0],
                                    '%s: inapplicable here (table row %d: %s) but the scanner reports nothing new in the block '
                                    '(diagnostics with the annotation: %r)\n%s'
                                    % (where, row, prov, [d.text for d in res.diags][:6], describe(case)))
                bels = dict(find_elements(bns, c))
                for label, el in els:
                    if label not in bels:
                        continue
                    g1 = governed(value_element(el, c, vid), a[0])
                    g0 = governed(value_element(bels[label], c, vid), a[0])
                    if g1 != g0:
                        key = known_key(c, vid, a, v['ann'], 'inapplicable:attribute-changed:%s' % a[0], site)
                        if key is not None and ctx.known(key):
                            continue
                        raise Violation('inapplicable:attribute-changed:%s' % a[0],
                                        '%s: inapplicable here (table row %d: %s) and warned about, yet %r changed from %r to %r in <%s>\n%s'
                                        % (where, row, prov, AR.GOVERNS[a[0]], g0, g1, label, describe(case)))
                n2 += 1
            hist[cell_key(a, site)] = hist.get(cell_key(a, site), 0) + 1
            ctx.label('ann:' + a[0], 'cat:' + site['cat'], 'callable:' + c['kind'], 'pair')
            ctx.label('clause1' if verdict == AR.APPLICABLE else 'clause2')
    if n1 and n2:
        ctx.note_nontrivial(case)
        ctx.sample({'comments': [cm[0] for cm in build(case)['comments']][:2], 'clause1': n1, 'clause2': n2}, 3)


# ------------------------------------------------------------------ generator
@st.composite
def _candidate(draw, names, is_ret):
    n = draw(st.sampled_from(['transfer', 'transfer', 'nullable', 'optional', 'allow-none', 'not', 'skip', 'array', 'array',
                              'element-type', 'type', 'scope', 'closure', 'destroy', 'attributes', 'dir']))
    other = st.sampled_from(names) if names else None
    if other is None and n in ('closure', 'destroy'):
        return ['closure']
    if n == 'transfer':
        return ['transfer', draw(st.sampled_from(['none', 'full', 'container', 'floating']))]
    if n == 'dir':
        return draw(st.sampled_from([['in'], ['out'], ['out'], ['inout'], ['out', 'caller-allocates'], ['out', 'callee-allocates']]))
    if n == 'not':
        return ['not', draw(st.sampled_from(['nullable', 'optional']))]
    if n == 'array':
        opts = []
        if other is not None and draw(st.booleans()):
            opts.append('length=%s' % draw(other))
        if draw(st.integers(0, 2)) == 2:
            opts.append('fixed-size=%d' % draw(st.integers(0, 8)))
        if draw(st.integers(0, 2)) == 1:
            opts.append(draw(st.sampled_from(['zero-terminated', 'zero-terminated=1', 'zero-terminated=0'])))
        return ['array'] + opts
    if n == 'element-type':
        return ['element-type'] + [draw(st.sampled_from(ELEM_TYPES)) for _ in range(draw(st.sampled_from([1, 1, 1, 2])))]
    if n == 'type':
        return ['type', draw(st.sampled_from(USER_TYPES))]
    if n == 'scope':
        return ['scope', draw(st.sampled_from(['call', 'async', 'notified', 'forever']))]
    if n == 'closure':
        return draw(st.sampled_from([['closure'], ['closure', draw(other)], ['closure', draw(other)]]))
    if n == 'destroy':
        return ['destroy', draw(other)]
    if n == 'attributes':
        return ['attributes'] + draw(st.sampled_from([['k=v'], ['foo.key=v', 'foo.key2=v2'], ['k=v', 'empty'], ['bare']]))
    return [n]


@st.composite
def _annotations(draw, c, vid):
    """Annotation list for value vid of callable c (parameters and kinds are already drawn)."""
    is_ret = vid == 'ret'
    rem = removed_index(c)
    names = [p['name'] for j, p in enumerate(c['params']) if j != rem]
    v = c['ret'] if is_ret else c['params'][vid]
    anns = []
    if not is_ret and draw(st.integers(0, 9)) > 5:
        anns.append(draw(st.sampled_from([['in'], ['out'], ['out'], ['out'], ['inout'], ['inout'], ['out', 'caller-allocates'],
                                          ['out', 'callee-allocates']])))
    n = draw(st.sampled_from([0, 1, 1, 2, 2, 3]))
    for _ in range(n):
        want = draw(st.sampled_from([AR.APPLICABLE, AR.INAPPLICABLE, AR.INAPPLICABLE, None]))
        pick = None
        for _try in range(6 if want == AR.INAPPLICABLE else 4):
            cand = draw(_candidate(names, is_ret))
            if any(b[0] == cand[0] for b in anns) or (cand[0] in DIRECTIONS and own_direction(anns)):
                continue
            pick = cand
            if want is None:
                break
            trial = anns + [cand]
            site = {'pos': 'return' if is_ret else 'param', 'callable': c['kind'], 'cat': cat_of(v['kind']),
                    'dir': 'return' if is_ret else (own_direction(trial) or 'in'), 'nb': AR.neighbour_keys(trial, len(trial) - 1)}
            v['ann'] = trial
            verdict = AR.decide(site, cand, facts_for(c, vid, len(trial) - 1, trial))[0]
            if verdict == want:
                break
        if pick is not None:
            anns.append(pick)
    v['ann'] = anns
    return anns


@st.composite
def _callable(draw, idx, seq):
    kind = draw(st.sampled_from(CALLABLE_KINDS))
    c = {'kind': kind, 'idx': idx}
    if kind == 'method':
        c['on'] = draw(st.sampled_from(['obj', 'obj', 'boxed']))
    if kind == 'vfunc':
        c['sub'] = draw(st.sampled_from(['own', 'own', 'invoker']))
    pool = SIG_CAT_KINDS if kind == 'signal' else CAT_KINDS
    n = draw(st.integers(0, 5))
    kinds = [draw(_kind(pool, seq)) for _ in range(n)]
    if kind != 'signal' and draw(st.integers(0, 3)) == 2:
        i = draw(st.integers(0, len(kinds)))
        kinds[i:i] = draw(st.sampled_from([['cb', 'gpointer'], ['cb', 'gpointer', 'GDestroyNotify'], ['gpointer', 'cb', 'GDestroyNotify'],
                                           ['GDestroyNotify', 'cb', 'gpointer'],
                                           ['GAsyncReadyCallback', 'gpointer'], ['int*', 'gsize'], ['strv', 'int'], ['rec**', 'gsize*'],
                                           ['cb', 'gpointer', 'gpointer']]))
        kinds = kinds[:6]
    if kind != 'signal' and draw(st.integers(0, 7)) == 5:
        kinds.append('GError**')
    params = []
    for j, k in enumerate(kinds):
        nm = 'p%d' % j
        if k == 'gpointer' and draw(st.integers(0, 2)) == 1:
            nm = draw(st.sampled_from(['user_data', 'my_data%d' % j, 'data%d' % j]))
            if nm in [p['name'] for p in params]:
                nm = 'p%d' % j
        if k == 'GError**' and j == len(kinds) - 1:
            nm = 'error'
        params.append({'name': nm, 'kind': k, 'ann': []})
    c['params'] = params
    rkind = 'void' if draw(st.integers(0, 5)) == 3 else draw(_kind(SIG_CAT_KINDS if kind == 'signal' else RET_CAT_KINDS, seq))
    c['ret'] = {'kind': rkind, 'ann': []}
    # interaction of an annotation with the callback/user_data heuristics: the closure target of a callback
    # explicitly annotated (not nullable) / (nullable) / (skip) (drawn on purpose, it is rare otherwise)
    forced = {}
    for j in range(1, len(params)):
        if params[j]['kind'] == 'gpointer' and params[j - 1]['kind'] in ('cb', 'GAsyncReadyCallback') \
                and draw(st.integers(0, 3)) == 0:
            if 'user_data' not in [p['name'] for p in params]:
                params[j]['name'] = 'user_data'
            forced[j] = [draw(st.sampled_from([['not', 'nullable'], ['not', 'nullable'], ['nullable'], ['skip']]))]
    # references to the FIRST parameter (index 0 is where a truthiness test on the index goes wrong): a callback whose
    # user data or destroy notify comes first, named explicitly
    if kind != 'signal' and len(params) >= 2 and params[0]['kind'] in ('gpointer', 'GDestroyNotify') and draw(st.booleans()):
        for j in range(1, len(params)):
            if params[j]['kind'] == 'cb' and j not in forced:
                forced[j] = [['closure' if params[0]['kind'] == 'gpointer' else 'destroy', params[0]['name']]]
                break
    for j in range(len(params)):
        draw(_annotations(c, j))
    draw(_annotations(c, 'ret'))
    for j, a in forced.items():
        params[j]['ann'] = a
    # deliberate fatal shape, rarely
    if draw(st.integers(0, 39)) == 23 and params:
        j = draw(st.integers(0, len(params) - 1))
        bad = draw(st.sampled_from([['array', 'length=' + MISSING], ['closure', MISSING], ['destroy', MISSING]]))
        if not any(a[0] == bad[0] for a in params[j]['ann']):
            params[j]['ann'].append(bad)
    return c


@st.composite
def api(draw):
    n = draw(st.integers(1, 6))
    seq = {'o': draw(st.integers(0, 1000)), 'step': draw(st.sampled_from(STEPS)), 'i': 0}
    return {'callables': [draw(_callable(i, seq)) for i in range(n)]}


# ------------------------------------------------------------------ exhaustive single-annotation product (thorough)
FORMS = [
    ['transfer', 'none'], ['transfer', 'full'], ['transfer', 'container'], ['transfer', 'floating'],
    ['in'], ['out'], ['inout'], ['out', 'caller-allocates'], ['out', 'callee-allocates'],
    ['nullable'], ['optional'], ['allow-none'], ['not', 'nullable'], ['not', 'optional'], ['skip'],
    ['array'], ['array', 'length=n'], ['array', 'fixed-size=3'], ['array', 'zero-terminated'], ['array', 'zero-terminated=0'],
    ['array', 'zero-terminated=1'], ['array', 'length=n', 'zero-terminated=1'], ['array', 'length=n', 'fixed-size=2'],
    ['element-type', 'utf8'], ['element-type', 'guint8'], ['element-type', 'utf8', 'gint'], ['type', 'utf8'], ['type', 'Foo.Rec'],
    ['scope', 'call'], ['scope', 'async'], ['scope', 'notified'], ['scope', 'forever'],
    ['closure'], ['closure', 'data'], ['destroy', 'notify'], ['attributes', 'k=v'], ['attributes', 'k=v', 'empty'],
]


def exhaustive_cases():
    out = []
    for form in FORMS:
        helpers = []
        if any(o.startswith('length=') for o in form[1:]):
            helpers.append({'name': 'n', 'kind': 'guint', 'ann': []})
        if form[0] == 'closure' and len(form) == 2:
            helpers.append({'name': 'data', 'kind': 'gpointer', 'ann': []})
        if form[0] == 'destroy':
            helpers.append({'name': 'notify', 'kind': 'GDestroyNotify', 'ann': []})
        ckinds = ['function', 'method'] if helpers else ['function']
        if form[0] == 'closure' and len(form) == 1:
            ckinds = ['function', 'callback']
        for kind in KIND_NAMES:
            for ck in ckinds:
                base = {'kind': ck, 'idx': 0}
                if ck == 'method':
                    base['on'] = 'obj'
                dirs = [None] if form[0] in DIRECTIONS else [None, ['out'], ['inout']]
                for d in dirs:
                    c = dict(base)
                    c['params'] = [{'name': 'p0', 'kind': kind, 'ann': ([d] if d else []) + [form]}] + [dict(h) for h in helpers]
                    c['ret'] = {'kind': 'void', 'ann': []}
                    out.append({'callables': [c]})
                if kind != 'GError**':
                    c = dict(base)
                    c['params'] = [dict(h) for h in helpers]
                    c['ret'] = {'kind': kind, 'ann': [form]}
                    out.append({'callables': [c]})
    return out


# ------------------------------------------------------------------ runner interface
def plan(tier):
    if tier == 'quick':
        return [{'n': 60, 'part': i} for i in range(16)]
    return [{'n': 3000, 'part': i, 'exhaustive': True} for i in range(16)]


def run_shard(ctx, spec):
    if spec['part'] == 0:
        ctx.extra['table_rows'] = len(AR.ROWS)
        ctx.extra['table_provenance'] = dict(('rows citing ' + k, v) for k, v in AR.provenance_summary().items())
        ctx.extra['table_verdicts'] = dict(collections.Counter(r['verdict'] for r in AR.ROWS))
    if spec.get('exhaustive'):
        cases = exhaustive_cases()
        mine = cases[spec['part']::16]
        for cse in mine:
            ctx.run_case(cse, reraise=False)
        ctx.extra['exhaustive'] = True
        ctx.extra['exhaustive_cases'] = len(mine)
        if spec['part'] == 0:
            ctx.extra['exhaustive_part'] = ('single-annotation product: %d annotation forms x %d type spellings x {in,out,inout} '
                                            'parameter + return = %d cases; multi-annotation APIs are sampled'
                                            % (len(FORMS), len(KIND_NAMES), len(cases)))
    ctx.hyp(api(), spec['n'])


def health(agg, tier):
    probs = []
    lab = agg['labels']
    pairs = lab.get('pair', 0)
    if pairs < 500:
        probs.append('only %d asserted (annotation, value) pairs' % pairs)
        return probs
    floor = 0.01 * pairs
    for n in ANN_NAMES:
        if lab.get('ann:' + n, 0) < floor:
            probs.append('annotation %s in only %d of %d asserted pairs' % (n, lab.get('ann:' + n, 0), pairs))
    for cat in AR.CATS:
        if cat == 'void':
            continue        # absence of a value, not a type kind; reported in the labels only
        if lab.get('cat:' + cat, 0) < floor:
            probs.append('type kind %s in only %d of %d asserted pairs' % (cat, lab.get('cat:' + cat, 0), pairs))
    for k in CALLABLE_KINDS:
        if lab.get('callable:' + k, 0) < floor:
            probs.append('callable kind %s in only %d of %d asserted pairs' % (k, lab.get('callable:' + k, 0), pairs))
    c1, c2 = lab.get('clause1', 0), lab.get('clause2', 0)
    if c2 < 0.15 * pairs or c1 < 0.15 * pairs:
        probs.append('clause balance: %d applicable vs %d inapplicable asserted pairs' % (c1, c2))
    if agg['discards'] > 0.05 * max(1, agg['evals']):
        probs.append('discard rate %d/%d' % (agg['discards'], agg['evals']))
    return probs
