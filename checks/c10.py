"""C10 - well-formed GTK-Doc comment blocks are parsed exactly.

Three families of cases, all evaluated by check_case:

  gen        a block MODEL (identifier form, annotations with options,
             parameters, multi-paragraph description, tags) and two independent
             LAYOUTS are decoded from Hypothesis-drawn bytes; the model is
             rendered under each layout, parsed, and the parse tree compared
             field by field with the model; the parsed block is written with
             GtkDocCommentBlockWriter and parsed again.
  fixture    one upstream <input>/<parser>/<output> triple replayed exactly
             the way tests/scanner/annotationparser/test_parser.py does.
  fixlayout  a diagnostic-free upstream fixture input re-laid-out at text level
             (indentation before '*', line endings, trailing whitespace) must
             parse to the same tree; its writer round trip must be stable.
"""
import re
import sys

from vlib.runner import Violation, Discard, REPO
from vlib import blockmodel as bm

ID = 'C10'
LEVEL = 'exploration'
RULE = ('block models (6 identifier forms; identifier/parameter/Returns annotations drawn from the documented '
        'vocabulary with list, key=value and valueless options, plus - in "broad" mode - known names in '
        'undocumented places/arities and unknown names; 0-6 parameters incl. "..."; 0-12 description lines in '
        'paragraphs with indentation; Returns/Since/Deprecated/Stability with value and description) decoded from '
        '640 Hypothesis-drawn bytes together with two independent layouts (indentation before "*", LF/CRLF/CR/mixed, '
        'optional colons, annotation fields continued over following lines, description starting on the next line, '
        'trailing whitespace, "*/" variants, blank lines before/between tags); plus all upstream fixture triples '
        'and text-level re-layouts of the diagnostic-free ones; non-trivial = a generated model with a continued '
        'annotation field or a multi-paragraph description AND >= 2 annotations carrying options; distinct = hash '
        'of the case')
RULE = RULE + ' ' + 'Description words include FF, VT, FS/GS/RS, NEL and U+2028/2029, which are not line ends; the thorough tier adds a coverage-guided stage (atheris over the same strategy).'
ASSUMPTIONS = [
    'generator preconditions are the statement\'s: tokens inside one annotation separated by single spaces, '
    'descriptions do not begin with a parenthesis or colon; plus model unambiguity: a description line does not '
    'look like a parameter ("@x") or tag ("Returns:", "Since:" ...) line, a value-less Since/Deprecated/Stability '
    'description does not start with something that reads as a value, symbol names do not start with "SECTION", '
    'no "<" ">" inside annotations (deprecated type syntax), no "*/" or "/*" in text',
    'descriptions are compared modulo the whitespace normalisation vlib.blockmodel.norm_desc (trailing whitespace, '
    'surrounding blank lines, indentation of the first text line); everything else exactly',
    'the annotation vocabulary and the "applies to"/option tables are transcribed from '
    'docs/website/annotations/giannotations.rst, not read from the code under test',
    'copy-func/free-func only ever get their single documented option (they are missing from GI_ANNS; see report)',
]
TECHNIQUE = ('property-based testing (Hypothesis): model-based round trip parse(render(model, layout)) == model, '
             'layout-independence metamorphic relation, writer round trip, replay of the upstream fixture triples')
LEVEL_TEXT = ('Randomised search over block models x layouts with the model as oracle; the 380 upstream fixture '
              'triples are replayed exhaustively in every run. No exhaustive core for the generated part: the '
              'input space is unbounded.')
LEVEL_NOTE = 'descriptions compared modulo documented whitespace normalisation; generator bounded by the statement\'s preconditions'
DESIGN_REF = 'DESIGN.md section 2, C10'

sys.path.insert(0, REPO)
AP = bm.AP


# ------------------------------------------------------------------ strategies
def _decode(b, mode):
    d = bm.DNA(b)
    m = bm.gen_model(d, mode)
    return {'k': 'gen', 'model': m, 'layouts': [bm.gen_layout(d), bm.gen_layout(d)], 'windent': d.chance(4)}


def strategy(mode):
    return bm.dna.map(lambda b: _decode(b, mode))


def fixlayout_strategy():
    nfix = len(bm.load_fixtures())

    def dec(b):
        d = bm.DNA(b)
        i = (d.u8() * 256 + d.u8()) % nfix
        fx = bm.load_fixtures()[i]
        return {'k': 'fixlayout', 'ref': [fx['file'], fx['idx']], 'lay': bm.gen_layout(d)}
    from hypothesis import strategies as st
    return st.binary(min_size=40, max_size=40).map(dec)


# ------------------------------------------------------------------ helpers
def _parse(text):
    logger = bm.fresh_logger(enable=True)
    block = AP.GtkDocCommentBlockParser().parse_comment_block(text, 'c10.c', 7)
    return block, logger.records


def _written(block, indent):
    """The comment as the C scanner would hand it back to the parser: the
    writer terminates the block with a newline, which is not part of the
    comment token."""
    w = AP.GtkDocCommentBlockWriter(indent=indent).write(block)
    return w[:-1] if w.endswith('\n') else w


def _fmt(records):
    return [(r['type'], r['text'], r['pos']) for r in records]


def _fixture(ref):
    for fx in bm.load_fixtures():
        if fx['file'] == ref[0] and fx['idx'] == ref[1]:
            return fx
    raise Discard()


_STAR = re.compile(r'^(\s*)(\*.*)$')


def relayout(text, lay):
    """Text-level layout change of an existing block: indentation in front of
    the asterisks, line-ending convention, trailing whitespace on non-empty
    comment lines. Only lines that already start with an asterisk are touched."""
    K, nxt = lay['k'], bm._Stream(lay['r'])
    lines = re.split(r'\r\n|\r|\n', text)
    out = []
    for i, l in enumerate(lines):
        m = _STAR.match(l)
        if m and 0 < i:
            pre = bm._PRE[K[0]] if K[1] < 6 else bm._PRE[nxt() % 8]
            l = pre + m.group(2)
        if K[4] >= 5 and l.strip() not in ('', '*') and i < len(lines) - 1 and i > 0:
            l = l + bm._TRAIL[nxt() % 8]
        out.append(l)
    nl = bm._NL[K[2]]
    if nl == 'mix':
        res = ''
        for l in out[:-1]:
            res += l + ['\n', '\r\n', '\r'][nxt() % 3]
        return res + out[-1]
    return nl.join(out)


# ------------------------------------------------------------------ oracle
def check_case(case, ctx):
    k = case['k']
    if k == 'fixture':
        r = bm.run_fixture(_fixture(case['ref']))
        ctx.label('fixture')
        if r:
            raise Violation(r[0], r[1])
        return
    if k == 'fixlayout':
        return _check_fixlayout(case, ctx)
    names = [p['name'] for p in case['model']['params']]
    if len(set(names)) != len(names):
        raise Discard()     # domain guard for replayed/shrunk cases: one @name line per parameter
    return _check_gen(case, ctx)


def _check_fixlayout(case, ctx):
    fx = _fixture(case['ref'])
    if fx['messages']:
        ctx.label('fixlayout-skipped-has-messages')
        return
    b0, d0 = _parse(fx['input'])
    if b0 is None or d0:
        ctx.label('fixlayout-skipped-has-messages')
        return
    t0 = bm.tree_of(b0)
    x = relayout(fx['input'], case['lay'])
    b1, d1 = _parse(x)
    if d1:
        raise Violation('relayout-diagnostics', '%s#%d re-laid-out as %r: %r' % (fx['file'], fx['idx'], x, _fmt(d1)))
    diff = bm.tree_diff(bm.norm_tree(t0), bm.norm_tree(bm.tree_of(b1)))
    if diff:
        raise Violation('relayout-differs', '%s#%d re-laid-out as %r: %s' % (fx['file'], fx['idx'], x, diff))
    ctx.label('fixlayout')
    for n, a, v, d in bm.tree_of(b1)['tags']:
        # same unambiguity precondition as the generator: a value-less tag whose description
        # (continued on the next line) reads as a value is re-read as a value once written on one line
        if v is None and d and ((n in ('since', 'deprecated') and bm._VERSIONLIKE.match(d.lstrip()))
                                or (n == 'stability' and bm._STABLIKE.match(d.lstrip()))):
            ctx.label('fixlayout-roundtrip-skipped-ambiguous-value')
            return
    w = _written(b1, True)
    b2, _ = _parse(w)
    diff = bm.tree_diff(bm.tree_of(b1), bm.tree_of(b2))
    if diff:
        raise Violation('writer-roundtrip', 'fixture %s#%d written as %r: %s' % (fx['file'], fx['idx'], w, diff))


def _count_opts(m):
    n = 0
    for part in [m] + m['params'] + m['tags']:
        for a in part['anns']:
            if a[1]:
                n += 1
    return n


def _paragraphs(m):
    return any(None in p['desc'] for p in [m] + m['tags'])


def _check_gen(case, ctx):
    m = case['model']
    mode = m['mode']
    exp = bm.expected_tree(m)
    trees, blocks, infos, texts = [], [], [], []
    for lay in case['layouts']:
        text, info = bm.render(m, lay)
        try:
            block, diags = _parse(text)
        except Exception as e:
            raise Violation('exception:%s' % type(e).__name__, '%r while parsing %r' % (e, text))
        if block is None:
            raise Violation('not-recognised', 'well-formed block not recognised: %r diagnostics %r' % (text, _fmt(diags)))
        got = bm.norm_tree(bm.tree_of(block))
        diff = bm.tree_diff(exp, got)
        if diff:
            raise Violation('parse-differs:' + diff.split(':')[0].split(' ')[0],
                            'model vs parse: %s\ninput: %r' % (diff, text))
        if mode == 'wf' and diags:
            raise Violation('diagnostic-on-wellformed', '%r for %r' % (_fmt(diags), text))
        errs = [r for r in diags if r['type'] != bm.MSG.WARNING]
        if errs:
            raise Violation('error-on-wellformed', '%r for %r' % (_fmt(errs), text))
        if diags:
            ctx.label('warnings-produced')
        trees.append(got)
        blocks.append(block)
        infos.append(info)
        texts.append(text)
    if trees[0] != trees[1]:
        raise Violation('layout-dependence', '%s\nA: %r\nB: %r' % (bm.tree_diff(trees[0], trees[1]), texts[0], texts[1]))

    # writer round trip
    form = m['id']['form']
    # (finding C10-F1, the writer emitting "ACTION:Class:action.name", was repaired in /repo
    # commit feedac5; action identifiers are round-tripped like every other form)
    if True:
        for i, block in enumerate(blocks):
            w = _written(block, bool(case.get('windent')))
            try:
                b2, d2 = _parse(w)
            except Exception as e:
                raise Violation('exception:%s' % type(e).__name__, '%r while parsing writer output %r' % (e, w))
            diff = bm.tree_diff(bm.tree_of(block), bm.tree_of(b2))
            if diff:
                raise Violation('writer-roundtrip', '%s\ninput: %r\nwritten: %r' % (diff, texts[i], w))

    # bookkeeping
    ctx.label('form_' + form, 'mode_' + mode)
    multiline = infos[0]['multiline'] or infos[1]['multiline']
    if multiline:
        ctx.label('multiline-annotations')
    for inf in infos:
        if inf['nl'] == '\r\n':
            ctx.label('layout-crlf')
        elif inf['nl'] == '\r':
            ctx.label('layout-cr')
        elif inf['nl'] == 'mix':
            ctx.label('layout-mixed-eol')
        if '\t' in inf['pre']:
            ctx.label('layout-tab-indent')
    paras = _paragraphs(m)
    if paras:
        ctx.label('multi-paragraph')
    if any(a[0] not in bm.KNOWN_ANNS for part in [m] + m['params'] + m['tags'] for a in part['anns']):
        ctx.label('unknown-annotation')
    if any(a[0] in bm.DICT_ANNS and a[1] for part in [m] + m['params'] + m['tags'] for a in part['anns']):
        ctx.label('dict-options')
    if any(p['name'] == '...' for p in m['params']):
        ctx.label('varargs')
    if m['tags']:
        ctx.label('tags')
    if (multiline or paras) and _count_opts(m) >= 2:
        ctx.note_nontrivial(case)
        ctx.sample({'rendered': texts[0][:700]}, 2)


def known_shape(case, v):
    """Key of the shape found on the unchanged tree (only reachable with case['strict'];
    otherwise the oracle excludes it by construction and counts it)."""
    if v.clause == 'writer-roundtrip' and case.get('k') == 'gen' and case['model']['id']['form'] == 'action':
        return 'C10-F1-action-writer-roundtrip'
    return None


# ------------------------------------------------------------------ plan
def plan(tier):
    if tier == 'quick':
        n, nf = 2000, 200
    else:
        n, nf = 100000, 4000
    specs = []
    for i in range(16):
        specs.append({'n': n, 'mode': 'wf' if i % 2 == 0 else 'broad', 'fixlayout': nf, 'fixtures': i == 0,
                      'fuzz': 0 if tier == 'quick' else 4000})
    return specs


def run_shard(ctx, spec):
    if spec.get('fixtures'):
        for fx in bm.load_fixtures():
            ctx.run_case({'k': 'fixture', 'ref': [fx['file'], fx['idx']]}, reraise=False)
    ctx.hyp(fixlayout_strategy(), spec['fixlayout'], name='fixlayout')
    ctx.hyp(strategy(spec['mode']), spec['n'], name='gen')
    if spec.get('fuzz'):
        # coverage-guided stage (thorough tier): libFuzzer mutates the byte stream behind the same strategy, guided by
        # edge coverage of giscanner.annotationparser; same oracles
        ctx.fuzz(strategy(spec['mode']), spec['fuzz'], name='gen-' + spec['mode'])


def health(agg, tier):
    L = agg['labels']
    probs = []
    gen = sum(v for k, v in L.items() if k.startswith('form_'))
    if L.get('fixture', 0) < 300:
        probs.append('only %d fixture triples replayed' % L.get('fixture', 0))
    for f in bm.FORMS:
        if L.get('form_' + f, 0) < 0.03 * gen:
            probs.append('identifier form %s in <3%% of generated cases (%d/%d)' % (f, L.get('form_' + f, 0), gen))
    for lab, frac in (('multiline-annotations', 0.15), ('layout-crlf', 0.1), ('layout-cr', 0.03),
                      ('multi-paragraph', 0.1), ('unknown-annotation', 0.05), ('dict-options', 0.05),
                      ('tags', 0.2), ('warnings-produced', 0.05), ('layout-tab-indent', 0.05),
                      ('fixlayout', 0.002)):
        if L.get(lab, 0) < frac * gen:
            probs.append('%s in <%g%% of generated cases (%d/%d)' % (lab, frac * 100, L.get(lab, 0), gen))
    if len(agg['nontrivial']) < 0.05 * gen:
        probs.append('non-trivial cases <5%% (%d/%d)' % (len(agg['nontrivial']), gen))
    return probs
