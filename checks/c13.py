"""C13 - enumeration members and constants keep correct names, types and values.

Substrate P (stub front end): enums and object-like macros are handed to the
real Transformer -> MainTransformer -> IntrospectablePass -> GIRWriter and the
emitted XML is compared with an arithmetic oracle written from the statement.
"""
import xml.etree.ElementTree as ET

from hypothesis import strategies as st

from vlib import pipeline
from vlib.cmodel import ty, const_python_value, enum_values
from vlib.runner import Violation, crash_clause

ID = 'C13'
LEVEL = 'exploration'
RULE = ('Hypothesis-generated headers with 1-4 enumerations (1-12 members named from word lists so that 0-3 whole '
        'words are shared, tails sharing leading characters, values implicit/negative/>2^31/>2^32, flags markers, '
        'private members) and 0-8 object-like macros (plain, U-suffixed, negated, cast to every integer spelling '
        'incl. in-namespace typedef aliases, G_G[U]INT64_CONSTANT, strings with escapes, doubles, TRUE/FALSE, '
        'underscore-prefixed and .c-file constants); thorough adds the exhaustive (unsigned type x boundary value) '
        'grid. non-trivial = an enum whose shared prefix goes beyond the namespace prefix together with a cast '
        'constant whose literal lies outside the cast type\'s range; distinct = hash of the case')
RULE = RULE + ' ' + 'String constants include CR, LF and TAB.'
ASSUMPTIONS = [
    'substrate P: cmodel.to_symbols mirrors scannerparser.y (DESIGN appendix D); the C lexer/parser is not exercised',
    'signed cast types and un-cast literals are generated in range only (the statement says "integers as written")',
    'widths of gulong/gsize/guintptr are those of this platform (LP64)',
]
TECHNIQUE = 'property-based testing (Hypothesis) on the scanner pipeline behind a stub front end; arithmetic oracle for names/values; exhaustive type x boundary grid'
LEVEL_TEXT = ('Randomised search plus an exhaustive grid over unsigned type spellings and boundary literals; oracle written '
              'from the statement (word-wise common prefix, modulo-width wrap).')
LEVEL_NOTE = 'trusts the symbol-tree model of the C front end (DESIGN 1.2); everything after it is the real code'
DESIGN_REF = 'DESIGN.md section 2, C13'

NS = {'name': 'Foo', 'version': '1.0', 'id_prefixes': ['Foo'], 'sym_prefixes': ['foo']}

# spelling -> (GIR type name, bits, signed) from the C / GLib type documentation (not from giscanner.ast)
INT_TYPES = {
    'gint8': ('gint8', 8, True), 'int8_t': ('gint8', 8, True), 'signed char': ('gint8', 8, True),
    'guint8': ('guint8', 8, False), 'uint8_t': ('guint8', 8, False), 'guchar': ('guint8', 8, False),
    'unsigned char': ('guint8', 8, False),
    'gint16': ('gint16', 16, True), 'int16_t': ('gint16', 16, True),
    'guint16': ('guint16', 16, False), 'uint16_t': ('guint16', 16, False), 'gunichar2': ('guint16', 16, False),
    'gshort': ('gshort', 16, True), 'short': ('gshort', 16, True),
    'gushort': ('gushort', 16, False), 'unsigned short': ('gushort', 16, False),
    'gint32': ('gint32', 32, True), 'int32_t': ('gint32', 32, True),
    'guint32': ('guint32', 32, False), 'uint32_t': ('guint32', 32, False),
    'gint': ('gint', 32, True), 'int': ('gint', 32, True),
    'guint': ('guint', 32, False), 'unsigned int': ('guint', 32, False), 'unsigned': ('guint', 32, False),
    'gunichar': ('gunichar', 32, False),
    'gint64': ('gint64', 64, True), 'int64_t': ('gint64', 64, True), 'goffset': ('gint64', 64, True),
    'guint64': ('guint64', 64, False), 'uint64_t': ('guint64', 64, False),
    'glong': ('glong', 64, True), 'long': ('glong', 64, True),
    'gulong': ('gulong', 64, False), 'unsigned long': ('gulong', 64, False),
    'gsize': ('gsize', 64, False), 'size_t': ('gsize', 64, False),
    'gssize': ('gssize', 64, True),
    'guintptr': ('guintptr', 64, False),
}
BASIC_SPELLINGS = set(['signed char', 'unsigned char', 'short', 'unsigned short', 'int', 'unsigned int',
                       'unsigned', 'long', 'unsigned long'])
PLATFORM_WIDTH = set(['gulong', 'gsize', 'guintptr'])
# aliases (incl. chains) defined in the included fixture namespace FooBar: C name -> (GIR name, base spelling)
INCLUDED_ALIASES = {'FooBarId': ('FooBar.Id', 'guint32'), 'FooBarHandle': ('FooBar.Handle', 'guint32'),
                    'FooBarPort': ('FooBar.Port', 'guint16'), 'FooBarServicePort': ('FooBar.ServicePort', 'guint16'),
                    'FooBarOctet': ('FooBar.Octet', 'guint8'), 'FooBarBig': ('FooBar.Big', 'guint64'),
                    'FooBarBigHandle': ('FooBar.BigHandle', 'guint64'), 'FooBarOffset': ('FooBar.Offset', 'gint32')}
# The real lexer does not treat int/unsigned/char/... as type keywords while scanning macros, so
# '#define X ((unsigned char) 5)' yields no symbol at all there (calibration, scannerlexer.l); casts are
# therefore generated with typedef names only - the front end itself is outside every check.
UNSIGNED = sorted(k for k, v in INT_TYPES.items() if not v[2] and k not in BASIC_SPELLINGS)
SIGNED = sorted(k for k, v in INT_TYPES.items() if v[2] and k not in BASIC_SPELLINGS)

WORDS = ['KIND', 'MODE', 'TYPE', 'FLAG', 'A', 'B', 'AB', 'AC', 'ABC', 'X', 'NONE', 'ALL', 'READ', 'READY',
         'WRITE', '2D', '3D', 'ERROR', 'FAILED', 'V1', 'V2', 'VALUE']


def _cast_type(name):
    return ty(name, kind='basic' if name in BASIC_SPELLINGS else 'typedef')


@st.composite
def _enum(draw, idx, two_prefixes=False):
    shared = draw(st.lists(st.sampled_from(WORDS), min_size=0, max_size=3))
    n = draw(st.one_of(st.integers(1, 4), st.integers(1, 12)))
    tails = draw(st.lists(st.lists(st.sampled_from(WORDS), min_size=1, max_size=3).map(tuple),
                          min_size=n, max_size=n, unique=True))
    kept = []
    for t in tails:
        if not any(t[:len(k)] == k or k[:len(t)] == t for k in kept):
            kept.append(t)
    tails = kept
    prefix_ns = draw(st.sampled_from(['FOO', 'FOO', 'FOO', 'FOO_E%d' % idx]))
    names = ['_'.join([prefix_ns] + shared + list(t)) for t in tails]
    if two_prefixes and draw(st.booleans()):
        # with two namespace symbol prefixes the members need not share any word at all
        names = ['_'.join([draw(st.sampled_from(['FOO', 'BAR']))] + shared + list(t)) for t in tails]
    members = []
    for nm in names:
        vk = draw(st.sampled_from(['implicit', 'implicit', 'small', 'neg', 'big31', 'big32', 'shift']))
        m = {'name': nm, 'value': None}
        if vk == 'small':
            m['value'] = draw(st.integers(0, 300))
        elif vk == 'neg':
            m['value'] = draw(st.sampled_from([-1, -2, -128, -32769, -2147483648]))
        elif vk == 'big31':
            m['value'] = draw(st.sampled_from([2147483647, 2147483648, 4294967295, 0x80000000]))
        elif vk == 'big32':
            m['value'] = draw(st.sampled_from([4294967296, 2 ** 40 + 3, 2 ** 62]))
        elif vk == 'shift':
            m['value'] = 1 << draw(st.integers(0, 30))
            m['shift'] = True
        if draw(st.integers(0, 9)) == 0:
            m['private'] = True
        if m['value'] is None and members:
            prev = enum_values(members)[-1]
            if not (-2 ** 31 <= prev < 2 ** 31 - 1):
                # C counts implicit enumerators in int: 'A = 4294967296, B' is not portable C
                m['value'] = draw(st.integers(0, 300))
        members.append(m)
    return {'d': 'enum', 'name': 'FooEnum%d%s' % (idx, draw(st.sampled_from(['', 'Kind', 'Flags']))),
            'tag': draw(st.sampled_from([None, '_FooEnum%d' % idx])),
            'flags': draw(st.sampled_from([False, False, True])), 'members': members}


_BOUNDARY = [0, 1, 44, 127, 128, 255, 256, 300, 32767, 32768, 65535, 65536, 70000, 2 ** 31 - 1, 2 ** 31, 2 ** 32 - 1,
             2 ** 32, 2 ** 32 + 5, 2 ** 63 - 1, 2 ** 63, 2 ** 64 - 1]


@st.composite
def _const(draw, idx, aliases):
    kind = draw(st.sampled_from(['plain', 'cast-u', 'cast-u', 'cast-u', 'cast-s', 'cast-alias', 'cast-included-alias', 'wrap64', 'str',
                                 'double', 'bool', 'hidden', 'cfile']))
    name = 'FOO_C%d_%s' % (idx, draw(st.sampled_from(['MAX', 'MIN', 'MASK', 'X'])))
    d = {'d': 'const', 'name': name}
    if kind == 'plain':
        v = draw(st.one_of(st.integers(0, 2 ** 31 - 1), st.sampled_from([0, 1, 2 ** 31 - 1])))
        d['value'] = {'k': 'int', 'lit': v, 'neg': draw(st.booleans()), 'hex': draw(st.booleans())}
    elif kind in ('cast-u', 'cast-alias'):
        if kind == 'cast-alias' and aliases:
            al = draw(st.sampled_from(aliases))
            cast = ty(al['name'], kind='typedef')
        else:
            cast = _cast_type(draw(st.sampled_from(UNSIGNED)))
        lit = draw(st.one_of(st.sampled_from(_BOUNDARY), st.integers(0, 2 ** 64 - 1), st.integers(0, 70000)))
        d['value'] = {'k': 'int', 'lit': lit, 'neg': draw(st.sampled_from([False, False, True])),
                      'compl': draw(st.sampled_from([False, False, False, True])),
                      'usuffix': draw(st.booleans()), 'hex': draw(st.booleans()), 'cast': cast}
    elif kind == 'cast-included-alias':
        al = draw(st.sampled_from(sorted(k for k in INCLUDED_ALIASES if k != 'FooBarOffset')))
        lit = draw(st.one_of(st.sampled_from(_BOUNDARY), st.integers(0, 2 ** 64 - 1), st.integers(0, 70000)))
        d['value'] = {'k': 'int', 'lit': lit, 'neg': draw(st.sampled_from([False, True])),
                      'usuffix': draw(st.booleans()), 'cast': ty(al, kind='typedef')}
    elif kind == 'cast-s':
        t = draw(st.sampled_from(SIGNED))
        bits = INT_TYPES[t][1]
        v = draw(st.one_of(st.integers(0, 2 ** (bits - 1) - 1), st.sampled_from([0, 2 ** (bits - 1) - 1])))
        d['value'] = {'k': 'int', 'lit': v, 'neg': draw(st.booleans()), 'cast': _cast_type(t)}
    elif kind == 'wrap64':
        uns = draw(st.booleans())
        d['value'] = {'k': 'int', 'lit': draw(st.integers(0, 2 ** 63 - 1)), 'usuffix': uns and draw(st.booleans()),
                      'wrap': 'G_GUINT64_CONSTANT' if uns else 'G_GINT64_CONSTANT'}
    elif kind == 'str':
        d['value'] = {'k': 'str', 's': draw(st.text(alphabet=st.sampled_from(list('ab <>&"\'\\\n\t\ré中%')), max_size=12))}
    elif kind == 'double':
        d['value'] = {'k': 'double', 'f': draw(st.sampled_from([0.0, 1.5, 3.141592653589793, 1e10, 0.000001, 123456.789]))}
    elif kind == 'bool':
        d['value'] = {'k': 'bool', 'b': draw(st.booleans())}
    elif kind == 'hidden':
        d['name'] = '_' + name
        d['value'] = {'k': 'int', 'lit': 7}
    else:
        d['file'] = '/src/foo.c'
        d['value'] = {'k': 'int', 'lit': 9}
    return d


@st.composite
def _case(draw):
    aliases = []
    decls = []
    for i in range(draw(st.integers(0, 2))):
        target = draw(st.sampled_from(UNSIGNED + ['gint', 'gint64']))
        aliases.append({'name': 'FooAlias%d' % i, 'target': target, 'depth': 1})
        decls.append({'d': 'typedef', 'name': 'FooAlias%d' % i, 'type': _cast_type(target)})
    if aliases and draw(st.integers(0, 3)) == 0:
        a0 = aliases[0]
        aliases.append({'name': 'FooAliasOfAlias', 'target': a0['target'], 'depth': 2})
        decls.append({'d': 'typedef', 'name': 'FooAliasOfAlias', 'type': ty(a0['name'], kind='typedef')})
    two = draw(st.sampled_from([False, False, True]))
    for i in range(draw(st.integers(1, 3))):
        decls.append(draw(_enum(i, two)))
    for i in range(draw(st.integers(0, 8))):
        decls.append(draw(_const(i, aliases)))
    decls = list(draw(st.permutations(decls)))
    return {'decls': decls, 'two_prefixes': two}


def _external_typedefs():
    return [{'d': 'typedef', 'name': k, 'type': _cast_type(v[1]), 'file': None} for k, v in sorted(INCLUDED_ALIASES.items())]


# ------------------------------------------------------------------ oracle
GI = '{http://www.gtk.org/introspection/core/1.0}'
C = '{http://www.gtk.org/introspection/c/1.0}'


def common_word_prefix(names):
    split = [n.split('_') for n in names]
    k = 0
    while all(len(s) > k for s in split) and len(set(s[k] for s in split)) == 1:
        k += 1
    return k


def expected_member_names(members):
    """members: all members. Returns {c name: gir name} for public ones, or None when the
    statement's precondition fails (a member is a word-prefix of another)."""
    names = [m['name'] for m in members]
    split = [n.split('_') for n in names]
    for i, a in enumerate(split):
        for j, b in enumerate(split):
            if i != j and len(a) <= len(b) and b[:len(a)] == a:
                return None
    if len(names) >= 2:
        k = common_word_prefix(names)
    else:
        k = 0
    out = {}
    for m, s in zip(members, split):
        if m.get('private'):
            continue
        if k > 0:
            out[m['name']] = '_'.join(s[k:]).lower()
        else:
            assert m['name'].startswith(('FOO_', 'BAR_'))
            out[m['name']] = m['name'][4:].lower()
    return out


def alias_info(decls):
    al = {}
    for d in decls:
        if d['d'] == 'typedef':
            al[d['name']] = d['type']['base']
    return al


def check_case(case, ctx):
    decls = case['decls']
    # precondition of the statement on enum member names; also keep prefix(all) == prefix(public)
    for d in decls:
        if d['d'] == 'enum':
            if expected_member_names(d['members']) is None:
                from vlib.runner import Discard
                raise Discard()
            pub = [m for m in d['members'] if not m.get('private')]
            if len(pub) != len(d['members']):
                if len(pub) < 2 or common_word_prefix([m['name'] for m in pub]) != common_word_prefix([m['name'] for m in d['members']]):
                    for m in d['members']:
                        m.pop('private', None)
    ns = dict(NS, sym_prefixes=['foo', 'bar']) if case.get('two_prefixes') else NS
    full = {'ns': ns, 'includes': ['GLib-2.0', 'FooBar-1.0'], 'decls': decls, 'comments': [], 'dump': None}
    try:
        res = pipeline.run(full, ctx.mkscratch())
    except Exception as e:
        raise Violation(crash_clause(e), repr(e))
    if res.fatal is not None:
        raise Violation('fatal-on-valid-input', res.fatal[:300])
    root = ET.fromstring(res.gir)
    ns = root.find(GI + 'namespace')
    aliases = alias_info(decls)

    deep_prefix = False
    out_of_range_cast = False
    for d in decls:
        if d['d'] == 'enum':
            tag = 'bitfield' if (d.get('flags') or any(m.get('shift') for m in d['members'])) else 'enumeration'
            els = [e for e in ns if e.tag in (GI + 'enumeration', GI + 'bitfield') and e.get(C + 'type') == d['name']]
            if len(els) != 1:
                raise Violation('enum-missing-or-duplicated', '%s appears %d times' % (d['name'], len(els)))
            el = els[0]
            if el.tag != GI + tag:
                raise Violation('enum-kind', '%s emitted as %s, expected %s' % (d['name'], el.tag, tag))
            exp_names = expected_member_names(d['members'])
            vals = enum_values(d['members'])
            exp = [(m['name'], exp_names[m['name']], str(v)) for m, v in zip(d['members'], vals) if not m.get('private')]
            got = [(m.get(C + 'identifier'), m.get('name'), m.get('value')) for m in el.findall(GI + 'member')]
            if [g[0] for g in got] != [e[0] for e in exp]:
                raise Violation('enum-members-order-or-set', '%s: expected %r got %r' % (d['name'], [e[0] for e in exp], [g[0] for g in got]))
            for e, g in zip(exp, got):
                if e[1] != g[1]:
                    raise Violation('enum-member-name', '%s: %s expected name %r got %r (members %r)' % (d['name'], e[0], e[1], g[1], [m['name'] for m in d['members']]))
                if e[2] != g[2]:
                    raise Violation('enum-member-value', '%s: %s expected value %s got %s' % (d['name'], e[0], e[2], g[2]))
            if len(d['members']) >= 2 and common_word_prefix([m['name'] for m in d['members']]) >= 2:
                deep_prefix = True
            if len(d['members']) >= 2 and common_word_prefix([m['name'] for m in d['members']]) == 0:
                ctx.label('enum-no-shared-word')
        elif d['d'] == 'const':
            els = [e for e in ns.findall(GI + 'constant') if e.get(C + 'type') == d['name']]
            hidden = d['name'].startswith('_') or d.get('file', '').endswith('.c')
            if hidden:
                if els:
                    raise Violation('non-public-constant-emitted', d['name'])
                continue
            if len(els) != 1:
                raise Violation('constant-missing-or-duplicated', '%s appears %d times' % (d['name'], len(els)))
            el = els[0]
            v = d['value']
            tel = el.find(GI + 'type')
            tname = tel.get('name') if tel is not None else None
            if v['k'] == 'str':
                if el.get('value') != v['s']:
                    raise Violation('string-constant-value', '%r vs %r' % (v['s'], el.get('value')))
                if tname != 'utf8':
                    raise Violation('string-constant-type', repr(tname))
            elif v['k'] == 'bool':
                if el.get('value') != ('true' if v['b'] else 'false') or tname != 'gboolean':
                    raise Violation('boolean-constant', '%r -> %r %r' % (v['b'], el.get('value'), tname))
            elif v['k'] == 'double':
                if tname != 'gdouble':
                    raise Violation('double-constant-type', repr(tname))
                if abs(float(el.get('value')) - v['f']) > 1e-6 * max(1.0, abs(v['f'])):
                    raise Violation('double-constant-value', '%r vs %r' % (v['f'], el.get('value')))
            else:
                written = const_python_value(v)
                depth = 0
                if v.get('cast') is not None:
                    spelled = v['cast']['base']
                    base = spelled
                    while base in aliases:
                        base = aliases[base]
                        depth += 1
                    included = None
                    if base in INCLUDED_ALIASES:
                        included, base = INCLUDED_ALIASES[base]
                        ctx.label('const-included-alias-chain')
                    gir, bits, signed = INT_TYPES[base]
                    exp_type = included if (included and not depth) else (spelled[3:] if depth else gir)
                elif v.get('wrap'):
                    uns = v['wrap'] == 'G_GUINT64_CONSTANT' or v.get('usuffix')
                    base = 'guint64' if uns else 'gint64'
                    gir, bits, signed = INT_TYPES[base]
                    exp_type = gir
                else:
                    base, bits, signed, exp_type = 'gint', 32, True, 'gint'
                if tname != exp_type:
                    raise Violation('integer-constant-type', '%s: declared %s, GIR type %r (expected %r)' % (d['name'], v.get('cast', {}).get('base') if v.get('cast') else v.get('wrap'), tname, exp_type))
                if not signed:
                    expv = written % (2 ** bits)
                    if written < 0 or written >= 2 ** bits:
                        out_of_range_cast = True
                else:
                    expv = written
                if el.get('value') != str(expv):
                    cls = 'unsigned-%d' % bits if not signed else 'signed'
                    if included:
                        clause = 'unsigned-wrap:included-alias'
                    elif base in PLATFORM_WIDTH or base in ('unsigned long', 'size_t'):
                        clause = 'unsigned-wrap:platform-width-type'        # directly or at the end of an alias chain
                    elif depth >= 2:
                        clause = 'unsigned-wrap:alias-chain'
                    elif not signed:
                        clause = 'unsigned-wrap:%s' % INT_TYPES[base][0]
                    else:
                        clause = 'signed-constant-value'
                    if ctx.known(clause):
                        continue
                    raise Violation(clause, '%s = %s: literal value %d, type %s (%s, %d bits): expected %s got %s'
                                    % (d['name'], _render(v), written, base, cls, bits, expv, el.get('value')))
                ctx.label('const-' + ('u%d' % bits if not signed else 's'))
    if deep_prefix:
        ctx.label('deep-prefix')
    if out_of_range_cast:
        ctx.label('out-of-range-cast')
    if deep_prefix and out_of_range_cast:
        ctx.note_nontrivial(case)
        from vlib import cmodel
        ctx.sample({'header': cmodel.to_header_text(decls)[:900]}, 3)


def _render(v):
    from vlib import cmodel
    return cmodel.const_text(v)


def _grid_cases():
    cases = []
    for t in UNSIGNED:
        for lit in _BOUNDARY:
            for neg in (False, True):
                cases.append({'decls': [{'d': 'const', 'name': 'FOO_G', 'value': {'k': 'int', 'lit': lit, 'neg': neg, 'cast': _cast_type(t)}}]})
    return cases


def plan(tier):
    if tier == 'quick':
        return [{'n': 500, 'grid': i} for i in range(16)]
    return [{'n': 4000, 'grid': i} for i in range(16)]


def run_shard(ctx, spec):
    grid = _grid_cases()
    mine = grid[spec['grid']::16]
    for c in mine:
        ctx.run_case(c, reraise=False)
    ctx.extra['grid_cells'] = len(mine)
    ctx.extra['exhaustive_grid'] = 'unsigned type spelling x boundary literal x sign (%d cells)' % len(grid)
    ctx.hyp(_case(), spec['n'])


def health(agg, tier):
    ev = max(1, agg['evals'])
    probs = []
    for lab, frac in (('deep-prefix', 0.2), ('out-of-range-cast', 0.2), ('const-u8', 0.03), ('const-u64', 0.03)):
        if agg['labels'].get(lab, 0) < frac * ev:
            probs.append('%s in %d of %d cases' % (lab, agg['labels'].get(lab, 0), ev))
    if agg['discards'] > 0.3 * ev:
        probs.append('discard rate %d/%d' % (agg['discards'], ev))
    return probs
