"""C07 - GIR files survive a read/write cycle unchanged.

w0 = write(ns); ns1 = parse(w0); w1 = write(ns1); ns2 = parse(w1); w2 = write(ns2).
  scanner output and tests/scanner/*-expected.gir:  w1 == w0 (what --reparse-validate-gir demands)
  every input incl. hand-written gir/*.gir:          w2 == w1 (a GIR that was itself produced by a write is a fixpoint)
  model agreement: pi(ns) == pi(ns1) == pi(ns2) for a projection pi of the AST onto API-relevant properties.
"""
import glob
import os

from hypothesis import strategies as st

from vlib import pipeline, apigen, cmodel
from vlib.runner import Violation, Discard, crash_clause, REPO

ID = 'C07'
LEVEL = 'exploration'
RULE = ('(a) Hypothesis-generated namespaces from the richest API generator (every node kind: records, unions, boxed, enums, '
        'flags, classes with properties/signals/virtual methods, interfaces, callbacks, aliases, constants, functions/methods/'
        'constructors with annotated parameters; docs with multi-paragraph text and characters that need escaping; version/'
        'deprecation tags; attributes) emitted by the real pipeline, then read with GIRParser and written back; (b) every *.gir '
        'under tests/scanner and gir/. non-trivial = the namespace holds >= 5 distinct node kinds and a doc string with a '
        'character that needs XML escaping; distinct = hash of the case')
RULE = RULE + ' ' + 'Besides the byte fixpoint, a small projection of the written and the read model (kinds, C identifiers, named types/transfer/direction of every value, property flags and default values) must agree.'
ASSUMPTIONS = [
    'substrate P: cmodel.to_symbols mirrors scannerparser.y (calibrated by tools/calibrate_p.py)',
    'hand-written gir/*.gir are only required to be a fixpoint from their first write on (they carry comments and layout the writer does not reproduce)',
]
TECHNIQUE = 'property-based testing (Hypothesis): round trip GIRWriter -> GIRParser -> GIRWriter on generated scanner output and all repository GIR files; byte equality + AST projection equality'
LEVEL_TEXT = 'Randomised round-trip search plus a fixed sweep over the shipped GIR files.'
LEVEL_NOTE = 'trusts the symbol-tree model of the C front end; both sides of the round trip are code under test, the byte comparison and the projection are the harness'
DESIGN_REF = 'DESIGN.md section 2, C07'

PI_ATTRS = ['name', 'ctype', 'symbol', 'c_name', 'gi_name', 'transfer', 'direction', 'nullable', 'optional', 'caller_allocates',
            'skip', 'scope', 'closure_name', 'destroy_name', 'throws', 'is_method', 'is_constructor', 'shadows', 'shadowed_by',
            'moved_to', 'introspectable', 'version', 'deprecated', 'deprecated_version', 'stability', 'doc', 'value',
            'readable', 'writable', 'construct', 'construct_only', 'private', 'bits', 'gtype_name', 'get_type', 'c_symbol_prefix',
            'is_abstract', 'is_final', 'fundamental', 'when', 'detailed', 'action', 'no_hooks', 'no_recurse', 'invoker',
            'target_giname', 'target_fundamental', 'zeroterminated', 'length_param_name', 'size', 'array_type', 'is_const',
            'error_domain', 'disguised', 'opaque', 'pointer', 'foreign', 'copy_func', 'free_func', 'setter', 'getter',
            'set_property', 'get_property', 'default_value', 'emitter', 'finish_func', 'sync_func', 'async_func', 'is_inline',
            'nick', 'instance_parameter', 'parameters', 'retval', 'type', 'element_type', 'key_type', 'value_type', 'target',
            'fields', 'methods', 'static_methods', 'constructors', 'virtual_methods', 'properties', 'signals', 'members',
            'interfaces', 'prerequisites', 'parent_type', 'glib_type_struct', 'is_gtype_struct_for', 'anonymous_node',
            'attributes', 'unref_func', 'ref_func', 'set_value_func', 'get_value_func', 'doc_position', 'version_doc',
            'deprecated_doc', 'stability_doc']


def project(obj, ast, depth=0, seen=None):
    """Projection of the AST onto API-relevant properties (a generic walker; positions as (basename, line))."""
    if seen is None:
        seen = set()
    if obj is None or isinstance(obj, (str, int, float, bool)):
        return obj
    if isinstance(obj, (list, tuple)):
        return [project(x, ast, depth + 1, seen) for x in obj]
    if isinstance(obj, dict):
        return dict((str(k), project(v, ast, depth + 1, seen)) for k, v in sorted(obj.items(), key=lambda kv: str(kv[0])))
    if isinstance(obj, (set, frozenset)):
        return sorted(repr(project(x, ast, depth + 1, seen)) for x in obj)
    mod = type(obj).__module__
    if mod.endswith('message') and type(obj).__name__ == 'Position':
        return ['pos', os.path.basename(obj.filename or ''), obj.line, obj.column]
    if not mod.startswith('giscanner'):
        return repr(obj)
    if id(obj) in seen or depth > 12:
        return '<%s %s>' % (type(obj).__name__, getattr(obj, 'name', None))
    seen = seen | set([id(obj)])
    out = {'__class__': type(obj).__name__}
    for a in PI_ATTRS:
        if hasattr(obj, a):
            try:
                v = getattr(obj, a)
            except Exception:
                continue
            if callable(v):
                continue
            out[a] = project(v, ast, depth + 1, seen)
    return out


def project_namespace(ns, ast):
    out = {'name': ns.name, 'version': ns.version, 'identifier_prefixes': list(ns.identifier_prefixes),
           'symbol_prefixes': list(ns.symbol_prefixes), 'includes': sorted(str(i) for i in ns.includes),
           'c_includes': list(ns.c_includes), 'exported_packages': list(ns.exported_packages),
           'shared_libraries': list(ns.shared_libraries), 'nodes': {}}
    for name, node in ns.names.items():
        out['nodes'][name] = project(node, ast)
    return out


def _canon(v, key):
    """Representation differences between a freshly built and a parsed model that carry no API
    meaning: an absent direction means 'in', numbers may be kept as strings."""
    if key == 'direction' and v is None:
        return 'in'
    if isinstance(v, bool):
        return v
    if isinstance(v, (int, float)):
        return str(v)
    return v


def first_diff(a, b, path='', lenient=False):
    if lenient:
        key = path.rsplit('.', 1)[-1].split('[')[0]
        a, b = _canon(a, key), _canon(b, key)
    if type(a) != type(b):
        return '%s: %r vs %r' % (path, a, b)
    if isinstance(a, dict):
        for k in sorted(set(a) | set(b)):
            if k not in a or k not in b:
                if lenient and a.get(k) is None and b.get(k) is None:
                    continue
                return '%s.%s: only on one side (%r vs %r)' % (path, k, a.get(k), b.get(k))
            d = first_diff(a[k], b[k], path + '.' + k, lenient)
            if d:
                return d
        return None
    if isinstance(a, list):
        if len(a) != len(b):
            return '%s: list length %d vs %d' % (path, len(a), len(b))
        for i, (x, y) in enumerate(zip(a, b)):
            d = first_diff(x, y, '%s[%d]' % (path, i), lenient)
            if d:
                return d
        return None
    if a != b:
        return '%s: %r vs %r' % (path, a, b)
    return None


def _type_key(t):
    """What a type *names* (robust against representation: no flags, no c:types)."""
    if t is None:
        return None
    cls = type(t).__name__
    if cls in ('Array', 'List'):
        return [cls, getattr(t, 'array_type', None) or getattr(t, 'name', None), _type_key(t.element_type)]
    if cls == 'Map':
        return [cls, _type_key(t.key_type), _type_key(t.value_type)]
    if cls == 'Varargs':
        return ['Varargs']
    # an unresolved type has neither; its c:type is a representation detail (ctype vs complete ctype)
    return getattr(t, 'target_giname', None) or getattr(t, 'target_fundamental', None) or '<unresolved>'


def core_projection(ns):
    """A deliberately small projection used to compare the model that was WRITTEN (the pipeline's namespace) with
    the model READ back: node kinds, C identifiers, and for every callable the named types, transfer and direction
    of its values. Representation differences (None vs default, int vs str, is_const) do not enter it."""
    out = {}

    def callable_(c):
        d = {'ret': [_type_key(c.retval.type), c.retval.transfer], 'throws': bool(c.throws), 'params': []}
        for p in c.parameters:
            d['params'].append([p.argname, _type_key(p.type), p.transfer, p.direction or 'in'])
        ip = getattr(c, 'instance_parameter', None)
        if ip is not None:
            d['instance'] = [ip.argname, _type_key(ip.type)]
        return d

    for name, node in ns.names.items():
        if getattr(node, 'internal_skipped', False):
            continue
        cls = type(node).__name__
        e = {'class': cls, 'ctype': getattr(node, 'ctype', None), 'symbol': getattr(node, 'symbol', None)}
        if hasattr(node, 'parameters') and hasattr(node, 'retval'):
            e['sig'] = callable_(node)
        for attr in ('methods', 'constructors', 'static_methods', 'virtual_methods', 'signals'):
            for m in getattr(node, attr, None) or []:
                if getattr(m, 'internal_skipped', False):
                    continue            # non-introspectable compatibility copies are not written at all
                e.setdefault(attr, {})[m.name] = callable_(m)
        for f in getattr(node, 'fields', None) or []:
            if getattr(f, 'type', None) is not None:
                e.setdefault('fields', {})[f.name] = _type_key(f.type)
        for pr in getattr(node, 'properties', None) or []:
            e.setdefault('properties', {})[pr.name] = [_type_key(pr.type), bool(pr.readable), bool(pr.writable), bool(pr.construct),
                                                       bool(pr.construct_only), pr.transfer, getattr(pr, 'default_value', None)]
        pt = getattr(node, 'parent_type', None)
        if pt is not None and cls == 'Class':       # interfaces carry an implied parent that is not written
            e['parent'] = _type_key(pt)
        for attr in ('interfaces', 'prerequisites'):
            v = getattr(node, attr, None)
            if v:
                e[attr] = sorted(str(_type_key(t)) for t in v)
        ts = getattr(node, 'glib_type_struct', None)
        if ts is not None:
            e['type_struct'] = _type_key(ts)
        if cls == 'Alias':
            e['target'] = _type_key(node.target)
        out[name] = e
    return out


def _bytes_diff(a, b):
    la, lb = a.decode('utf-8', 'replace').split('\n'), b.decode('utf-8', 'replace').split('\n')
    for i, (x, y) in enumerate(zip(la, lb)):
        if x != y:
            return 'line %d: %r vs %r' % (i + 1, x[:200], y[:200])
    return 'length %d vs %d lines' % (len(la), len(lb))


def _cycle(data, scratch, tag):
    m = pipeline.M()
    from giscanner.girparser import GIRParser
    from giscanner.girwriter import GIRWriter
    os.makedirs(scratch, exist_ok=True)
    fn = os.path.join(scratch, '%s.gir' % tag)
    with open(fn, 'wb') as f:
        f.write(data)
    p = GIRParser(types_only=False)
    p.parse(fn)
    ns = p.get_namespace()
    out = GIRWriter(ns).get_encoded_xml()
    return ns, out


NEEDS_ESC = set('<>&"\'')


def check_case(case, ctx):
    m = pipeline.M()
    ast = m['ast']
    scratch = ctx.mkscratch()
    m['message'].MessageLogger._instance = None
    if case.get('kind') == 'file':
        path = os.path.join(REPO, case['path'])
        data = open(path, 'rb').read()
        generated = '-expected.gir' in case['path']
        try:
            ns1, w1 = _cycle(data, scratch, 'a')
            ns2, w2 = _cycle(w1, scratch, 'b')
            ns3, w3 = _cycle(w2, scratch, 'c')
        except Exception as e:
            raise Violation(crash_clause(e), '%s: %r' % (case['path'], e))
        if generated and w1 != data:
            raise Violation('shipped-expected-gir-changes-on-rewrite', '%s: %s' % (case['path'], _bytes_diff(data, w1)))
        if w2 != w1 or w3 != w2:
            raise Violation('rewritten-gir-not-a-fixpoint', '%s: %s' % (case['path'], _bytes_diff(w1, w2)))
        # hand-written files are compared from their first write on
        pa, pb = (ns1, ns2) if generated else (ns2, ns3)
        d = first_diff(project_namespace(pa, ast), project_namespace(pb, ast))
        if d:
            raise Violation('model-changes-on-reread', '%s: %s' % (case['path'], d))
        ctx.label('shipped-file')
        if len(set(type(n).__name__ for n in ns1.names.values())) >= 5:
            ctx.note_nontrivial(case)
        return
    try:
        res = pipeline.run(case, scratch, sources_roots=())
    except Exception as e:
        raise Discard()          # tracebacks of the pipeline itself are C05's concern
    if res.fatal is not None or res.gir is None:
        raise Discard()
    ns0 = res.namespace
    w0 = res.gir
    try:
        ns1, w1 = _cycle(w0, scratch, 'a')
        ns2, w2 = _cycle(w1, scratch, 'b')
    except Exception as e:
        raise Violation(crash_clause(e), repr(e) + '\n' + w0.decode()[:3000])
    if w1 != w0:
        raise Violation('scanner-output-changes-on-rewrite', _bytes_diff(w0, w1))
    if w2 != w1:
        raise Violation('rewritten-gir-not-a-fixpoint', _bytes_diff(w1, w2))
    d = first_diff(project_namespace(ns1, ast), project_namespace(ns2, ast))
    if d:
        raise Violation('model-changes-on-reread', d)
    # the model that was written vs the model read back (names, named types, ownership, direction)
    d = first_diff(core_projection(ns0), core_projection(ns1))
    if d:
        raise Violation('read-model-differs-from-written-model', d)
    kinds = set(type(n).__name__ for n in ns0.names.values())
    esc = any(NEEDS_ESC & set(c['doc']) for c in case['meta']['callables'])
    ctx.label('kinds>=5' if len(kinds) >= 5 else 'kinds<5')
    if esc:
        ctx.label('doc-needs-escaping')
    if len(kinds) >= 5 and esc:
        ctx.note_nontrivial(case)
        ctx.sample({'gir_excerpt': w0.decode()[-1500:]}, 2)


CONTAINER_KINDS = ('GList*', 'GSList*', 'GHashTable*', 'GArray*', 'GPtrArray*', 'GByteArray*')


def known_shape(case, v):
    if v.clause == 'scanner-output-changes-on-rewrite' and case.get('meta') and 'type name="GLib.' in v.detail:
        for c in case['meta']['callables']:
            for nm, k in list(zip(c['names'], c['kinds'])) + [('Returns', c['ret'])]:
                if k in CONTAINER_KINDS and any(a.startswith('(type ') for a in c['ann'].get(nm, [])):
                    return 'rewrite:unresolvable-type-annotation-on-container'
    return None


def _files():
    out = []
    for pat in ('tests/scanner/*.gir', 'gir/*.gir'):
        for p in sorted(glob.glob(os.path.join(REPO, pat))):
            out.append(os.path.relpath(p, REPO))
    return out


def plan(tier):
    n = 60 if tier == 'quick' else 3000
    return [{'n': n, 'part': i} for i in range(16)]


def run_shard(ctx, spec):
    for f in _files()[spec['part']::16]:
        ctx.run_case({'kind': 'file', 'path': f}, reraise=False)
    ctx.hyp(apigen.api(hostile=True), spec['n'])


def health(agg, tier):
    probs = []
    ev = max(1, agg['evals'])
    if agg['labels'].get('shipped-file', 0) < 20:
        probs.append('only %d shipped files' % agg['labels'].get('shipped-file', 0))
    if agg['discards'] > 0.3 * ev:
        probs.append('discard rate %d/%d' % (agg['discards'], ev))
    if agg['labels'].get('doc-needs-escaping', 0) < 0.1 * ev:
        probs.append('docs needing escaping in %d of %d' % (agg['labels'].get('doc-needs-escaping', 0), ev))
    return probs
