"""C02 - undocumented APIs get the documented default ownership, types and roles.

Two generators on substrate P:
  table        every C type spelling of a hand-written expectation table, placed in
               parameter / return / field / alias position with const and pointer variants
               (exhaustive: every row is visited by every run)
  arrangement  callables whose parameters are drawn from roles (callback, user_data,
               destroy notify, async-ready callback, cancellable, GError**, strings,
               out-looking pointers) in arbitrary arrangements

The expectation table is written from the property statement, giannotations.rst
("Default Annotations") and the GLib type documentation - not from giscanner.ast.
"""
import xml.etree.ElementTree as ET

from hypothesis import strategies as st

from vlib import pipeline, cmodel
from vlib.cmodel import ty, param, CONST
from vlib.runner import Violation, crash_clause

ID = 'C02'
LEVEL = 'exploration'
RULE = ('(a) exhaustive table: every C type spelling of the expectation table (about 60) x {parameter, return, field, alias} x {plain, const, pointer, '
        'const pointer} evaluated on every run; (b) Hypothesis-generated un-annotated callables with 0-7 parameters '
        'drawn from roles {int, string, const string, gpointer named user_data/data/other, in-namespace callback, '
        'GDestroyNotify, GAsyncReadyCallback, GCancellable*, GError** (trailing or not), record pointer, char**} and '
        'a return role, plus bare (out)/(inout)/(out caller-allocates) direction annotations to observe the transfer '
        'default of out parameters. non-trivial = the case contains a pointer, const or callback arrangement; '
        'distinct = hash of the case')
RULE = RULE + ' ' + 'Also every value/string spelling as a parameter declared with array syntax (T x[], T x[4], const T x[], T *x[], const T *x[]), compared with the pointer spelling C adjusts it to.'
ASSUMPTIONS = [
    'substrate P: cmodel.to_symbols mirrors scannerparser.y (DESIGN appendix D)',
    'closure/destroy pairing is asserted only for the unambiguous adjacent arrangement (callback, user_data[, destroy]); '
    'other arrangements are executed but only the negative clauses are asserted',
    'c:type is compared modulo white space',
]
TECHNIQUE = 'exhaustive table sweep + property-based testing (Hypothesis) of parameter arrangements on the scanner pipeline behind a stub front end; hand-written default table as oracle'
LEVEL_TEXT = ('Exhaustive over the listed type spellings and positions; randomised over parameter arrangements. The oracle is a '
              'hand-written default table, so a disagreement is either a defect or a documented-default question that is reviewed.')
LEVEL_NOTE = 'trusts the symbol-tree model of the C front end (DESIGN 1.2) and the small fixture GIRs standing in for GLib/GObject/Gio'
DESIGN_REF = 'DESIGN.md section 2, C02'

NS = {'name': 'Foo', 'version': '1.0', 'id_prefixes': ['Foo'], 'sym_prefixes': ['foo']}
GI = '{http://www.gtk.org/introspection/core/1.0}'
C = '{http://www.gtk.org/introspection/c/1.0}'

# spelling -> GIR fundamental name (value types)
VALUE_TYPES = {
    'int': 'gint', 'signed int': 'gint', 'signed': 'gint', 'unsigned int': 'guint', 'unsigned': 'guint',
    'short': 'gshort', 'signed short': 'gshort', 'unsigned short': 'gushort', 'unsigned short int': 'gushort',
    'long': 'glong', 'signed long': 'glong', 'unsigned long': 'gulong', 'unsigned long int': 'gulong',
    'char': 'gchar', 'signed char': 'gint8', 'unsigned char': 'guint8',
    'float': 'gfloat', 'double': 'gdouble', '_Bool': 'gboolean', 'bool': 'gboolean',
    'int8_t': 'gint8', 'uint8_t': 'guint8', 'int16_t': 'gint16', 'uint16_t': 'guint16',
    'int32_t': 'gint32', 'uint32_t': 'guint32', 'int64_t': 'gint64', 'uint64_t': 'guint64',
    'size_t': 'gsize', 'ssize_t': 'gssize', 'intptr_t': 'gintptr', 'uintptr_t': 'guintptr',
    'gint': 'gint', 'guint': 'guint', 'gshort': 'gshort', 'gushort': 'gushort', 'glong': 'glong',
    'gulong': 'gulong', 'gchar': 'gchar', 'guchar': 'guint8', 'gint8': 'gint8', 'guint8': 'guint8',
    'gint16': 'gint16', 'guint16': 'guint16', 'gint32': 'gint32', 'guint32': 'guint32', 'gint64': 'gint64',
    'guint64': 'guint64', 'gfloat': 'gfloat', 'gdouble': 'gdouble', 'gboolean': 'gboolean', 'gsize': 'gsize',
    'gssize': 'gssize', 'goffset': 'gint64', 'gintptr': 'gintptr', 'guintptr': 'guintptr',
    'gunichar': 'gunichar', 'gunichar2': 'guint16', 'GType': 'GType',
}
BASIC_WORDS = set(['int', 'signed int', 'signed', 'unsigned int', 'unsigned', 'short', 'signed short', 'unsigned short',
                   'unsigned short int', 'long', 'signed long', 'unsigned long', 'unsigned long int', 'char', 'signed char',
                   'unsigned char', 'float', 'double', '_Bool', 'bool'])
STRING_SPELLINGS = ['char', 'gchar']
POSITIONS = ['param', 'return', 'field', 'alias']


def _t(spelling, q=0, ptrs=()):
    if spelling == 'void':
        return ty('void', 'void', q, ptrs)
    return ty(spelling, 'basic' if spelling in BASIC_WORDS else 'typedef', q, ptrs)


def _table_cases():
    cases = []
    for sp in sorted(VALUE_TYPES):
        for pos in POSITIONS:
            for variant in ('plain', 'const', 'ptr', 'constptr'):
                if pos == 'alias' and variant != 'plain':
                    continue
                cases.append({'kind': 'table', 'spelling': sp, 'pos': pos, 'variant': variant})
    for sp in STRING_SPELLINGS:
        for pos in ('param', 'return', 'field'):
            for variant in ('str', 'conststr', 'strv'):
                cases.append({'kind': 'table', 'spelling': sp, 'pos': pos, 'variant': variant})
    # returned values spelled through a typedef declared in the scanned header
    for target in ('conststr', 'str', 'guint32', 'gpointer'):
        for depth in (1, 2):
            cases.append({'kind': 'table', 'spelling': 'typedef:' + target, 'pos': 'return', 'variant': 'alias%d' % depth})
    for sp in ('gpointer', 'gconstpointer', 'void*', 'constvoid*'):
        for pos in ('param', 'return', 'field'):
            cases.append({'kind': 'table', 'spelling': sp, 'pos': pos, 'variant': 'untyped'})
    # parameters declared with array syntax: C adjusts `T x[]`, `T x[N]` to `T *x` (and `T *x[]` to `T **x`), so the
    # description must be the one of the pointer spelling, c:type included
    for sp in sorted(VALUE_TYPES) + list(STRING_SPELLINGS):
        for variant in ('arr', 'arr4', 'constarr', 'ptrarr', 'constptrarr'):
            cases.append({'kind': 'table', 'spelling': sp, 'pos': 'param', 'variant': variant})
    return cases


def _norm_ctype(s):
    return (s or '').replace(' ', '')


def _spell(t):
    return _norm_ctype(cmodel.decl_text(t, ''))


def _run(decls, comments, ctx, includes=('Gio-2.0',)):
    case = {'ns': NS, 'includes': list(includes), 'decls': decls, 'comments': comments, 'dump': None}
    try:
        res = pipeline.run(case, ctx.mkscratch())
    except Exception as e:
        raise Violation(crash_clause(e), repr(e))
    if res.fatal is not None:
        raise Violation('fatal-on-valid-input', res.fatal[:300])
    root = ET.fromstring(res.gir)
    return root.find(GI + 'namespace'), res


def _typeinfo(el):
    """(kind, name, ctype, child) of the <type>/<array> under a value element."""
    t = el.find(GI + 'type')
    if t is not None:
        return 'type', t.get('name'), t.get(C + 'type'), t
    a = el.find(GI + 'array')
    if a is not None:
        return 'array', a.get('name'), a.get(C + 'type'), a
    return None, None, None, None


def _check_alias_return(case, ctx):
    """`typedef const char *FooName; FooName foo_f (void);`: the defaults of the statement apply to the type the
    typedef stands for (returned const values and basic types are not transferred, non-const strings are)."""
    target = case['spelling'].split(':', 1)[1]
    depth = int(case['variant'][-1])
    base = {'conststr': _t('char', q=CONST, ptrs=[0]), 'str': _t('char', ptrs=[0]), 'guint32': _t('guint32'),
            'gpointer': _t('gpointer')}[target]
    decls = [{'d': 'typedef', 'name': 'FooName', 'type': base}]
    used = 'FooName'
    if depth == 2:
        decls.append({'d': 'typedef', 'name': 'FooName2', 'type': _t('FooName')})
        used = 'FooName2'
    decls.append({'d': 'function', 'name': 'foo_f', 'ret': _t(used), 'params': []})
    ns, res = _run(decls, [], ctx, includes=('GLib-2.0',))
    f = ns.find(GI + 'function')
    if f is None:
        raise Violation('function-missing', used)
    rv = f.find(GI + 'return-value')
    kind, name, ctype, tel = _typeinfo(rv)
    if name != used[3:]:
        raise Violation('alias-return-type-name', '%s: %r' % (used, name))
    exp = {'conststr': 'none', 'str': 'full', 'guint32': 'none', 'gpointer': 'none'}[target]
    tr = rv.get('transfer-ownership')
    if tr != exp and depth == 2 and ctx.known('return-transfer:alias-of-alias'):
        pass
    elif tr != exp:
        raise Violation('return-transfer-through-typedef', 'typedef of %s (depth %d) returned: transfer %r, expected %s'
                        % (target, depth, tr, exp))
    ctx.label('table:alias-return')
    ctx.note_nontrivial(case)


def _check_array_param(case, ctx):
    sp, variant = case['spelling'], case['variant']
    q = CONST if variant.startswith('const') else 0
    inner = [0] if 'ptrarr' in variant else []
    arr = dict(_t(sp, q=q, ptrs=inner), dims=[4 if variant == 'arr4' else None])
    ptr = _t(sp, q=q, ptrs=inner + [0])
    got = []
    for t in (arr, ptr):
        decls = [{'d': 'function', 'name': 'foo_f', 'ret': ty('void', 'void'), 'params': [param('x', t)]}]
        ns, res = _run(decls, [], ctx, includes=('GLib-2.0',))
        f = ns.find(GI + 'function')
        el = None if f is None else f.find(GI + 'parameters/' + GI + 'parameter')
        if el is None:
            raise Violation('element-missing', '%s as parameter' % cmodel.decl_text(t, 'x').strip())
        kind, name, ctype, tel = _typeinfo(el)
        inner_t = None if tel is None or tel.find(GI + 'type') is None else tel.find(GI + 'type').get('name')
        got.append([kind, name, _norm_ctype(ctype), inner_t, el.get('transfer-ownership'), el.get('direction'), f.get('introspectable')])
    if got[0] != got[1]:
        raise Violation('array-declared-parameter-differs-from-pointer', '%s -> %r but %s -> %r'
                        % (cmodel.decl_text(arr, 'x').strip(), got[0], cmodel.decl_text(ptr, 'x').strip(), got[1]))
    ctx.label('table:array-param')
    ctx.note_nontrivial(case)


def _check_table(case, ctx):
    sp, pos, variant = case['spelling'], case['pos'], case['variant']
    if sp.startswith('typedef:'):
        return _check_alias_return(case, ctx)
    if variant in ('arr', 'arr4', 'constarr', 'ptrarr', 'constptrarr'):
        return _check_array_param(case, ctx)
    if variant == 'plain':
        t = _t(sp)
    elif variant == 'const':
        t = _t(sp, q=CONST)
    elif variant == 'ptr':
        t = _t(sp, ptrs=[0])
    elif variant == 'constptr':
        t = _t(sp, q=CONST, ptrs=[0])
    elif variant == 'str':
        t = _t(sp, ptrs=[0])
    elif variant == 'conststr':
        t = _t(sp, q=CONST, ptrs=[0])
    elif variant == 'strv':
        t = _t(sp, ptrs=[0, 0])
    else:
        t = {'gpointer': _t('gpointer'), 'gconstpointer': _t('gconstpointer'),
             'void*': _t('void', ptrs=[0]), 'constvoid*': _t('void', q=CONST, ptrs=[0])}[sp]
    spelled = _spell(t)
    decls = []
    if pos == 'param':
        decls.append({'d': 'function', 'name': 'foo_f', 'ret': ty('void', 'void'), 'params': [param('x', t)]})
    elif pos == 'return':
        decls.append({'d': 'function', 'name': 'foo_f', 'ret': t, 'params': []})
    elif pos == 'field':
        decls.append({'d': 'compound', 'kind': 'struct', 'tag': '_FooRec', 'typedef': 'FooRec',
                      'fields': [{'name': 'x', 'type': t}]})
    else:
        decls.append({'d': 'typedef', 'name': 'FooAlias', 'type': t})
    ns, res = _run(decls, [], ctx, includes=('GLib-2.0',))
    if pos in ('param', 'return'):
        f = ns.find(GI + 'function')
        if f is None:
            raise Violation('function-missing', spelled)
        el = f.find(GI + 'return-value') if pos == 'return' else f.find(GI + 'parameters/' + GI + 'parameter')
    elif pos == 'field':
        rec = ns.find(GI + 'record')
        el = rec.find(GI + 'field') if rec is not None else None
    else:
        el = ns.find(GI + 'alias')
        if sp in ('gint', 'guint') and el is None:
            pass
    if el is None:
        raise Violation('element-missing', '%s in %s position' % (spelled, pos))
    kind, name, ctype, tel = _typeinfo(el)
    is_string = variant in ('str', 'conststr') or (sp in ('char', 'gchar') and variant in ('ptr', 'constptr'))
    is_const = variant in ('const', 'constptr', 'conststr') or sp in ('gconstpointer', 'constvoid*')
    # --- type name
    if variant == 'strv':
        if pos == 'return':
            if kind != 'array' or tel.find(GI + 'type') is None or tel.find(GI + 'type').get('name') != 'utf8':
                raise Violation('returned-strv-not-array-of-utf8', '%s: %s %s' % (spelled, kind, name))
    elif is_string:
        if (kind, name) != ('type', 'utf8'):
            raise Violation('string-type', '%s in %s: %s %s' % (spelled, pos, kind, name))
    elif variant == 'untyped':
        if (kind, name) != ('type', 'gpointer'):
            raise Violation('untyped-pointer-type', '%s in %s: %s %s' % (spelled, pos, kind, name))
    elif sp in ('bool', '_Bool') and variant in ('ptr', 'constptr'):
        # undecided: the statement maps _Bool *values* to gboolean; a pointer to _Bool is not
        # ABI compatible with gboolean* and the scanner leaves it unresolved on purpose
        ctx.label('undecided:pointer-to-bool')
    else:
        exp = VALUE_TYPES[sp]
        if (kind, name) != ('type', exp):
            raise Violation('fundamental-type-name', '%s in %s position (%s): expected %s got %s %s'
                            % (sp, pos, variant, exp, kind, name))
    # --- c:type keeps the original spelling incl. const
    if _norm_ctype(ctype) != spelled:
        key = 'ctype-spelling'
        if sp == 'constvoid*':
            key = 'ctype-spelling:const-void'
        if not ctx.known(key):
            raise Violation(key, '%s in %s position: c:type %r, declared %r' % (sp, pos, ctype, cmodel.decl_text(t, '').strip()))
    # --- defaults
    if pos == 'param':
        if el.get('transfer-ownership') != 'none':
            raise Violation('in-parameter-transfer', '%s: %r' % (spelled, el.get('transfer-ownership')))
        if el.get('direction') not in (None, 'in'):
            raise Violation('unannotated-direction', '%s: %r' % (spelled, el.get('direction')))
    if pos == 'return':
        tr = el.get('transfer-ownership')
        pointerless = variant in ('plain', 'const')
        if pointerless or is_const:
            if tr != 'none':
                raise Violation('return-transfer-basic-or-const', '%s: %r' % (spelled, tr))
        elif is_string:
            if tr != 'full':
                raise Violation('return-transfer-string', '%s: %r' % (spelled, tr))
    if variant == 'untyped' and pos in ('param', 'return'):
        if el.get('nullable') != '1':
            raise Violation('untyped-pointer-not-nullable', '%s in %s' % (spelled, pos))
    ctx.label('table:' + pos)
    if variant != 'plain':
        ctx.note_nontrivial(case)


# ------------------------------------------------------------------ arrangements
ROLES = ['int', 'str', 'cstr', 'user_data', 'data', 'otherptr', 'intdata', 'cb', 'destroy', 'async', 'cancellable',
         'error', 'rec', 'strv', 'outint', 'outstr', 'outrec', 'inoutint']
RET_ROLES = ['void', 'int', 'str', 'cstr', 'strv', 'gpointer', 'bool', 'enum']


def _role_type(r):
    return {
        'int': _t('int'), 'str': _t('char', ptrs=[0]), 'cstr': _t('char', q=CONST, ptrs=[0]),
        'user_data': _t('gpointer'), 'data': _t('gpointer'), 'otherptr': _t('gpointer'), 'intdata': _t('int'),
        'cb': _t('FooCallback'), 'destroy': _t('GDestroyNotify'), 'async': _t('GAsyncReadyCallback'),
        'cancellable': _t('GCancellable', ptrs=[0]), 'error': _t('GError', ptrs=[0, 0]), 'rec': _t('FooRec', ptrs=[0]),
        'strv': _t('char', ptrs=[0, 0]), 'outint': _t('int', ptrs=[0]), 'outstr': _t('char', ptrs=[0, 0]),
        'outrec': _t('FooRec', ptrs=[0]), 'inoutint': _t('int', ptrs=[0]),
        'void': ty('void', 'void'), 'gpointer': _t('gpointer'), 'bool': _t('gboolean'), 'enum': _t('FooKind'),
    }[r]


_ROLE_NAME = {'user_data': 'user_data', 'data': 'data', 'otherptr': 'other', 'intdata': 'extra_data', 'cb': 'callback',
              'destroy': 'notify', 'async': 'ready', 'cancellable': 'cancellable', 'error': 'error'}


@st.composite
def _arrangement(draw):
    n = draw(st.integers(0, 7))
    roles = draw(st.lists(st.sampled_from(ROLES), min_size=n, max_size=n))
    # bias towards the classic triples
    if draw(st.integers(0, 2)) == 0:
        i = draw(st.integers(0, len(roles)))
        trip = draw(st.sampled_from([['cb', 'user_data'], ['cb', 'user_data', 'destroy'], ['cb', 'destroy'],
                                     ['cancellable', 'async', 'user_data'], ['cb', 'data'], ['cb', 'intdata'],
                                     ['cb', 'destroy', 'user_data'], ['cb', 'int', 'user_data'], ['cb', 'destroy', 'int', 'data'],
                                     ['user_data', 'cb'], ['cb', 'otherptr']]))
        roles[i:i] = trip
    if draw(st.integers(0, 2)) == 0:
        roles.append('error')
    kind = draw(st.sampled_from(['function', 'function', 'method', 'callback']))
    return {'kind': 'arr', 'roles': roles, 'ret': draw(st.sampled_from(RET_ROLES)), 'callable': kind}


def _check_arrangement(case, ctx):
    roles = case['roles']
    decls = [
        {'d': 'enum', 'name': 'FooKind', 'tag': None, 'flags': False,
         'members': [{'name': 'FOO_KIND_A', 'value': None}, {'name': 'FOO_KIND_B', 'value': None}]},
        {'d': 'compound', 'kind': 'struct', 'tag': '_FooRec', 'typedef': 'FooRec', 'fields': [{'name': 'v', 'type': _t('int')}]},
        {'d': 'callback', 'name': 'FooCallback', 'ret': ty('void', 'void'),
         'params': [param('v', _t('int')), param('user_data', _t('gpointer'))]},
    ]
    params = []
    names = []
    ann = []
    for i, r in enumerate(roles):
        nm = _ROLE_NAME.get(r, 'p') + str(i)
        if r in ('user_data', 'data', 'intdata'):
            nm = {'user_data': 'user_data', 'data': 'data', 'intdata': 'extra_data'}[r] if nm not in names else nm
            if r == 'user_data' and 'user_data' in names:
                nm = 'more%d_user_data' % i
            if r == 'data' and 'data' in names:
                nm = 'other%d_data' % i
            if r == 'intdata' and 'extra_data' in names:
                nm = 'int%d_data' % i
        names.append(nm)
        params.append(param(nm, _role_type(r)))
        if r in ('outint', 'outstr'):
            ann.append(' * @%s: (out):' % nm)
        elif r == 'outrec':
            ann.append(' * @%s: (out caller-allocates):' % nm)
        elif r == 'inoutint':
            ann.append(' * @%s: (inout):' % nm)
    method = case['callable'] == 'method'
    cname = 'foo_rec_do' if method else 'foo_do'
    if method:
        params = [param('self', _t('FooRec', ptrs=[0]))] + params
    if case['callable'] == 'callback':
        decls.append({'d': 'callback', 'name': 'FooDoFunc', 'ret': _role_type(case['ret']), 'params': params})
        cname = 'FooDoFunc'
    else:
        decls.append({'d': 'function', 'name': cname, 'ret': _role_type(case['ret']), 'params': params})
    comments = []
    if ann:
        comments.append(['/**\n * %s:\n%s\n */' % (cname, '\n'.join(ann)), '/src/foo.c', 1])
    ns, res = _run(decls, comments, ctx)
    if case['callable'] == 'callback':
        el = [e for e in ns.findall(GI + 'callback') if e.get(C + 'type') == 'FooDoFunc']
    elif method:
        rec = ns.find(GI + 'record')
        el = [e for e in rec.findall(GI + 'method') if e.get(C + 'identifier') == cname]
    else:
        el = [e for e in ns.findall(GI + 'function') if e.get(C + 'identifier') == cname]
    if len(el) != 1:
        raise Violation('callable-missing', '%s %s found %d times' % (case['callable'], cname, len(el)))
    el = el[0]
    pels = el.findall(GI + 'parameters/' + GI + 'parameter')
    # --- trailing GError**
    exp_roles = list(roles)
    exp_names = list(names)
    throws = bool(roles) and roles[-1] == 'error'
    if throws:
        exp_roles.pop()
        exp_names.pop()
    if (el.get('throws') == '1') != throws:
        raise Violation('throws-flag', 'roles %r: throws=%r' % (roles, el.get('throws')))
    got_names = [p.get('name') for p in pels]
    if got_names != exp_names:
        raise Violation('parameter-list', 'roles %r: expected parameters %r got %r' % (roles, exp_names, got_names))
    has_cb = any(r in ('cb', 'async') for r in exp_roles)
    for i, (r, p) in enumerate(zip(exp_roles, pels)):
        where = 'roles %r parameter %d (%s)' % (roles, i, r)
        tr = p.get('transfer-ownership')
        # transfer defaults
        if r in ('outint', 'outstr', 'inoutint'):
            if p.get('direction') != ('inout' if r == 'inoutint' else 'out'):
                raise Violation('direction-annotation-lost', where)
            if tr != 'full':
                raise Violation('out-transfer-default', '%s: %r' % (where, tr))
        elif r == 'outrec':
            if p.get('caller-allocates') != '1' or tr != 'none':
                raise Violation('caller-allocates-transfer-default', '%s: caller-allocates=%r transfer=%r' % (where, p.get('caller-allocates'), tr))
        else:
            if tr != 'none':
                raise Violation('in-parameter-transfer', '%s: %r' % (where, tr))
        # closure / destroy / scope
        clo, des, scope = p.get('closure'), p.get('destroy'), p.get('scope')
        if r == 'async':
            if 'destroy' in exp_roles[i + 1:]:
                ctx.label('undecided:async-then-destroy')
            elif scope != 'async':
                raise Violation('async-ready-scope', '%s: scope=%r' % (where, scope))
        if r == 'cb':
            nxt = exp_roles[i + 1] if i + 1 < len(exp_roles) else None
            nxt2 = exp_roles[i + 2] if i + 2 < len(exp_roles) else None
            seg = []
            for rr in exp_roles[i + 1:]:
                if rr in ('cb', 'async'):
                    break
                seg.append(rr)
            ncand = sum(1 for rr in seg if rr in ('user_data', 'data'))
            cand = [j for j, rr in enumerate(seg) if rr in ('user_data', 'data')]
            dest = [j for j, rr in enumerate(seg) if rr == 'destroy']
            # "a user_data pointer following a callback becomes its closure, a destroy-notify following it
            # becomes its destroy": asserted when the segment up to the next callback holds exactly one
            # candidate of each kind (several candidates: the statement does not say which - undecided)
            if len(cand) == 1:
                if clo != str(i + 1 + cand[0]):
                    raise Violation('closure-not-paired', '%s: segment %r: closure=%r' % (where, seg, clo))
                ctx.label('pair')
            elif len(cand) > 1:
                ctx.label('undecided:several-user-data')
            if len(dest) == 1:
                if des != str(i + 1 + dest[0]) or scope != 'notified':
                    raise Violation('destroy-not-paired', '%s: segment %r: destroy=%r scope=%r' % (where, seg, des, scope))
                if len(cand) == 1:
                    ctx.label('triple')
                    if cand[0] > dest[0]:
                        ctx.label('triple:destroy-before-data')
            elif len(dest) > 1:
                ctx.label('undecided:several-destroy')
        if clo is not None and r in ('cb', 'async'):
            tgt = int(clo)
            if not (0 <= tgt < len(exp_roles)):
                raise Violation('closure-index-range', '%s: closure=%s' % (where, clo))
            if exp_roles[tgt] not in ('user_data', 'data', 'otherptr'):
                raise Violation('closure-on-non-pointer', '%s: closure=%s names a %s' % (where, clo, exp_roles[tgt]))
            if tgt < i and not any(x in ('cb', 'async') for x in exp_roles[:tgt]):
                raise Violation('closure-before-callback', '%s: closure=%s' % (where, clo))
        if des is not None:
            tgt = int(des)
            if not (0 <= tgt < len(exp_roles)) or exp_roles[tgt] != 'destroy':
                raise Violation('destroy-index', '%s: destroy=%s' % (where, des))
        if not has_cb and r not in ('destroy',) and (clo is not None or des is not None or scope is not None) \
                and case['callable'] != 'callback':
            raise Violation('callback-attributes-without-callback', '%s: closure=%r destroy=%r scope=%r' % (where, clo, des, scope))
        # untyped pointers are nullable
        if r in ('user_data', 'data', 'otherptr') and p.get('nullable') != '1':
            raise Violation('untyped-pointer-not-nullable', where)
        if r in ('int', 'intdata') and (p.get('nullable') or p.get('allow-none')):
            raise Violation('nullable-on-basic', where)
    # --- return defaults
    rv = el.find(GI + 'return-value')
    rtr = rv.get('transfer-ownership')
    exp_rtr = {'void': 'none', 'int': 'none', 'bool': 'none', 'enum': 'none', 'cstr': 'none', 'str': 'full',
               'gpointer': 'none'}.get(case['ret'])
    if exp_rtr is not None and rtr != exp_rtr:
        raise Violation('return-transfer-default', 'return role %s: %r (expected %s)' % (case['ret'], rtr, exp_rtr))
    if case['ret'] == 'strv':
        kind, name, ctype, tel = _typeinfo(rv)
        if kind != 'array' or tel.find(GI + 'type').get('name') != 'utf8':
            raise Violation('returned-strv-not-array-of-utf8', '%s %s' % (kind, name))
    if case['ret'] == 'gpointer' and rv.get('nullable') != '1':
        raise Violation('untyped-pointer-not-nullable', 'return value')
    ctx.label('arr:' + case['callable'])
    if throws:
        ctx.label('throws')
    if 'error' in exp_roles:
        ctx.label('non-trailing-error')
    if any(r in ('cb', 'async', 'str', 'cstr', 'rec', 'strv', 'outint', 'outstr') for r in roles):
        ctx.note_nontrivial(case)
        ctx.sample({'header': cmodel.to_header_text(decls[3:]), 'comments': [c[0] for c in comments]}, 3)


def check_case(case, ctx):
    if case['kind'] == 'table':
        return _check_table(case, ctx)
    return _check_arrangement(case, ctx)


def plan(tier):
    n = 120 if tier == 'quick' else 3000
    return [{'n': n, 'part': i} for i in range(16)]


def run_shard(ctx, spec):
    table = _table_cases()
    mine = table[spec['part']::16]
    for c in mine:
        ctx.run_case(c, reraise=False)
    ctx.extra['table_rows'] = len(mine)
    ctx.extra['exhaustive'] = True
    ctx.extra['exhaustive_part'] = 'type spelling table (%d rows); arrangements are sampled' % len(table)
    ctx.hyp(_arrangement(), spec['n'])


def health(agg, tier):
    probs = []
    ev = max(1, agg['evals'])
    for lab, cnt in (('triple', 20), ('pair', 20), ('throws', 50), ('non-trailing-error', 20), ('arr:method', 50),
                     ('arr:callback', 50), ('table:alias', 30)):
        if agg['labels'].get(lab, 0) < cnt:
            probs.append('%s only %d times' % (lab, agg['labels'].get(lab, 0)))
    return probs
