"""C11 - comment parsing never aborts; diagnostics point at the source.

Case kinds (all JSON-able, all evaluated by check_case):

  text   arbitrary text X (full Unicode or a "grammar soup" of comment tokens)
  mut    a base block (an upstream fixture input or a rendered C10 model) and a
         list of grammar-aware mutation operators applied to its text
  half   a rendered well-formed model with the LAST annotation-bearing line of
         one part corrupted (clause 2: not half-applied)
  shift  a rendered model with a fault on a parameter/tag line, parsed before
         and after inserting k lines above the fault (clause 3: metamorphic)
  main   X pushed through scannermain.scanner_main with a stubbed source
         scanner (clause 4: --warn-error fails exactly when something was logged)

For every kind the final text X goes through the common oracles: clause 1
(no exception, neighbours untouched), clause 3 (file name, line range, quoted
line) and clause 4 (counting with warnings enabled / disabled / strict).
"""
import contextlib
import io
import os
import re
import sys
import types

from hypothesis import strategies as st

from vlib.runner import Violation, Discard, HarnessError, REPO
from vlib import blockmodel as bm

ID = 'C11'
LEVEL = 'exploration'
RULE = ('X = arbitrary Unicode text (raw, or wrapped in comment tokens), a "grammar soup" of comment tokens, or a '
        'grammar-aware mutation (delete/duplicate/insert parentheses, colons, "@", "*", "="; duplicate/delete/swap '
        'lines; tag-word replacement incl. deprecated tag-style forms; inserted deprecated/duplicate parameter and tag '
        'lines; text before "/**" and after "*/"; one-line and empty blocks; line-ending changes) of an upstream '
        'fixture input or of a rendered C10 block model; parsed between two well-formed neighbour blocks; plus '
        'targeted "corrupt the last annotation line of a part" and "insert k lines above a fault" cases and a '
        'scanner_main --warn-error run with a stubbed source scanner; non-trivial = X produced at least one '
        'diagnostic and X\'s own block survived; distinct = hash of the case')
RULE = RULE + ' ' + "A hit of the parser's catch-all ('unrecoverable parse error') is a violation; the thorough tier adds a coverage-guided stage (atheris over the same strategy)."
ASSUMPTIONS = [
    'diagnostics are observed by a MessageLogger subclass that records every log() call and then delegates to the '
    'code under test; MessageLogger._instance is replaced at the top of every parse',
    'the two carve-outs of the statement are decided from the input text alone: "/**" alone on the first line; no '
    'line that starts (after the asterisk) with a deprecated tag-style annotation word followed by a colon',
    'an internal exception converted by the catch-all of parse_comment_blocks into the "please file a bug" error IS a '
    'violation: the whole block is dropped, so the malformed annotation was not merely ignored (this was tolerated until the one '
    'shape that reached it on the unchanged tree, a valueless (copy-func)/(free-func), was repaired in /repo)',
    'scanner_main is driven with create_source_scanner/write_output replaced and a stub giscanner._giscanner '
    'module; one constant symbol keeps the namespace non-empty',
    'two shapes found on the unchanged tree are excluded from the position oracle by construction and counted '
    '(excluded:F2-*, excluded:F3-*), see report',
]
TECHNIQUE = ('property-based testing / fuzzing (Hypothesis): crash and contamination oracle between well-formed '
             'neighbours, position oracle against the source lines, metamorphic line-shift relation, '
             'three-mode counting oracle, scanner_main --warn-error with a stubbed pipeline')
LEVEL_TEXT = ('Randomised search over arbitrary and grammar-aware malformed inputs; every run reports how many inputs '
              'produced diagnostics, hit the catch-all, and had their quoted line checked. No exhaustive core.')
LEVEL_NOTE = 'position oracle restricted by the statement\'s two carve-outs; two known shapes excluded and counted'
DESIGN_REF = 'DESIGN.md section 2, C11'

sys.path.insert(0, REPO)
os.environ['GI_SCANNER_DISABLE_CACHE'] = '1'
AP = bm.AP
MSG = bm.MSG

FX, SX = '/src/c11/x.c', 40           # file name and start line given for X
NEIGHBOURS = [
    '/**\n * verif_neighbour_0:\n * @a: (out) (optional): first\n * @b: (array length=n) (element-type utf8): second\n'
    ' * @n: length\n *\n * Description of\n * neighbour zero.\n *\n * Returns: (transfer full) (nullable): a thing\n'
    ' * Since: 2.0\n */',
    '/**\n * VerifNeighbour1::some-signal: (skip)\n * @self: the object\n *\n * Paragraph one.\n *\n *   indented\n */',
    '/**\n * VerifNeighbour2:prop:\n *   (type GLib.List(utf8))\n *   (transfer container)\n *\n * A property.\n *\n'
    ' * Deprecated: 3.0: use something else\n * Stability: Unstable\n */',
    '/**\n * SECTION:verif_neighbour_3\n * @short_description: short\n * @title: Title\n *\n * Long.\n */',
    '\t/**\r\n\t * verif_neighbour_4:\r\n\t * @...: (attributes a.b=c d): varargs\r\n\t *\r\n\t * Returns:\r\n'
    '\t *   (array zero-terminated=1)\r\n\t *   (transfer none): strings\r\n\t **/',
    '/**\n * verif_neighbour_5\n */',
]
NAMES = ['verif_neighbour_0', 'VerifNeighbour1::some-signal', 'VerifNeighbour2:prop', 'SECTION:verif_neighbour_3',
         'verif_neighbour_4', 'verif_neighbour_5']

_LINE_BREAK = re.compile(r'\r\n|\r|\n')
_START_ALONE = re.compile(r'^\s*/\*\*\s*$')
_DEP_TAGSTYLE = re.compile(r'^\s*(%s)\s*:' % '|'.join(w.replace(' ', r'\s+') for w in bm.DEPRECATED_ANN_TAG_WORDS),
                           re.I)
_END_ONLY = re.compile(r'^\s*\*+/')
_VALIDATE_MSG = re.compile(r'^(unknown annotation|unexpected annotation|invalid "|"[\w-]+" annotation |cannot have both)')


# ------------------------------------------------------------------ mutation operators
TAGWORDS = ['Returns', 'Since', 'Deprecated', 'Stability', 'Return value', 'Returns value', 'Return', 'Description',
            'Attributes', 'Rename to', 'Type', 'Transfer', 'Virtual', 'Value', 'Get value func', 'Set value func',
            'Ref func', 'Unref func', 'returns', 'SINCE']
SNIPPETS = [' * @returns: (transfer full): the result', ' * @Varargs: more', ' * @args...: more', ' * @x: again',
            ' * Returns: (skip): twice', ' * Since: 9.9', ' * Since: (skip): 1.0', ' * Rename to: other_name',
            ' * Attributes: (a b) (c d)', ' * Attributes: (a b c)', ' * Type: utf8', ' * Transfer: full',
            ' * Virtual: slot', ' * Value: 1 << 2', ' * Description: old style', ' * Return value: (allow-none): x',
            ' * Returns value: y', ' * Stability: wobbly', ' * Deprecated: yes', ' *', ' * ', '', 'no star here',
            ' * plain text', ' * (skip)', ' * (frobnicate 1 2)', ' * (attribute a b c)', ' * (attribute a)',
            ' * (in-out)', ' * (copy-func)', ' * (free-func)', ' * (type a=b)', ' * @p: (array foo=bar fixed-size=x): d',
            ' * @q: (transfer) (scope never) (not maybe): d', ' * @r: (nullable) (not nullable): d',
            ' * @s: (element-type) (destroy a b): d', ' * @t: (out in) desc', ' * @u (skip): no colon',
            ' * @v: (type GLib.List<utf8>): old syntax', ' * foo text */ int x;', ' /** nested start', ' * @:',
            ' * @w: ((', ' * @w2: ()', ' * @w3: (skip))', ' * @w4: (a (b (c))) d', ' * SECTION:again',
            ' * Foo::bar: (skip)', ' * Get value func: f', ' * Unref func: g', ' * Attributes:']
TOKS = ['(', ')', ':', '@', '*', '=', ' ', '((', '))', '()', '::', ': :', '(skip)', '(skip', 'skip)', '(attribute a b c)',
        '(in-out)', '(copy-func)', '(free-func)', '(array length)', '(array fixed-size)', '(not)', '(out x)', 'Returns:',
        'Since:', 'Attributes:', 'Rename to:', '...', '<', '>', '\t', '/**', '*/', '/*', 'é', ' ', '\x0b', '\x00',
        '(type utf8):', '@x:', '(transfer full full)', '(scope)', '(element-type a b c)', '(foreign x)', '\x85']
CHARCLASS = '():@*=.|'
EOLS = ['\n', '\r\n', '\r']


def apply_ops(text, ops):
    """Deterministic text mutation. Every operand is taken modulo what is available."""
    for op, a, b in ops:
        lines = _LINE_BREAK.split(text)
        eol = '\r\n' if '\r\n' in text else ('\r' if '\r' in text and '\n' not in text else '\n')
        op = op % 15
        if op in (0, 1):
            c = CHARCLASS[b % len(CHARCLASS)]
            occ = [i for i, ch in enumerate(text) if ch == c]
            if not occ:
                continue
            i = occ[a % len(occ)]
            text = text[:i] + text[i + 1:] if op == 0 else text[:i] + c + text[i:]
            continue
        if op == 2:
            tok = TOKS[b % len(TOKS)]
            i = a % (len(text) + 1)
            text = text[:i] + tok + text[i:]
            continue
        if op == 3:
            # insert a token at a structurally interesting place of one line
            li = a % len(lines)
            l = lines[li]
            tok = TOKS[b % len(TOKS)]
            places = [len(l)] + [i for i, ch in enumerate(l) if ch in '():@'] + [i + 1 for i, ch in enumerate(l) if ch in '():']
            i = places[(a // 7 + b) % len(places)]
            lines[li] = l[:i] + tok + l[i:]
        elif op == 4:
            li = a % len(lines)
            lines.insert(li, lines[li])
        elif op == 5:
            if len(lines) > 1:
                del lines[a % len(lines)]
        elif op == 6:
            if len(lines) > 1:
                li = a % (len(lines) - 1)
                lines[li], lines[li + 1] = lines[li + 1], lines[li]
        elif op == 7:
            cand = [i for i, l in enumerate(lines) if bm._TAGLIKE.match(l.lstrip().lstrip('*'))]
            if not cand:
                lines.insert(1 + a % len(lines), SNIPPETS[b % len(SNIPPETS)])
            else:
                li = cand[a % len(cand)]
                m = bm._TAGLIKE.match(lines[li].lstrip().lstrip('*'))
                lines[li] = lines[li].replace(m.group(1), TAGWORDS[b % len(TAGWORDS)], 1)
        elif op == 8:
            lines.insert(1 + a % len(lines), SNIPPETS[b % len(SNIPPETS)])
        elif op == 9:
            pre = ['int x; ', 'foo ', '/* */ ', 'é ', '\t', 'code(); '][b % 6]
            if a % 2:
                lines[0] = pre + lines[0]
            else:
                lines[0] = lines[0] + ' ' + ['text after start', 'foo:', '(skip)', '@x: y', 'é'][b % 5]
        elif op == 10:
            suf = [' int x;', ' more */', ' foo', '/', ' /**'][b % 5]
            if a % 2:
                lines[-1] = lines[-1] + suf
            else:
                i = lines[-1].rfind('*/')
                if i >= 0:
                    lines[-1] = lines[-1][:i] + ['text ', '(skip ', 'Returns: (x ', '@p: ', 'é '][b % 5] + lines[-1][i:]
        elif op == 11:
            k = b % 4
            if k == 0:
                lines = [' '.join(l.strip() for l in lines)]
            elif k == 1:
                lines = lines[:1 + a % len(lines)]
            elif k == 2:
                lines = [lines[0], lines[-1]]
            else:
                lines = [lines[0].rstrip() + lines[-1].lstrip()]
        elif op == 12:
            eol = EOLS[b % 3]
        elif op == 14:
            # valueless copy-func/free-func on the identifier: the shapes known to reach the catch-all
            if len(lines) > 1:
                l = lines[1].rstrip()
                lines[1] = l + [' (copy-func)', ' (free-func)', ': (copy-func)', ': (free-func) (skip)'][b % 4 if ':' in l else 2 + b % 2]
        else:
            # break one annotation: drop the char right after / before a parenthesis
            occ = [i for i, ch in enumerate(text) if ch in '()']
            if occ:
                i = occ[a % len(occ)] + (1 if b % 2 else -1)
                if 0 <= i < len(text) and text[i] not in '\r\n':
                    text = text[:i] + text[i + 1:]
            continue
        text = eol.join(lines)
    return text


SOUP = ['/**', '*/', '**/', ' * ', ' *', '\n', '\n', '\n', '\r\n', '\r', ' ', '  ', '\t', '@', ':', '::', '(', ')', '=',
        'foo', 'foo_bar', 'Foo', 'x', '...', 'Returns', 'returns', 'Since', 'Deprecated', 'Stability', 'Attributes',
        'Rename to', 'Description', 'Return value', 'SECTION', '|', '.', '-', 'skip', 'array', 'length=n', 'attribute',
        'attributes', 'in-out', 'copy-func', 'transfer', 'full', 'type', 'é', '中', '\x00', '\x0b', '\x0c', '\x1c', '\x85',
        ' ', ' ', '﻿', '\U0001F600', '1.0', 'stable', '<', '>', '#', '%', '/*', '/', '*', '\\']


# ------------------------------------------------------------------ strategies
def _base_text(base):
    if 'fx' in base:
        for fx in bm.load_fixtures():
            if fx['file'] == base['fx'][0] and fx['idx'] == base['fx'][1]:
                return fx['input']
        raise Discard()
    return bm.render(base['model'], base['lay'])[0]


def _decode(b):
    d = bm.DNA(b)
    kind = d.below(16)
    if kind < 2:
        n = 1 + d.below(40)
        x = ''.join(d.pick(SOUP) for _ in range(n))
        w = d.below(4)
        if w == 1:
            x = '/**\n' + x + '\n */'
        elif w == 2:
            x = '/**\n * foo:\n' + x + '\n */'
        return {'k': 'text', 'x': x}
    if kind < 12:
        if kind < 7:
            fxs = bm.load_fixtures()
            fx = fxs[(d.u8() * 256 + d.u8()) % len(fxs)]
            base = {'fx': [fx['file'], fx['idx']]}
        else:
            base = {'model': bm.gen_model(d, 'broad' if d.chance(4) else 'wf'), 'lay': bm.gen_layout(d)}
        nops = [1, 1, 1, 2, 2, 3, 5, 0][d.below(8)]
        return {'k': 'mut', 'base': base, 'ops': [[d.u8(), d.u8() * 256 + d.u8(), d.u8()] for _ in range(nops)]}
    if kind < 14:
        m = bm.gen_model(d, 'wf')
        return {'k': 'half', 'model': m, 'lay': bm.gen_layout(d), 'pick': d.u8(), 'how': d.below(6)}
    m = bm.gen_model(d, 'wf')
    if not m['desc']:
        m['desc'] = [[0, 'plain description']]
    return {'k': 'shift', 'model': m, 'lay': bm.gen_layout(d), 'pick': d.u8(), 'how': d.below(7), 'n': 1 + d.below(5)}


def strategy():
    return bm.dna.map(_decode)


def _wrap(t):
    text, w = t
    if w == 1:
        text = '/**\n' + text + '\n */'
    elif w == 2:
        text = '/**\n * ' + text.replace('\n', '\n * ') + '\n */'
    elif w == 3:
        text = '/**\n * foo:\n * @x: ' + text + '\n */'
    elif w == 4:
        text = '/**\n * foo: ' + text + '\n */'
    return {'k': 'text', 'x': text}


def unicode_strategy():
    chars = st.one_of(st.characters(exclude_categories=['Cs']),
                      st.sampled_from(list('()@:*/ \n\r\t=')),
                      st.characters(max_codepoint=0x7f))
    return st.tuples(st.text(alphabet=chars, max_size=80), st.integers(0, 4)).map(_wrap)


def main_strategy():
    def dec(b):
        c = _decode(b)
        if c['k'] in ('half', 'shift'):
            c = {'k': 'mut', 'base': {'model': c['model'], 'lay': c['lay']}, 'ops': []}
        return {'k': 'main', 'inner': c, 'warn_all': b[-1] % 2 == 1}
    return bm.dna.map(dec)


# ------------------------------------------------------------------ parsing with capture
def _parse_blocks(comments, **kw):
    """parse_comment_blocks under a fresh capturing logger. Clause 1: nothing may escape."""
    logger = bm.fresh_logger(**kw)
    try:
        res = AP.GtkDocCommentBlockParser().parse_comment_blocks(comments)
    except BaseException as e:  # noqa - SystemExit/KeyboardInterrupt included on purpose
        import traceback
        tb = traceback.extract_tb(e.__traceback__)
        where = '?'
        for fr in tb:
            if fr.filename.startswith(REPO + os.sep):
                where = '%s:%s' % (os.path.basename(fr.filename), fr.name)
        raise Violation('exception-escaped:%s@%s' % (type(e).__name__, where),
                        '%r escaped parse_comment_blocks for %r' % (e, [c[0] for c in comments]))
    return dict((k, bm.tree_of(v)) for k, v in res.items()), logger


_NB = {}


def _neighbour(i):
    if i not in _NB:
        c = (NEIGHBOURS[i], '/src/c11/n%d.c' % i, 1000 * (i + 1))
        trees, lg = _parse_blocks([c])
        if list(trees) != [NAMES[i]] or lg.records:
            raise HarnessError('neighbour block %d is not clean: %r %r' % (i, list(trees), lg.records))
        _NB[i] = (c, trees)
    return _NB[i]


def _rec_key(r):
    return (r['type'], r['text'], tuple(tuple(p) for p in r['pos']), r['marker_pos'], r['marker_line'])


def common_oracles(x, ctx, pick=0, strict=False):
    """Clauses 1, 3 (static part) and 4 for one text X. Returns (trees, records)."""
    # ---- clause 1
    trees, lg = _parse_blocks([(x, FX, SX)])
    recs = lg.records
    if any(n in NAMES for n in trees):
        raise Discard()
    i1, i2 = pick % len(NEIGHBOURS), (pick // 7 + 1 + pick % len(NEIGHBOURS)) % len(NEIGHBOURS)
    if i1 == i2:
        i2 = (i1 + 1) % len(NEIGHBOURS)
    (c1, t1), (c2, t2) = _neighbour(i1), _neighbour(i2)
    tt, lgt = _parse_blocks([c1, (x, FX, SX), c2])
    want = dict(trees)
    want.update(t1)
    want.update(t2)
    if set(tt) != set(want):
        raise Violation('neighbour-lost', 'blocks %r expected %r for X=%r' % (sorted(tt), sorted(want), x))
    for n in want:
        if tt[n] != want[n]:
            raise Violation('neighbour-contaminated' if n in NAMES else 'x-differs-between-neighbours',
                            'block %r: %s for X=%r' % (n, bm.tree_diff(want[n], tt[n]), x))
    if [_rec_key(r) for r in lgt.records] != [_rec_key(r) for r in recs]:
        raise Violation('diagnostics-differ-between-neighbours',
                        'alone %r, between neighbours %r for X=%r' % (recs, lgt.records, x))
    hit = [r for r in recs if r['text'].startswith('unrecoverable parse error')]
    if hit:
        # the catch-all of parse_comment_blocks turns an internal exception into "please file a bug" and drops the
        # WHOLE block: the malformed annotation was not "ignored", everything else the block said is lost with it
        ctx.label('catch-all-hit')
        raise Violation('internal-exception-drops-the-block', '%s for X=%r' % (hit[0]['text'][:300], x))
    if any(r['type'] == MSG.FATAL for r in recs):
        raise Violation('fatal-diagnostic', 'fatal diagnostic %r for X=%r' % (recs, x))

    # ---- clause 3: file name, line range, quoted line
    src = _LINE_BREAK.split(x)
    alone = bool(_START_ALONE.match(src[0]))
    # the parser drops everything up to the first asterisk of a line, so both readings are considered
    views = [v for l in src for v in ([l, l[l.index('*') + 1:]] if '*' in l else [l])]
    dep = any(_DEP_TAGSTYLE.match(v) for v in views)
    cont_line = any(v.lstrip().startswith('(') for v in views)
    last_has_text = len(src) > 1 and not _END_ONLY.match(src[-1])
    if not alone:
        ctx.label('carveout:start-not-alone')
    if dep:
        ctx.label('carveout:deprecated-tagstyle')
    for r in recs:
        if not r['pos']:
            if _VALIDATE_MSG.match(r['text']) and (cont_line or dep) and not strict and ctx.known('C11-F2-validate-position-lost-default-annotations'):
                # finding C11-F2: validate() reports through annotations.position, which is None when the
                # annotations object was (a) copied for a continuation line (GtkDocAnnotations.copy() drops
                # .position) or (b) the block's default object filled by a deprecated tag-style annotation
                ctx.label('excluded:F2-validate-position-lost' + ('-continuation' if cont_line else '-tagstyle'))
                continue
            raise Violation('diagnostic-without-position', '%r for X=%r' % (r, x))
        if len(r['pos']) != 1 or r['pos'][0][0] != FX:
            raise Violation('diagnostic-wrong-file', '%r for X=%r (given %s)' % (r, x, FX))
        line = r['pos'][0][1]
        if not isinstance(line, int):
            raise Violation('diagnostic-without-line', '%r for X=%r' % (r, x))
        if alone:
            if not (SX <= line <= SX + len(src) - 1):
                raise Violation('diagnostic-line-outside-block', 'line %r not in [%d, %d]: %r for X=%r'
                                % (line, SX, SX + len(src) - 1, r, x))
        if r['marker_line'] is not None and r['marker_pos'] is not None:
            ml, mp = r['marker_line'], r['marker_pos']
            if not (0 <= mp <= len(ml)):
                if dep:
                    ctx.label('carveout-used:caret')
                else:
                    raise Violation('caret-outside-quoted-line', 'marker_pos %d, quoted %r: %r for X=%r' % (mp, ml, r, x))
            if alone and not dep:
                idx = line - SX
                if idx == len(src) - 1 and last_has_text and ml != src[idx] and ml in src[idx] and not strict and ctx.known('C11-F3-last-line-quote'):
                    # finding C11-F3: for comment text in front of the end token the parser quotes the
                    # stripped comment, not the source line
                    ctx.label('excluded:F3-last-line-quote')
                    continue
                if src[idx] != ml:
                    raise Violation('quoted-line-is-not-source-line',
                                    'line %d is %r but diagnostic quotes %r: %r for X=%r' % (line, src[idx], ml, r, x))
                ctx.label('marker-checked')

    # ---- clause 4: counting, with display enabled / disabled / strict
    if lg.get_warning_count() != len(recs):
        raise Violation('count-differs-enabled', 'count %d, %d log() calls for X=%r' % (lg.get_warning_count(), len(recs), x))
    if recs and not lg.output:
        raise Violation('enabled-but-silent', 'no output for %d diagnostics, X=%r' % (len(recs), x))
    for kw, name in (({'enable': False}, 'disabled'), ({'enable': False, 'strict': True}, 'strict')):
        t2_, lg2 = _parse_blocks([(x, FX, SX)], **kw)
        if [_rec_key(r) for r in lg2.records] != [_rec_key(r) for r in recs] or t2_ != trees:
            raise Violation('result-depends-on-display-' + name, 'X=%r: %r vs %r' % (x, lg2.records, recs))
        if lg2.get_warning_count() != len(recs):
            raise Violation('count-differs-' + name, 'get_warning_count() %d but %d diagnostics were logged, X=%r'
                            % (lg2.get_warning_count(), len(recs), x))
        if lg2.output:
            raise Violation('output-when-' + name, '%r written with warnings disabled, X=%r' % (lg2.output, x))
    if recs:
        ctx.label('diagnostics-produced')
    if trees:
        ctx.label('block-survived')
    return trees, recs


# ------------------------------------------------------------------ clause 2 and metamorphic shift
def _ann_lines(info, kinds):
    return [i for i, k in enumerate(info['lines']) if k[0] in kinds and k[3] > 0]


def _corrupt(line, how):
    """Break the annotation field of one rendered line (which contains >= 1 annotation)."""
    first = line.index('(')
    # end of the annotation field: walk balanced parentheses
    i, depth, last = first, 0, first
    while i < len(line):
        c = line[i]
        if c == '(':
            depth += 1
        elif c == ')':
            depth -= 1
            if depth == 0:
                last = i
                j = i + 1
                while j < len(line) and line[j] == ' ':
                    j += 1
                if j < len(line) and line[j] == '(':
                    i = j
                    continue
                break
        i += 1
    if how == 0:
        return line[:last] + line[last + 1:]            # drop the closing parenthesis
    if how == 1:
        return line[:first] + '(' + line[first:]        # "(("
    if how == 2:
        return line[:first] + '() ' + line[first:]      # "()"
    if how == 3:
        return line[:last + 1] + ')' + line[last + 1:]  # "))"
    if how == 4:
        return line[:last + 1] + ' (' + line[last + 1:]  # opened, never closed
    return line[:first] + '(attribute a b c) ' + line[first:]


def _part_anns(tree, kind, part, m):
    if tree is None:
        return None
    if kind.startswith('id'):
        return tree['anns']
    if kind.startswith('param'):
        name = m['params'][part]['name']
        for n, a, d in tree['params']:
            if n == name:
                return a
        return None
    for n, a, v, d in tree['tags']:
        if n == m['tags'][part]['name']:
            return a
    return None


def _model_anns(kind, part, m):
    if kind.startswith('id'):
        return m['anns']
    if kind.startswith('param'):
        return m['params'][part]['anns']
    return m['tags'][part]['anns']


def _join(info, src):
    nl = info['nl']
    return ('\n' if nl == 'mix' else nl).join(src)


def _check_half(case, ctx):
    m = case['model']
    text, info = bm.render(m, case['lay'])
    src = list(info['src'])
    # last annotation-bearing line of each part
    last = {}
    for i in _ann_lines(info, ('id', 'idc', 'param', 'paramc', 'tag', 'tagc')):
        k = info['lines'][i]
        last[(k[0][:2], k[1])] = i
    if not last:
        raise Discard()
    keys = sorted(last, key=lambda t: last[t])
    li = last[keys[case['pick'] % len(keys)]]
    kind, part, nb, non = info['lines'][li]
    how = case['how']
    manns = _model_anns(kind, part, m)
    if how == 5 and any(a[0] == 'attributes' for a in manns):
        how = 0
    for j in range(li + 1, len(src)):
        kj = info['lines'][j]
        if kj[0] not in ('pdesc', 'tdesc') or kj[1] != part:
            break
        if src[j].lstrip().lstrip('*').lstrip().startswith('('):
            # once the corrupted line's description is dropped, this wrapped description line would
            # legitimately be read as a continued annotation field
            ctx.label('half:skipped-wrapped-line-starts-with-paren')
            return
    src[li] = _corrupt(src[li], how)
    x = _join(info, src)
    trees, recs = common_oracles(x, ctx, case['pick'])
    name = bm.ident_name(m['id'])
    tree = trees.get(name)
    got = _part_anns(tree, kind, part, m)
    at_line = [r for r in recs if r['pos'] and r['pos'][0][1] == SX + li]
    if how == 5:
        if any('malformed "(attribute)" annotation will be ignored' in r['text'] for r in at_line):
            ctx.label('half:attribute-ignored')
            if got is not None and any(a[0] in ('attributes', 'attribute') for a in got):
                raise Violation('half-applied-attribute', 'malformed (attribute) reported as ignored but stored: %r for X=%r' % (got, x))
        return
    if any('annotations will be ignored' in r['text'] for r in at_line):
        if got is None:
            ctx.label('half:part-missing')
            return
        want = bm._exp_anns(manns[:nb])
        if got != want:
            raise Violation('half-applied', 'line %d reported "annotations will be ignored" but part has %r, before that '
                            'line it had %r; X=%r' % (SX + li, got, want, x))
        ctx.label('half:ignored-checked')
    else:
        ctx.label('half:no-ignore-diagnostic')


def _check_shift(case, ctx):
    m = case['model']
    text, info = bm.render(m, case['lay'])
    src = list(info['src'])
    kinds = info['lines']
    cand = [i for i, k in enumerate(kinds) if k[0] in ('param', 'tag')]
    if not cand:
        raise Discard()
    li = cand[case['pick'] % len(cand)]
    kind = kinds[li][0]
    how = case['how']
    dup_at = None
    if how <= 4 and kinds[li][3] > 0:
        src[li] = _corrupt(src[li], how)
    elif how == 5 or kinds[li][3] == 0 and how % 2:
        src.insert(li + 1, src[li])           # duplicate parameter / tag
        kinds = kinds[:li + 1] + [kinds[li]] + kinds[li + 1:]
        dup_at = SX + li + 1
    else:
        # missing colon / unknown annotation in front of the rest of the line
        c = src[li].index(':')
        src[li] = src[li][:c + 1] + ' (frobnicate 1) (out x y)' + src[li][c + 1:]
    k = case['n']
    if kind == 'param':
        p = li
        ins = [' * @verif_ins_%d: inserted parameter' % j for j in range(k)]
    else:
        p = 1 + [i for i, kk in enumerate(kinds) if kk[0] == 'desc'][0]
        ins = [' * inserted description line %d' % j for j in range(k)]
    x0 = _join(info, src)
    x1 = _join(info, src[:p] + ins + src[p:])
    trees0, recs0 = common_oracles(x0, ctx, case['pick'])
    if dup_at is not None:
        # generator knowledge: the model has unique parameters/tags, the only duplicate stands on line dup_at
        dups = [r for r in recs0 if r['text'].startswith(('multiple "', 'encountered multiple'))]
        for r in dups:
            if not r['pos'] or r['pos'][0][1] != dup_at:
                raise Violation('duplicate-reported-on-wrong-line', 'the duplicate stands on line %d: %r for X=%r'
                                % (dup_at, r, x0))
        if dups:
            ctx.label('shift:duplicate-line-checked')
    trees1, lg1 = _parse_blocks([(x1, FX, SX)])
    recs1 = lg1.records

    def moved(r):
        pos = []
        for f, l, c in r['pos']:
            pos.append((f, l + k if l is not None and l - SX >= p else l, c))
        return (r['type'], r['text'], tuple(pos), r['marker_pos'], r['marker_line'])
    exp = [moved(r) for r in recs0]
    got = [_rec_key(r) for r in recs1]
    if exp != got:
        raise Violation('line-shift', 'inserting %d lines before source line %d: expected %r, got %r; X0=%r X1=%r'
                        % (k, SX + p, exp, got, x0, x1))
    if any(r['pos'] and r['pos'][0][1] - SX >= p for r in recs0):
        ctx.label('shift:checked')
    else:
        ctx.label('shift:no-diagnostic-after-insertion')


# ------------------------------------------------------------------ scanner_main (clause 4, warn_fatal)
_SM = None


def _scannermain():
    global _SM
    if _SM is None:
        if 'giscanner._giscanner' not in sys.modules:
            stub = types.ModuleType('giscanner._giscanner')

            class SourceScanner(object):
                def __init__(self):
                    pass
            stub.SourceScanner = SourceScanner
            stub.collect_attributes = None
            sys.modules['giscanner._giscanner'] = stub
        try:
            import giscanner.scannermain as sm
            from giscanner import sourcescanner as ss
        except Exception as e:
            raise HarnessError('cannot import giscanner.scannermain with a stub _giscanner: %r' % (e, ))
        _SM = (sm, ss)
    return _SM


class _RawSym(object):
    def __init__(self, ss):
        self.type = ss.CSYMBOL_TYPE_CONST
        self.ident = 'VERIF_MAX'
        self.base_type = None
        self.line = 5
        self.source_filename = '/src/c11/x.h'
        self.private = False
        self.const_int = 42
        self.const_double = None
        self.const_string = None
        self.const_boolean = None


class _StubScanner(object):
    def __init__(self, ss, comments):
        self._ss, self._c = ss, comments

    def get_comments(self):
        return self._c

    def get_symbols(self):
        return [self._ss.SourceSymbol(None, _RawSym(self._ss))]

    def get_errors(self):
        return []


def _check_main(case, ctx):
    inner = case['inner']
    x = inner['x'] if inner['k'] == 'text' else apply_ops(_base_text(inner['base']), inner['ops'])
    sm, ss = _scannermain()
    logger = bm.fresh_logger(enable=False)
    written = []
    saved = (sm.create_source_scanner, sm.write_output)
    sm.create_source_scanner = lambda options, args: (_StubScanner(ss, [(x, FX, SX)]), [FX])
    sm.write_output = lambda data, options: written.append(data)
    argv = ['g-ir-scanner', '--namespace=Verif', '--nsversion=1.0', '--header-only', '--output=-', '--warn-error']
    if case.get('warn_all'):
        argv.append('--warn-all')
    argv.append(FX)
    rc = None
    out = io.StringIO()
    try:
        with contextlib.redirect_stdout(out):
            try:
                rc = sm.scanner_main(argv)
            except SystemExit as e:
                rc = e.code if isinstance(e.code, int) else (0 if e.code is None else 1)
            except Exception as e:
                import traceback
                inner = [fr.filename for fr in traceback.extract_tb(e.__traceback__) if fr.filename.startswith(REPO + os.sep)]
                if inner and os.path.basename(inner[-1]) in ('annotationparser.py', 'message.py'):
                    raise Violation('exception-escaped-scanner-main:%s' % type(e).__name__, '%r for X=%r' % (e, x))
                # a crash in the later passes on a strange block is not this property's subject
                ctx.label('main:exception-outside-comment-parser:%s' % type(e).__name__)
                return
    finally:
        sm.create_source_scanner, sm.write_output = saved
    logged = [r for r in logger.records if r['type'] != MSG.FATAL]
    if logged and not rc:
        raise Violation('warn-error-passes-despite-diagnostics',
                        '--warn-error%s: %d diagnostics logged (%r ...) but scanner_main returned %r; X=%r'
                        % (' --warn-all' if case.get('warn_all') else '', len(logged), logged[0]['text'], rc, x))
    if not logged and rc:
        raise Violation('warn-error-fails-without-diagnostics', 'scanner_main exit %r with nothing logged; X=%r' % (rc, x))
    if not logged and not written:
        raise Violation('no-output-on-success', 'scanner_main returned 0 without writing output; X=%r' % (x, ))
    if not case.get('warn_all') and logger.output and any(r['type'] != MSG.FATAL for r in logger.records) \
            and len(logger.output) > 1:
        raise Violation('output-when-disabled', '%r' % (logger.output, ))
    ctx.label('main:nonzero' if rc else 'main:zero')


# ------------------------------------------------------------------ oracle entry point
def check_case(case, ctx):
    k = case['k']
    m = case.get('model') or (case.get('base') or {}).get('model')
    if isinstance(m, dict) and m.get('params'):
        names = [p['name'] for p in m['params']]
        if len(set(names)) != len(names):
            raise Discard()     # domain guard (replayed cases): the model itself has one @name line per parameter
    ctx.label('kind_' + k)
    if k == 'text':
        x = case['x']
        trees, recs = common_oracles(x, ctx, len(x), bool(case.get('strict')))
    elif k == 'mut':
        x = apply_ops(_base_text(case['base']), case['ops'])
        ctx.label('base_fixture' if 'fx' in case['base'] else 'base_model')
        trees, recs = common_oracles(x, ctx, len(x), bool(case.get('strict')))
        if len(_LINE_BREAK.split(x)) == 1:
            ctx.label('one-line-block')
    elif k == 'half':
        return _check_half(case, ctx)
    elif k == 'shift':
        return _check_shift(case, ctx)
    elif k == 'main':
        return _check_main(case, ctx)
    else:
        raise Discard()
    if recs and trees:
        ctx.note_nontrivial(case)
        if k == 'mut':
            ctx.sample({'x': x[:500], 'diagnostics': [r['text'] for r in recs][:4]}, 2)


def known_shape(case, v):
    """Keys of the shapes found on the unchanged tree (only reachable with case['strict'];
    otherwise the oracle excludes them by construction and counts them)."""
    if v.clause == 'diagnostic-without-position' and _VALIDATE_MSG.search(v.detail.split("'text': ", 1)[-1].lstrip('\'"')):
        return 'C11-F2-validate-position-lost-default-annotations'
    if v.clause == 'quoted-line-is-not-source-line' and case.get('strict'):
        return 'C11-F3-last-line-quote'
    return None


# ------------------------------------------------------------------ plan
def plan(tier):
    if tier == 'quick':
        return [{'n': 1700, 'unicode': 250, 'main': 150}] * 16
    return [{'n': 250000, 'unicode': 40000, 'main': 10000, 'fuzz': 4000}] * 16


def run_shard(ctx, spec):
    ctx.hyp(unicode_strategy(), spec['unicode'], name='unicode')
    ctx.hyp(main_strategy(), spec['main'], name='main')
    ctx.hyp(strategy(), spec['n'], name='gen')
    if spec.get('fuzz'):
        # coverage-guided stage (thorough tier): libFuzzer mutates the byte stream behind the same strategy, guided by
        # edge coverage of giscanner.annotationparser / giscanner.message; same oracles
        ctx.fuzz(strategy(), spec['fuzz'], name='gen')


def health(agg, tier):
    L = agg['labels']
    ev = max(1, agg['evals'])
    probs = []
    for lab, frac in (('diagnostics-produced', 0.3), ('block-survived', 0.3), ('marker-checked', 0.15),
                      ('carveout:start-not-alone', 0.01),
                      ('carveout:deprecated-tagstyle', 0.01), ('half:ignored-checked', 0.02),
                      ('shift:checked', 0.02), ('main:nonzero', 0.002), ('main:zero', 0.0005),
                      ('one-line-block', 0.002), ('kind_text', 0.05), ('base_fixture', 0.1), ('base_model', 0.1)):
        if L.get(lab, 0) < frac * ev:
            probs.append('%s in <%g%% of cases (%d/%d)' % (lab, frac * 100, L.get(lab, 0), ev))
    if agg['discards'] > 0.05 * ev:
        probs.append('discard rate above 5%% (%d/%d)' % (agg['discards'], ev))
    if len(agg['nontrivial']) < 0.1 * ev:
        probs.append('non-trivial cases <10%% (%d/%d)' % (len(agg['nontrivial']), ev))
    return probs
