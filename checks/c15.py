"""C15 - whatever the scanner writes, the typelib compiler accepts.

GIR bytes produced by the real scanner pipeline (substrate P, hostile generator, so that
introspectable="0" elements are common) are compiled with the g-ir-compiler built from the
working tree (substrate C, ASan+UBSan); the typelib is decoded with the independent decoder
and compared with what the GIR states. Also the tests/scanner/*-expected.gir files whose
includes can be satisfied.
"""
import glob
import os
import xml.etree.ElementTree as ET

from vlib import pipeline, apigen, cbuild, typelib, cmodel
from vlib.runner import Violation, Discard, HarnessError, crash_clause, REPO

ID = 'C15'
LEVEL = 'translation_validation'
RULE = ('Hypothesis-generated API descriptions (vlib/apigen, hostile mode: unresolved/foreign/skipped types, varargs, random valid and '
        'invalid annotations) -> real scanner pipeline -> GIR bytes -> g-ir-compiler built from the working tree (ASan+UBSan) with '
        'the fixture GIRs as includes -> typelib decoded by vlib/typelib.py and compared with the GIR: entry set, kinds, callables '
        'and their argument/return flags, property and signal flags; plus the shipped tests/scanner/*-expected.gir whose includes '
        'can be satisfied. non-trivial = the GIR has >= 1 non-introspectable element and >= 3 introspectable top-level elements of '
        'different kinds; distinct = hash of the case')
RULE = RULE + ' ' + 'The comparison also covers the type shape (container kind, array kind, zero-terminated/length/fixed-size, basic tags, written-out element types) of every parameter, return value, field and property; the generator adds twin callables that differ in one annotation detail, property accessor methods and an interface with drawn prerequisites.'
ASSUMPTIONS = [
    'substrate P (symbol-tree model of the C front end) and substrate C (GLib header shim, system GLib 2.74 at run time)',
    'the independent decoder vlib/typelib.py reads the format as documented in gitypelib-internal.h',
    'dependencies are the small fixture GIRs; shipped expected GIRs use GIRs derived from the system typelibs when they can be built',
]
TECHNIQUE = 'property-based testing (Hypothesis) across the two halves of the tool chain: scanner output fed to the freshly built compiler; acceptance + decoded-typelib-vs-GIR agreement'
LEVEL_TEXT = ('Each generated namespace is translated twice (scanner -> GIR -> typelib) and the end product is decoded independently and '
              'compared with the intermediate GIR; a rejection, warning, sanitizer report or disagreement is a violation.')
LEVEL_NOTE = 'one platform (x86-64), compiler built against a declaration-only GLib shim; lexer/parser of the scanner not exercised'
DESIGN_REF = 'DESIGN.md section 3, C15'

GI = '{http://www.gtk.org/introspection/core/1.0}'
C = '{http://www.gtk.org/introspection/c/1.0}'
GLIB = '{http://www.gtk.org/introspection/glib/1.0}'

KIND_OF = {GI + 'function': 'function', GI + 'callback': 'callback', GI + 'record': 'struct', GI + 'union': 'union',
           GLIB + 'boxed': 'boxed', GI + 'enumeration': 'enum', GI + 'bitfield': 'flags', GI + 'class': 'object',
           GI + 'interface': 'interface', GI + 'constant': 'constant'}

_build = None


def setup(tier):
    global _build
    _build = cbuild.build()


def B():
    global _build
    if _build is None:
        _build = cbuild.build()
    return _build


def _off(el):
    return el.get('introspectable') == '0' or el.get('shadowed-by') is not None


def _visible_name(el):
    return el.get('shadows') or el.get('name') or el.get(GLIB + 'name')


def _callables_of(container):
    out = []
    for tag in ('constructor', 'method', 'function'):
        for m in container.findall(GI + tag):
            if not _off(m):
                out.append(m)
    return out


ARRAY_KIND = {None: 'c', 'GLib.Array': 'array', 'GLib.PtrArray': 'ptr_array', 'GLib.ByteArray': 'byte_array'}
CONTAINER_TAG = {'GLib.List': 'glist', 'GLib.SList': 'gslist', 'GLib.HashTable': 'ghash', 'GLib.Error': 'error'}
BASIC_TAG = {'none': 'void', 'gpointer': 'void', 'gboolean': 'boolean', 'gint8': 'int8', 'guint8': 'uint8', 'gint16': 'int16',
             'guint16': 'uint16', 'gint32': 'int32', 'guint32': 'uint32', 'gint64': 'int64', 'guint64': 'uint64',
             'gfloat': 'float', 'gdouble': 'double', 'GType': 'gtype', 'utf8': 'utf8', 'filename': 'filename',
             'gunichar': 'unichar', 'gchar': 'int8', 'guchar': 'uint8', 'gshort': 'int16', 'gushort': 'uint16',
             'gint': 'int32', 'guint': 'uint32', 'glong': 'int64', 'gulong': 'uint64', 'gssize': 'int64', 'gsize': 'uint64',
             'gintptr': 'int64', 'guintptr': 'uint64'}


def _expect_type(holder, t, where):
    """The type shape the GIR states for a value (child <type>/<array> of `holder`) against the decoded type `t`:
    container kind, array kind and array flags (zero-terminated, length index, fixed size), basic tags, recursively for
    element types that are written out. Names that are not basic (interfaces, aliases) only have to be non-containers."""
    if holder is None or t is None:
        return 0
    ar = holder.find(GI + 'array')
    ty = holder.find(GI + 'type')
    n = 0
    if ar is not None:
        if t['tag'] != 'array':
            raise Violation('type-shape', '%s: GIR states an array, typelib has %s' % (where, t['tag']))
        kind = ARRAY_KIND.get(ar.get('name'))
        if kind is None:
            return 0
        if t['array_type_name'] != kind:
            raise Violation('array-kind', '%s: GIR %s typelib %s' % (where, kind, t['array_type_name']))
        n += 1
        if kind == 'c':
            ln, fs, zt = ar.get('length'), ar.get('fixed-size'), ar.get('zero-terminated')
            ezt = (zt == '1') if zt is not None else not (ln is not None or fs is not None)
            if bool(t['zero_terminated']) != ezt:
                raise Violation('array-flag:zero-terminated', '%s: GIR zero-terminated=%r length=%r fixed-size=%r, typelib says %r'
                                % (where, zt, ln, fs, t['zero_terminated']))
            if ln is not None and t['length'] != int(ln):
                raise Violation('array-flag:length', '%s: GIR length=%s typelib %r' % (where, ln, t['length']))
            if ln is None and t['length'] is not None:
                raise Violation('array-flag:length', '%s: GIR has no length, typelib %r' % (where, t['length']))
            if ln is None and (None if fs is None else int(fs)) != t['size']:
                raise Violation('array-flag:fixed-size', '%s: GIR fixed-size=%r typelib %r' % (where, fs, t['size']))
            n += 3
        return n + _expect_type(ar, t['element_type'], where + ' element')
    if ty is None:
        return 0
    name = ty.get('name')
    if name in CONTAINER_TAG:
        if t['tag'] != CONTAINER_TAG[name]:
            raise Violation('type-shape', '%s: GIR %s typelib %s' % (where, name, t['tag']))
        n += 1
        kids = [k for k in ty if k.tag in (GI + 'type', GI + 'array')]
        pts = t.get('param_types') or []
        if kids and len(kids) == len(pts):
            for i, k in enumerate(kids):
                wrap = ET.Element('w')
                wrap.append(k)
                n += _expect_type(wrap, pts[i], '%s element %d' % (where, i))
        return n
    if name in BASIC_TAG:
        if t['tag'] != BASIC_TAG[name]:
            raise Violation('type-tag', '%s: GIR %s typelib %s' % (where, name, t['tag']))
        return n + 1
    if t['tag'] in ('array', 'glist', 'gslist', 'ghash', 'error') and name is not None and '.' not in name:
        # a local name (record, class, enum, callback, alias of one of them) never denotes a container by itself;
        # aliases of containers do not exist in GIR 1.2 (an alias target is a <type name>, which may be GLib.List - skip those)
        return n
    return n


def _expect_callable(el, where, blob, sig):
    """Compare a GIR callable with a decoded FunctionBlob/CallbackBlob/... signature."""
    ps = el.find(GI + 'parameters')
    params = [] if ps is None else ps.findall(GI + 'parameter')
    args = sig['arguments']
    extra = 0
    if len(args) != len(params):
        raise Violation('argument-count', '%s: GIR has %d parameters, typelib %d' % (where, len(params), len(args)))
    if 'throws' in blob and bool(blob['throws'] or sig.get('throws')) != (el.get('throws') == '1'):
        raise Violation('throws-flag', '%s: GIR throws=%r typelib %r/%r' % (where, el.get('throws'), blob.get('throws'), sig.get('throws')))
    for i, (p, a) in enumerate(zip(params, args)):
        w = '%s parameter %d (%s)' % (where, i, p.get('name'))
        if a['name'] != p.get('name'):
            raise Violation('argument-name', '%s: typelib says %r' % (w, a['name']))
        d = p.get('direction') or 'in'
        if a['direction'] != d:
            raise Violation('argument-direction', '%s: GIR %s typelib %s' % (w, d, a['direction']))
        tr = p.get('transfer-ownership') or 'none'
        if a['transfer'] != tr:
            raise Violation('argument-transfer', '%s: GIR %s typelib %s' % (w, tr, a['transfer']))
        for attr, key in (('nullable', 'nullable'), ('optional', 'optional'), ('caller-allocates', 'caller_allocates'), ('skip', 'skip')):
            g = p.get(attr) == '1'
            if attr == 'nullable' and p.get('allow-none') == '1' and d == 'in':
                g = True
            if attr == 'optional' and p.get('allow-none') == '1' and d != 'in':
                g = True
            if bool(a[key]) != g:
                raise Violation('argument-flag:' + attr, '%s: GIR %s=%r (allow-none=%r) typelib %r' % (w, attr, p.get(attr), p.get('allow-none'), a[key]))
        sc = p.get('scope')
        if sc is not None and a['scope_name'] != sc:
            raise Violation('argument-scope', '%s: GIR %s typelib %s' % (w, sc, a['scope_name']))
        for attr in ('closure', 'destroy'):
            if p.get(attr) is not None and a[attr] != int(p.get(attr)):
                raise Violation('argument-' + attr, '%s: GIR %s typelib %s' % (w, p.get(attr), a[attr]))
        extra += _expect_type(p, a['arg_type'], w)
    rv = el.find(GI + 'return-value')
    if rv is not None:
        tr = rv.get('transfer-ownership') or 'none'
        if sig['return_transfer'] != tr:
            raise Violation('return-transfer', '%s: GIR %s typelib %s' % (where, tr, sig['return_transfer']))
        if bool(sig['may_return_null']) != (rv.get('nullable') == '1' or rv.get('allow-none') == '1'):
            raise Violation('return-nullable', '%s: GIR nullable=%r typelib %r' % (where, rv.get('nullable'), sig['may_return_null']))
        if bool(sig['skip_return']) != (rv.get('skip') == '1'):
            raise Violation('return-skip', '%s: GIR skip=%r typelib %r' % (where, rv.get('skip'), sig['skip_return']))
        extra += _expect_type(rv, sig['return_type'], where + ' return value')
    return len(params) + 1 + extra


def compare(gir_bytes, tl):
    """-> number of comparisons; raises Violation."""
    root = ET.fromstring(gir_bytes)
    ns = root.find(GI + 'namespace')
    n = 0
    if tl.header['namespace'] != ns.get('name') or tl.header['nsversion'] != ns.get('version'):
        raise Violation('header-namespace', '%r %r' % (tl.header['namespace'], tl.header['nsversion']))
    expected = {}
    hidden = set()
    for el in ns:
        k = KIND_OF.get(el.tag)
        if k is None:
            continue
        nm = _visible_name(el)
        if _off(el):
            hidden.add(el.get('name') or el.get(GLIB + 'name'))
            continue
        if k == 'struct' and el.get(GLIB + 'get-type') is not None:
            k = 'struct-or-boxed'
        if k == 'union' and el.get(GLIB + 'get-type') is not None:
            k = 'union-or-boxed'
        expected[nm] = (k, el)
    local = dict((e['name'], e) for e in tl.entries if e['local'])
    for nm, (k, el) in expected.items():
        e = local.get(nm)
        n += 1
        if e is None:
            raise Violation('introspectable-element-missing-from-typelib', '<%s name=%r> (kind %s); typelib has %r'
                            % (el.tag.split('}')[1], nm, k, sorted(local)[:40]))
        got = e['blob_type_name']
        ok = (got == k) or (k == 'struct-or-boxed' and got in ('struct', 'boxed')) or (k == 'union-or-boxed' and got in ('union', 'boxed'))
        if not ok:
            raise Violation('entry-kind', '%r: GIR %s typelib %s' % (nm, k, got))
    for nm in local:
        if nm not in expected:
            raise Violation('non-introspectable-or-unknown-element-in-typelib', '%r (%s); hidden in GIR: %s'
                            % (nm, local[nm]['blob_type_name'], nm in hidden))
    for nm, (k, el) in expected.items():
        blob = local[nm]['blob']
        if k in ('function', 'callback'):
            n += _expect_callable(el, nm, blob, blob['signature'])
        if k in ('struct', 'struct-or-boxed', 'union', 'union-or-boxed', 'object', 'interface', 'enum', 'flags'):
            gm = dict((_visible_name(m), m) for m in _callables_of(el))
            tm = dict((m['name'], m) for m in blob.get('methods', []))
            if set(gm) != set(tm):
                raise Violation('method-set', '%r: GIR %r typelib %r' % (nm, sorted(gm), sorted(tm)))
            for mn, m in gm.items():
                n += _expect_callable(m, '%s.%s' % (nm, mn), tm[mn], tm[mn]['signature'])
                if bool(tm[mn]['constructor']) != (m.tag == GI + 'constructor'):
                    raise Violation('constructor-flag', '%s.%s' % (nm, mn))
        if k in ('struct', 'struct-or-boxed', 'union', 'union-or-boxed', 'object') and 'fields' in blob:
            gf = [f for f in el.findall(GI + 'field') if not _off(f)]
            tf = dict((f['name'], f) for f in blob['fields'])
            for f in gf:
                t = tf.get(f.get('name'))
                if t is None:
                    raise Violation('field-missing', '%s.%s is introspectable in the GIR, typelib fields: %r' % (nm, f.get('name'), sorted(tf)))
                if f.find(GI + 'callback') is None and t.get('type') is not None:
                    n += _expect_type(f, t['type'], '%s.%s field' % (nm, f.get('name')))
        if k in ('object', 'interface'):
            gp = dict((p.get('name'), p) for p in el.findall(GI + 'property') if not _off(p))
            tp = dict((p['name'], p) for p in blob.get('properties', []))
            if set(gp) != set(tp):
                raise Violation('property-set', '%r: GIR %r typelib %r' % (nm, sorted(gp), sorted(tp)))
            for pn, p in gp.items():
                t = tp[pn]
                n += 1
                exp = {'readable': p.get('readable', '1') == '1', 'writable': p.get('writable') == '1',
                       'construct': p.get('construct') == '1', 'construct_only': p.get('construct-only') == '1'}
                for key, v in exp.items():
                    if bool(t[key]) != v:
                        raise Violation('property-flag:' + key, '%s:%s GIR %r typelib %r' % (nm, pn, v, t[key]))
                if t.get('type') is not None:
                    n += _expect_type(p, t['type'], '%s:%s property' % (nm, pn))
            gs = dict((s.get('name'), s) for s in el.findall(GLIB + 'signal') if not _off(s))
            ts = dict((s['name'], s) for s in blob.get('signals', []))
            if set(gs) != set(ts):
                raise Violation('signal-set', '%r: GIR %r typelib %r' % (nm, sorted(gs), sorted(ts)))
            for sn, s in gs.items():
                t = ts[sn]
                n += 1
                when = s.get('when')
                for key, w in (('run_first', 'first'), ('run_last', 'last'), ('run_cleanup', 'cleanup')):
                    if key in t and bool(t[key]) != (when == w):
                        raise Violation('signal-when', '%s::%s GIR when=%r typelib %s=%r' % (nm, sn, when, key, t[key]))
                for attr, key in (('no-recurse', 'no_recurse'), ('detailed', 'detailed'), ('action', 'action'), ('no-hooks', 'no_hooks')):
                    if key in t and bool(t[key]) != (s.get(attr) == '1'):
                        raise Violation('signal-flag:' + attr, '%s::%s' % (nm, sn))
                n += _expect_callable(s, '%s::%s' % (nm, sn), {}, t['signature'])
            gv = dict((v.get('name'), v) for v in el.findall(GI + 'virtual-method') if not _off(v))
            tv = dict((v['name'], v) for v in blob.get('vfuncs', []))
            if set(gv) != set(tv):
                raise Violation('vfunc-set', '%r: GIR %r typelib %r' % (nm, sorted(gv), sorted(tv)))
            for vn, v in gv.items():
                n += _expect_callable(v, '%s.vfunc %s' % (nm, vn), tv[vn], tv[vn]['signature'])
        if k in ('enum', 'flags'):
            gvals = [(m.get('name'), int(m.get('value'))) for m in el.findall(GI + 'member')]
            tvals = [(v['name'], v['value_effective'] if 'value_effective' in v else v['value']) for v in blob['values']]
            if [x[0] for x in gvals] != [x[0] for x in tvals]:
                raise Violation('enum-members', '%r: %r vs %r' % (nm, gvals, tvals))
            for (gn, gv_), (tn, tv_) in zip(gvals, tvals):
                if (gv_ & 0xffffffff) != (tv_ & 0xffffffff):
                    raise Violation('enum-value', '%s.%s: GIR %d typelib %d' % (nm, gn, gv_, tv_))
            n += len(gvals)
    return n, len(expected), len(hidden), len(set(k for k, _ in expected.values()))


def check_case(case, ctx):
    b = B()
    scratch = ctx.mkscratch()
    if case.get('kind') == 'file':
        sg = cbuild.system_girs(b)
        if sg is None:
            ctx.label('shipped-skipped-no-system-girs')
            return
        path = os.path.join(REPO, case['path'])
        incl = [sg, os.path.join(REPO, 'tests', 'scanner'), os.path.join(REPO, 'gir')]
        gir = open(path, 'rb').read()
        label = 'shipped-file'
    else:
        try:
            res = pipeline.run(case, scratch)
        except Exception:
            raise Discard()     # pipeline tracebacks are C05's concern
        if res.fatal is not None or res.gir is None:
            raise Discard()
        gir = res.gir
        path = os.path.join(scratch, 'Foo-1.0.gir')
        with open(path, 'wb') as f:
            f.write(gir)
        incl = [cbuild.FIXTURES]
        label = 'generated'
    out = os.path.join(scratch, 'out.typelib')
    if os.path.exists(out):
        os.unlink(out)
    rc, so, se = b.compile_gir(path, out, includedirs=incl)
    if case.get('kind') == 'file' and rc != 0 and ("Could not find GIR file" in se or 'not found' in se and 'include' in se.lower()):
        ctx.label('shipped-skipped-missing-include')
        return
    if rc != 0 or se.strip():
        first = (se.strip().splitlines() or ['(no message)'])
        key = 'compiler-rejects-scanner-output'
        if rc in (-6, -5, -11):
            key = 'compiler-crashes-on-scanner-output'
        msg = [l for l in first if 'error' in l.lower() or 'warning' in l.lower() or 'runtime error' in l or 'ERROR' in l][:3] or first[:3]
        detail = 'rc=%s %s' % (rc, ' | '.join(msg)[:600])
        if case.get('kind') != 'file':
            detail += '\n--- header ---\n' + cmodel.to_header_text(case['decls'])[-1200:] + '\n--- comments ---\n' + '\n'.join(c[0] for c in case['comments'])[:1500]
        raise Violation(key, detail)
    data = open(out, 'rb').read()
    try:
        tl = typelib.Typelib(data)
    except typelib.FormatError as e:
        raise Violation('typelib-does-not-decode', str(e))
    inv = tl.check_invariants()
    if inv:
        raise Violation('typelib-invariant', '; '.join(inv[:3]))
    n, nexp, nhid, nkinds = compare(gir, tl)
    ctx.extra['disagreements_checked'] = ctx.extra.get('disagreements_checked', 0) + n
    ctx.label(label)
    if nhid:
        ctx.label('has-hidden-elements')
    if nhid >= 1 and nkinds >= 3:
        ctx.note_nontrivial(case)
        ctx.sample({'gir_excerpt': gir.decode()[-900:], 'entries': nexp, 'hidden': nhid}, 2)


def _files():
    return [os.path.relpath(p, REPO) for p in sorted(glob.glob(os.path.join(REPO, 'tests/scanner/*-expected.gir')))]


def plan(tier):
    n = 40 if tier == 'quick' else 1000
    return [{'n': n, 'part': i} for i in range(16)]


def run_shard(ctx, spec):
    for f in _files()[spec['part']::16]:
        ctx.run_case({'kind': 'file', 'path': f}, reraise=False)
    ctx.hyp(apigen.api(hostile=True), spec['n'])


def health(agg, tier):
    probs = []
    ev = max(1, agg['evals'])
    if agg['discards'] > 0.3 * ev:
        probs.append('discard rate %d/%d' % (agg['discards'], ev))
    if agg['labels'].get('has-hidden-elements', 0) < 0.3 * ev:
        probs.append('hidden elements in %d of %d' % (agg['labels'].get('has-hidden-elements', 0), ev))
    return probs
