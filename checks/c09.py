"""C09 - the repository API and g-ir-generate report what the typelib contains.

Generated valid GIR documents (vlib/girmodel.py, biased to container shapes) are compiled with the
working tree's g-ir-compiler.  Every resulting typelib is then read three times:

  1. by the independent decoder (vlib/typelib.py, written from gitypelib-internal.h),
  2. by the `walk` driver (vlib/drivers/walk.c), which loads the dependency typelibs and the typelib
     under test from explicit files and dumps what the PUBLIC g_*_info_* API reports,
  3. by the tree's g-ir-generate, whose XML is parsed here.

(1) is turned into the dump (2) must produce and into the element tree (3) must produce; the GIR
model the typelib was compiled from is never consulted by the oracle.
"""
import json
import os
import re
import shutil
import struct
import uuid
import xml.etree.ElementTree as ET

from hypothesis import strategies as st

from vlib import cbuild, girmodel, typelib
from vlib.runner import Violation, HarnessError, Discard

ID = 'C09'
LEVEL = 'exploration'
RULE = ('Hypothesis cases of 1-3 namespaces from vlib/girmodel.py in its container-shape mode (three interfaces first, '
        'container kinds preferred, every class/interface draws for each of its member sections - fields, properties, '
        'methods, signals, vfuncs, constants - whether it is empty, and 0-3 interfaces/prerequisites so that odd counts '
        'exercise the guint16 padding; records and classes with callback-typed fields embedded before their methods; '
        'enumerations with methods; <attribute> children on entries, members, arguments and return values; constants of '
        'every basic type; 0-2 generated sibling namespaces plus the fixture namespaces as includes). Every namespace of '
        'a case is compiled and checked (one compile, one walk-driver run, one g-ir-generate run each). The thorough tier '
        'additionally enumerates every shape: 4 interface counts x 2^6 section masks for classes and 4 prerequisite counts '
        'x 2^5 masks for interfaces, one forced class/interface per generated document. non-trivial = the typelib has an '
        'object or interface blob with >= 3 non-empty variable-length sections (>= 2 non-empty sections after a non-empty '
        'earlier one), or attributes stored for >= 2 distinct nodes (a lookup on a node that is not the first of the '
        'table); distinct = hash of the case')
ASSUMPTIONS = [
    'vlib/typelib.py decodes the format as documented in gitypelib-internal.h (calibrated against the system typelibs); '
    'GIInfoType/GITypeTag/flag values are the public enums of gitypes.h',
    'the oracle reads only the compiled bytes: whatever the compiler stored is what the API and g-ir-generate must report '
    '(whether the compiler stored the right thing is C06)',
    'documents the compiler does not accept or that make it abort (open C06 findings: callbacks in union fields, gunichar '
    'constants, bare nested containers, interface constructors) are not generated; a compile failure is a discard',
    'dependencies are the fixture namespaces compiled with the same g-ir-compiler and the generated siblings; all are '
    'loaded explicitly before the typelib under test, so no interface reference is unresolved and no search path is used',
    'documented accessor semantics are part of the expectation: g_property_info_get_setter only for writable, not '
    'construct-only properties, get_getter only for readable ones; g_callable_info_can_throw_gerror also honours the '
    'legacy FunctionBlob/VFuncBlob flag; g_vfunc_info_get_signal / g_signal_info_get_class_closure / '
    'g_function_info_get_vfunc only when the blob sets the corresponding flag (the compiler never does)',
    'not called: g_registered_type_info_get_g_type, the *_function_pointer getters, invoke/field access (they dlopen); '
    'g_irepository_get_info beyond n_infos; FunctionBlob/VFuncBlob async fields have no accessor in this tree',
    'g-ir-generate comparison is semantic, in the writer\'s own dialect: repository version ignored; <type name="any"> is a '
    'void pointer; boolean attributes equal to their default are the same as absent; nullable is spelled allow-none; '
    'when= is compared case-insensitively; glib:is-gtype-struct="1" stands for glib:is-gtype-struct-for; c:prefix for '
    'c:identifier-prefixes; a field of a named callback type is written as an inline <callback> (only its name is '
    'compared); zero-terminated is compared as written (absent = 0); pointer-ness of basic types, c:type, instance '
    'parameters and instance transfer have no spelling in the output and are not compared; float/double constants are '
    'compared to 6 decimals (%f) and boolean constants as 1/0 = true/false; tab/newline/CR inside attribute values are compared after XML attribute-value '
    'normalisation (the writer leaves them raw, a conforming parser turns them into spaces)',
]
TECHNIQUE = ('differential testing of three readers of the same bytes: property-based generation of valid GIR documents '
             '(Hypothesis), compilation with the sanitizer build of g-ir-compiler, an independent pure-Python decoder as '
             'oracle for a C driver walking the public API (ASan/UBSan) and for the XML written by g-ir-generate; '
             'exhaustive enumeration of member-section emptiness shapes in the thorough tier')
LEVEL_TEXT = ('Randomised search over documents; the section-shape grid of object and interface blobs is enumerated '
              'exhaustively in the thorough tier (coverage of every shape is a health gate).')
LEVEL_NOTE = 'trusts the independent decoder, the GLib shim and the fixture namespaces'
DESIGN_REF = 'DESIGN.md section 2, C09'

FIXTURE_ORDER = ['GLib', 'GObject', 'GModule', 'Gio']
SECTIONS = girmodel.SHAPE_SECTIONS

# public enums (gitypes.h)
IT = {'function': 1, 'callback': 2, 'struct': 3, 'boxed': 4, 'enum': 5, 'flags': 6, 'object': 7, 'interface': 8,
      'constant': 9, 'union': 11, 'value': 12, 'signal': 13, 'vfunc': 14, 'property': 15, 'field': 16, 'arg': 17,
      'type': 18, 'unresolved': 19}
IT_NAME = dict((v, k) for k, v in IT.items())
TRANSFER = {'none': 0, 'container': 1, 'full': 2}
T_VOID, T_BOOLEAN, T_FLOAT, T_DOUBLE, T_UTF8, T_FILENAME, T_ARRAY, T_INTERFACE, T_GLIST, T_GSLIST, T_GHASH, T_ERROR = \
    0, 1, 10, 11, 13, 14, 15, 16, 17, 18, 19, 20
GIR_BASIC = {1: 'gboolean', 2: 'gint8', 3: 'guint8', 4: 'gint16', 5: 'guint16', 6: 'gint32', 7: 'guint32', 8: 'gint64',
             9: 'guint64', 10: 'gfloat', 11: 'gdouble', 12: 'GType', 13: 'utf8', 14: 'filename', 21: 'gunichar'}

_B = None
_FX = None
_DIRCACHE = {}


def _build():
    global _B
    if _B is None:
        _B = cbuild.build()
    return _B


def fixture_dir(b):
    """The fixture namespaces compiled with this build's g-ir-compiler (cached inside the build directory)."""
    global _FX
    if _FX is not None:
        return _FX
    d = os.path.join(b.dir, 'c09-fixtures')
    if not os.path.exists(os.path.join(d, 'ok')):
        tmp = '%s.tmp-%d-%s' % (d, os.getpid(), uuid.uuid4().hex[:8])
        os.makedirs(tmp)
        try:
            for n in FIXTURE_ORDER:
                rc, out, err = b.compile_gir(os.path.join(cbuild.FIXTURES, '%s-2.0.gir' % n),
                                             os.path.join(tmp, '%s-2.0.typelib' % n), includedirs=[cbuild.FIXTURES], timeout=600)
                if rc != 0:
                    raise HarnessError('C09: fixture namespace %s does not compile (exit %d): %s' % (n, rc, err.strip()[-600:]))
            open(os.path.join(tmp, 'ok'), 'w').close()
            try:
                os.rename(tmp, d)
            except OSError:
                if not os.path.exists(os.path.join(d, 'ok')):
                    raise
        finally:
            shutil.rmtree(tmp, ignore_errors=True)
    _FX = d
    return d


def setup(tier):
    fixture_dir(_build())


def _decode_file(path):
    with open(path, 'rb') as f:
        return typelib.Typelib(f.read(), strict=True)


def _fixture_info(path):
    """{'ns', 'deps', 'names': {local entry name: blob type}} of a fixture typelib (decoded once per worker)."""
    if path not in _DIRCACHE:
        try:
            T = _decode_file(path)
        except typelib.FormatError as e:
            raise HarnessError('C09: fixture typelib %s does not decode: %s' % (path, e))
        _DIRCACHE[path] = _info_of(T)
    return _DIRCACHE[path]


def _info_of(T):
    return {'ns': T.header['namespace'], 'deps': list(T.header['dependencies']),
            'names': dict((e['name'], e['blob_type']) for e in T.entries if e['local'])}


# ============================================================================ expected API dump (from the decoder)
def _first_index(items, name):
    for i, m in enumerate(items):
        if m['name'] == name:
            return i
    return -1


class Api(object):
    """What the walk driver must print, computed from the decoder's reading of the same bytes."""

    def __init__(self, T, dirmaps, keys, probes, ctx):
        self.T = T
        self.ns = T.header['namespace']
        self.dirmaps = dirmaps
        self.keys = keys
        self.probes = probes
        self.ctx = ctx
        self.attr_kinds = set()
        self.stored_lookups = 0
        self.absent_lookups = 0
        self.const_tags = set()
        self.unresolved = []

    # -- attributes
    def attrs(self, off, kind):
        a = [[n, v] for n, v in self.T.attributes_for(off)]
        if a:
            self.attr_kinds.add(kind)
        return a

    def ga(self, off):
        stored = self.T.attributes_for(off)
        out = []
        for k in self.keys:
            val = None
            for n, v in stored:
                if n == k:
                    val = v
                    break
            if val is None:
                self.absent_lookups += 1
            else:
                self.stored_lookups += 1
            out.append(val)
        return out

    def base(self, name, itype, dep, off, kind):
        return {'name': name, 'type': itype, 'dep': bool(dep), 'attrs': self.attrs(off, kind), 'ga': self.ga(off)}

    # -- references to directory entries
    def ref(self, r):
        if r is None:
            return None
        if r['local']:
            return {'type': r['blob_type'], 'name': r['name'], 'ns': self.ns}
        ns = r['namespace']
        bt = self.dirmaps.get(ns, {}).get(r['name'])
        if bt is None:
            self.unresolved.append('%s.%s' % (ns, r['name']))
            return {'type': IT['unresolved'], 'name': r['name'], 'ns': ns}
        return {'type': bt, 'name': r['name'], 'ns': ns}

    def type_ref(self, d):
        return self.ref({'local': d['interface_local'], 'name': d['interface_name'], 'namespace': d['interface_namespace'],
                         'blob_type': d['interface_blob_type']})

    # -- types
    def etype(self, d):
        tag = d['tag_value']
        o = {'tag': tag, 'ptr': bool(d['pointer']), 'len': -1, 'fixed': -1, 'zt': False}
        if d['inline']:
            return o
        if tag == T_ARRAY:
            o['len'] = d['dimensions'] if d['has_length'] else -1
            o['fixed'] = d['dimensions'] if d['has_size'] else -1
            o['zt'] = bool(d['zero_terminated'])
            o['atype'] = d['array_type']
            o['elem'] = self.etype(d['element_type'])
        elif tag == T_INTERFACE:
            o['iface'] = self.type_ref(d)
        elif tag in (T_GLIST, T_GSLIST, T_GHASH):
            need = 2 if tag == T_GHASH else 1
            if len(d['param_types']) < need:
                raise Discard()         # fewer parameter types than the tag needs: C06's concern
            o['params'] = [self.etype(p) for p in d['param_types'][:need]]
        return o

    # -- callables
    def arg(self, a):
        o = self.base(a['name'], IT['arg'], False, a['offset'], 'arg')
        o.update({'dir': 2 if (a['in'] and a['out']) else (1 if a['out'] else 0), 'transfer': TRANSFER[a['transfer']],
                  'nullable': a['nullable'], 'optional': a['optional'], 'caller_allocates': a['caller_allocates'],
                  'skip': a['skip'], 'retval': a['return_value'], 'scope': a['scope'], 'closure': a['closure'],
                  'destroy': a['destroy'], 't': self.etype(a['arg_type']), 'load_same': True})
        return o

    def callable(self, sig, kind, blob):
        if kind == 'function':
            is_method = not blob['constructor'] and not blob['is_static']
        else:
            is_method = kind in ('vfunc', 'signal')
        throws = sig['throws'] or (kind in ('function', 'vfunc') and blob['throws'])
        ra = [[n, v] for n, v in self.T.attributes_for(sig['offset'])]
        if ra:
            self.attr_kinds.add('return')
        return {'n_args': sig['n_arguments'], 'args': [self.arg(a) for a in sig['arguments']],
                'ret': self.etype(sig['return_type']), 'ret_load_same': True,
                'caller_owns': TRANSFER[sig['return_transfer']], 'may_return_null': sig['may_return_null'],
                'skip_return': sig['skip_return'], 'throws': bool(throws), 'is_method': is_method,
                'inst_transfer': 2 if sig['instance_transfer_ownership'] else 0,
                'ret_attrs': ra, 'ret_ga': self.ga(sig['offset'])}

    def function(self, f, holder=None, holder_kind=None, top=False):
        o = self.base(f['name'], IT['function'], f['deprecated'], f['offset'], 'entry' if top else 'member')
        flags = 0
        if not f['constructor'] and not f['is_static']:
            flags |= 1
        if f['constructor']:
            flags |= 2
        if f['getter']:
            flags |= 4
        if f['setter']:
            flags |= 8
        if f['wraps_vfunc']:
            flags |= 16
        if f['throws']:
            flags |= 32
        o['symbol'] = f['symbol']
        o['flags'] = flags
        o['prop'] = None
        o['vfunc'] = None
        if holder_kind in ('object', 'interface'):
            if f['getter'] or f['setter']:
                o['prop'] = _by_index(holder['properties'], f['index'])
            if f['wraps_vfunc']:
                o['vfunc'] = _by_index(holder['vfuncs'], f['index'])
        o.update(self.callable(f['signature'], 'function', f))
        return o

    def callback(self, c, kind='entry'):
        o = self.base(c['name'], IT['callback'], c['deprecated'], c['offset'], kind)
        o.update(self.callable(c['signature'], 'callback', c))
        return o

    # -- members
    def field(self, f):
        o = self.base(f['name'], IT['field'], False, f['offset'], 'member')
        o.update({'flags': (1 if f['readable'] else 0) | (2 if f['writable'] else 0), 'bits': f['bits'],
                  'offset': f['struct_offset']})
        if f['has_embedded_type']:
            o['t'] = None
            o['embedded'] = self.callback(f['embedded_callback'], 'member')
        else:
            o['t'] = self.etype(f['type'])
            o['embedded'] = None
        return o

    def constant_body(self, c):
        t = c['type']
        tag = t['tag_value']
        self.const_tags.add(tag)
        o = {'t': self.etype(t), 'size': c['size']}
        raw = c['value_raw']
        fmt = typelib.Typelib._CONST_FMT.get(t['tag'])
        if t['pointer']:
            if tag in (T_UTF8, T_FILENAME) and raw and raw[-1:] == b'\0':
                o['value'] = raw[:raw.index(b'\0')].decode('utf-8', 'surrogateescape')
            elif tag in (T_UTF8, T_FILENAME):
                o['value'] = '<value not NUL-terminated>'
            else:
                o['value'] = '<pointer constant>'
        elif 1 <= tag <= 11:
            n = struct.calcsize(fmt)
            if len(raw) < n:
                raise Discard()         # value smaller than its type: C06's concern
            v = struct.unpack(fmt, raw[:n])[0]
            o['value'] = ('%.17g' % v) if tag in (T_FLOAT, T_DOUBLE) else int(v)
        else:
            o['size'] = -1
            o['value'] = '<unsupported tag>'
        return o

    def constant(self, c):
        o = self.base(c['name'], IT['constant'], c['deprecated'], c['offset'], 'member')
        o.update(self.constant_body(c))
        return o

    def property(self, p, holder):
        o = self.base(p['name'], IT['property'], p['deprecated'], p['offset'], 'member')
        flags = (1 if p['readable'] else 0) | (2 if p['writable'] else 0) | (4 if p['construct'] else 0) | (8 if p['construct_only'] else 0)
        setter = getter = None
        if p['writable'] and not p['construct_only'] and p['setter'] != typelib.ACCESSOR_SENTINEL:
            setter = _by_index(holder['methods'], p['setter'])
        if p['readable'] and p['getter'] != typelib.ACCESSOR_SENTINEL:
            getter = _by_index(holder['methods'], p['getter'])
        o.update({'flags': flags, 'transfer': TRANSFER[p['transfer']], 't': self.etype(p['type']), 'setter': setter, 'getter': getter})
        return o

    def signal(self, s, holder):
        o = self.base(s['name'], IT['signal'], s['deprecated'], s['offset'], 'member')
        flags = 0
        for bit, k in enumerate(('run_first', 'run_last', 'run_cleanup', 'no_recurse', 'detailed', 'action', 'no_hooks')):
            if s[k]:
                flags |= 1 << bit
        o.update({'flags': flags, 'class_closure': _by_index(holder['vfuncs'], s['class_closure']) if s['has_class_closure'] else None,
                  'true_stops_emit': s['true_stops_emit']})
        o.update(self.callable(s['signature'], 'signal', s))
        return o

    def vfunc(self, v, holder):
        o = self.base(v['name'], IT['vfunc'], False, v['offset'], 'member')
        flags = (1 if v['must_chain_up'] else 0) | (2 if v['must_be_implemented'] else 0) | \
            (4 if v['must_not_be_implemented'] else 0) | (8 if v['throws'] else 0)
        o.update({'flags': flags, 'offset': v['struct_offset'],
                  'signal': _by_index(holder['signals'], v['signal']) if v['class_closure'] else None,
                  'invoker': _by_index(holder['methods'], v['invoker']) if v['invoker'] != 0x3ff else None})
        o.update(self.callable(v['signature'], 'vfunc', v))
        return o

    def value(self, v):
        o = self.base(v['name'], IT['value'], v['deprecated'], v['offset'], 'member')
        o['value'] = v['value_effective']
        return o

    def find(self, items):
        out = [[m['name'], _first_index(items, m['name'])] for m in items]
        out += [[p, _first_index(items, p)] for p in self.probes]
        return out

    # -- entries
    def registered(self, b):
        return {'gtype_name': b['gtype_name'], 'gtype_init': b['gtype_init']}

    def entry(self, e):
        b = e['blob']
        k = e['blob_type_name']
        o = self.base(b['name'], e['blob_type'], b.get('deprecated', False), b['offset'], 'entry')
        o.update({'ns': self.ns, 'has_container': False, 'find_by_name_same': True})
        if k == 'function':
            f = self.function(b, top=True)
            for key in f:
                if key not in o:
                    o[key] = f[key]
        elif k == 'callback':
            o.update(self.callable(b['signature'], 'callback', b))
        elif k in ('struct', 'boxed'):
            o.update(self.registered(b))
            o.update({'size': b['size'], 'align': b['alignment'], 'gtype_struct': b['is_gtype_struct'], 'foreign': b['foreign'],
                      'copy': b['copy_func'], 'free': b['free_func'], 'n_fields': b['n_fields'],
                      'fields': [self.field(f) for f in b['fields']], 'n_methods': b['n_methods'],
                      'methods': [self.function(f, b, k) for f in b['methods']],
                      'find_field': self.find(b['fields']), 'find_method': self.find(b['methods'])})
        elif k == 'union':
            o.update(self.registered(b))
            dt = b['discriminator_type']
            o.update({'size': b['size'], 'align': b['alignment'], 'copy': b['copy_func'], 'free': b['free_func'],
                      'n_fields': b['n_fields'], 'fields': [self.field(f) for f in b['fields']],
                      'n_methods': b['n_functions'], 'methods': [self.function(f, b, k) for f in b['functions']],
                      'find_method': self.find(b['functions']), 'discriminated': b['discriminated'],
                      'disc_offset': b['discriminator_offset'], 'disc_type': {'tag': dt['tag_value'], 'ptr': bool(dt['pointer'])},
                      'discriminators': [self.constant(c) for c in b['discriminators']]})
        elif k in ('enum', 'flags'):
            o.update(self.registered(b))
            o.update({'domain': b['error_domain'], 'storage': b['storage_type'], 'n_values': b['n_values'],
                      'values': [self.value(v) for v in b['values']], 'n_methods': b['n_methods'],
                      'methods': [self.function(f, b, k) for f in b['methods']]})
        elif k == 'object':
            o.update(self.registered(b))
            o.update({'o_type_name': b['gtype_name'], 'o_type_init': b['gtype_init'], 'parent': self.ref(b['parent_ref']),
                      'abstract': b['abstract'], 'final': b['final'], 'fundamental': b['fundamental'],
                      'class_struct': self.ref(b['gtype_struct_ref']), 'ref': b['ref_func'], 'unref': b['unref_func'],
                      'setv': b['set_value_func'], 'getv': b['get_value_func'], 'n_interfaces': b['n_interfaces'],
                      'interfaces': [self.ref(r) for r in b['interfaces_refs']], 'n_fields': b['n_fields'],
                      'fields': [self.field(f) for f in b['fields']]})
            self._members(o, b, k)
        elif k == 'interface':
            o.update(self.registered(b))
            o.update({'iface_struct': self.ref(b['gtype_struct_ref']), 'n_prerequisites': b['n_prerequisites'],
                      'prerequisites': [self.ref(r) for r in b['prerequisites_refs']]})
            self._members(o, b, k)
        elif k == 'constant':
            o.update(self.constant_body(b))
        else:
            raise HarnessError('C09: entry kind %r' % k)
        return o

    def _members(self, o, b, k):
        o.update({'n_properties': b['n_properties'], 'properties': [self.property(p, b) for p in b['properties']],
                  'n_methods': b['n_methods'], 'methods': [self.function(f, b, k) for f in b['methods']],
                  'n_signals': b['n_signals'], 'signals': [self.signal(s, b) for s in b['signals']],
                  'n_vfuncs': b['n_vfuncs'], 'vfuncs': [self.vfunc(v, b) for v in b['vfuncs']],
                  'n_constants': b['n_constants'], 'constants': [self.constant(c) for c in b['constants']],
                  'find_method': self.find(b['methods']), 'find_signal': self.find(b['signals']),
                  'find_vfunc': self.find(b['vfuncs'])})

    def namespace(self):
        h = self.T.header
        local = [e for e in self.T.entries if e['local']]
        names = set(e['name'] for e in local)
        return {'cmd': 'walk', 'ns': self.ns, 'version': h['nsversion'], 'shlib': h['shared_library'], 'c_prefix': h['c_prefix'],
                'deps': list(h['dependencies']), 'n_infos': h['n_local_entries'], 'infos': [self.entry(e) for e in local],
                'find_by_name': [[p, p if (p and p in names) else None] for p in self.probes], 'log': []}


def _by_index(lst, idx):
    return lst[idx]['name'] if 0 <= idx < len(lst) else '<index %d out of range>' % idx


# ============================================================================ comparing two dumps
class Mismatch(Exception):
    def __init__(self, path, exp, got):
        Exception.__init__(self, path)
        self.path, self.exp, self.got = path, exp, got


def deep_diff(exp, got, path):
    """First difference between two JSON-like values (same schema on both sides)."""
    if isinstance(exp, dict) and isinstance(got, dict):
        for k in sorted(set(exp) | set(got), key=lambda k: (k not in ('name', 'type', 'tag'), k.startswith('find'), k)):
            if k not in exp or k not in got:
                raise Mismatch(path + [k], exp.get(k, '<absent>'), got.get(k, '<absent>'))
            deep_diff(exp[k], got[k], path + [k])
    elif isinstance(exp, list) and isinstance(got, list):
        if len(exp) != len(got):
            raise Mismatch(path + ['#'], len(exp), len(got))
        for i, (x, g) in enumerate(zip(exp, got)):
            deep_diff(x, g, path + [i])
    else:
        if type(exp) is not type(got) and not (isinstance(exp, (int, float)) and isinstance(got, (int, float))
                                               and not isinstance(exp, bool) and not isinstance(got, bool)):
            raise Mismatch(path, exp, got)
        if exp != got:
            raise Mismatch(path, exp, got)


def _api_clause(path, exp_root):
    """api:<entry kind>.<keys of the path, indices dropped>"""
    kind = '?'
    if len(path) >= 2 and path[0] == 'infos' and isinstance(path[1], int) and path[1] < len(exp_root['infos']):
        kind = IT_NAME.get(exp_root['infos'][path[1]]['type'], '?')
        path = path[2:]
    else:
        kind = 'namespace'
    return 'api:%s.%s' % (kind, '.'.join(str(p) for p in path if not isinstance(p, int)))


def _where(path, root):
    """Human-readable location: names along the path."""
    out = []
    node = root
    for p in path:
        try:
            node = node[p]
        except (KeyError, IndexError, TypeError):
            out.append(str(p))
            break
        if isinstance(p, int) and isinstance(node, dict) and node.get('name') is not None:
            out.append('[%d %s]' % (p, node['name']))
        else:
            out.append(str(p) if not isinstance(p, int) else '[%d]' % p)
    return '.'.join(out)


# ============================================================================ expected GIR (from the decoder)
CORE, CNS, GLIBNS = girmodel.CORE, girmodel.CNS, girmodel.GLIBNS
_PFX = {CORE: '', CNS: 'c:', GLIBNS: 'glib:'}
BOOL_DEFAULT_FALSE = set(['deprecated', 'throws', 'skip', 'optional', 'allow-none', 'nullable', 'caller-allocates', 'writable',
                          'construct', 'construct-only', 'abstract', 'final', 'glib:fundamental', 'foreign',
                          'glib:is-gtype-struct', 'zero-terminated', 'no-recurse', 'detailed', 'action', 'no-hooks',
                          'must-chain-up', 'retval'])
_WS = re.compile('[\t\n\r]')


def _qname(q):
    if q.startswith('{'):
        uri, local = q[1:].split('}', 1)
        return _PFX.get(uri, '{%s}' % uri) + local
    return q


def xml_tree(el):
    return [_qname(el.tag), dict((_qname(k), v) for k, v in el.attrib.items()), [xml_tree(c) for c in el]]


def _attrnorm(v):
    return _WS.sub(' ', v)


class Gir(object):
    """The element tree g-ir-generate must write for the decoded typelib, per docs/gir-1.2.rnc, in the
    writer's dialect (see ASSUMPTIONS).  Nodes are [tag, {attribute: str}, children or None]."""

    def __init__(self, T, ctx):
        self.T = T
        self.ns = T.header['namespace']
        self.ctx = ctx

    def annotations(self, off):
        return [['attribute', {'name': n, 'value': v}, []] for n, v in self.T.attributes_for(off)]

    def qual(self, ns, name):
        return name if ns == self.ns else '%s.%s' % (ns, name)

    def refname(self, r):
        return self.qual(self.ns if r['local'] else r['namespace'], r['name'])

    def type(self, d):
        tag = d['tag_value']
        if tag == T_VOID:
            return ['type', {'name': 'gpointer' if d['pointer'] else 'none'}, []]
        if tag in GIR_BASIC:
            return ['type', {'name': GIR_BASIC[tag]}, []]
        if tag == T_ARRAY:
            a = {}
            if d['array_type']:
                a['name'] = ['', 'GLib.Array', 'GLib.PtrArray', 'GLib.ByteArray'][d['array_type']]
            if d['has_length']:
                a['length'] = str(d['dimensions'])
            if d['has_size']:
                a['fixed-size'] = str(d['dimensions'])
            if d['zero_terminated']:
                a['zero-terminated'] = '1'
            return ['array', a, [self.type(d['element_type'])]]
        if tag == T_INTERFACE:
            return ['type', {'name': self.qual(self.ns if d['interface_local'] else d['interface_namespace'], d['interface_name'])}, []]
        if tag in (T_GLIST, T_GSLIST):
            return ['type', {'name': 'GLib.List' if tag == T_GLIST else 'GLib.SList'}, [self.type(p) for p in d['param_types'][:1]]]
        if tag == T_GHASH:
            return ['type', {'name': 'GLib.HashTable'}, [self.type(p) for p in d['param_types'][:2]]]
        if tag == T_ERROR:
            return ['type', {'name': 'GLib.Error'}, []]
        raise HarnessError('C09: type tag %r' % tag)

    def callable(self, attrs, sig, off, throws):
        """-> children; `throws` goes into attrs"""
        if throws:
            attrs['throws'] = '1'
        ra = {'transfer-ownership': sig['return_transfer']}
        if sig['may_return_null']:
            ra['allow-none'] = '1'
        if sig['skip_return']:
            ra['skip'] = '1'
        ch = self.annotations(off)
        ch.append(['return-value', ra, self.annotations(sig['offset']) + [self.type(sig['return_type'])]])
        params = []
        for a in sig['arguments']:
            pa = {'name': a['name'], 'transfer-ownership': a['transfer']}
            if a['out']:
                pa['direction'] = 'inout' if a['in'] else 'out'
                if not a['in'] and a['caller_allocates']:
                    pa['caller-allocates'] = '1'
            if a['nullable']:
                pa['allow-none'] = '1'
            if a['return_value']:
                pa['retval'] = '1'
            if a['optional']:
                pa['optional'] = '1'
            if a['scope']:
                pa['scope'] = typelib.SCOPE_NAMES[a['scope']] if a['scope'] < len(typelib.SCOPE_NAMES) else '?'
            if a['closure'] >= 0:
                pa['closure'] = str(a['closure'])
            if a['destroy'] >= 0:
                pa['destroy'] = str(a['destroy'])
            if a['skip']:
                pa['skip'] = '1'
            params.append(['parameter', pa, self.annotations(a['offset']) + [self.type(a['arg_type'])]])
        if params:
            ch.append(['parameters', {}, params])
        return ch

    def function(self, f, holder=None, holder_kind=None):
        tag = 'constructor' if f['constructor'] else ('function' if f['is_static'] else 'method')
        a = {'name': f['name'], 'c:identifier': f['symbol']}
        if (f['setter'] or f['getter']) and holder_kind in ('object', 'interface'):
            a['glib:set-property' if f['setter'] else 'glib:get-property'] = _by_index(holder['properties'], f['index'])
        if f['deprecated']:
            a['deprecated'] = '1'
        sig = f['signature']
        return [tag, a, self.callable(a, sig, f['offset'], sig['throws'] or f['throws'])]

    def callback(self, c):
        a = {'name': c['name']}
        if c['deprecated']:
            a['deprecated'] = '1'
        return ['callback', a, self.callable(a, c['signature'], c['offset'], c['signature']['throws'])]

    def field(self, f):
        a = {'name': f['name']}
        if not f['readable']:
            a['readable'] = '0'
        if f['writable']:
            a['writable'] = '1'
        if f['bits']:
            a['bits'] = str(f['bits'])
        ch = self.annotations(f['offset'])
        if f['has_embedded_type']:
            ch.append(self.callback(f['embedded_callback']))
        else:
            t = f['type']
            bt = None
            if t['tag_value'] == T_INTERFACE:
                bt = t['interface_blob_type'] if t['interface_local'] else self.foreign_kind(t)
            if bt == IT['callback']:
                # "callbacks written inline": a named callback type; only its name is compared
                ch.append(['callback', {'name': t['interface_name']}, None])
            else:
                ch.append(self.type(t))
        return ['field', a, ch]

    def foreign_kind(self, t):
        return self.ctx_dirmaps.get(t['interface_namespace'], {}).get(t['interface_name'])

    def constant(self, c):
        t = c['type']
        tag = t['tag_value']
        a = {'name': c['name']}
        raw = c['value_raw']
        if t['pointer'] and tag in (T_UTF8, T_FILENAME):
            a['value'] = raw.split(b'\0')[0].decode('utf-8', 'surrogateescape')
        elif 1 <= tag <= 11 and not t['pointer']:
            fmt = typelib.Typelib._CONST_FMT[t['tag']]
            v = struct.unpack(fmt, raw[:struct.calcsize(fmt)])[0]
            a['value'] = ('%f' % v) if tag in (T_FLOAT, T_DOUBLE) else str(int(v))
        else:
            a['value'] = '?'
        if c['deprecated']:
            a['deprecated'] = '1'
        return ['constant', a, [self.type(t)] + self.annotations(c['offset'])]

    def property(self, p, holder):
        a = {'name': p['name']}
        if p['deprecated']:
            a['deprecated'] = '1'
        if not p['readable']:
            a['readable'] = '0'
        if p['writable']:
            a['writable'] = '1'
        if p['construct']:
            a['construct'] = '1'
        if p['construct_only']:
            a['construct-only'] = '1'
        if p['readable'] and p['getter'] != typelib.ACCESSOR_SENTINEL:
            a['getter'] = _by_index(holder['methods'], p['getter'])
        if p['writable'] and not p['construct_only'] and p['setter'] != typelib.ACCESSOR_SENTINEL:
            a['setter'] = _by_index(holder['methods'], p['setter'])
        a['transfer-ownership'] = p['transfer']
        return ['property', a, self.annotations(p['offset']) + [self.type(p['type'])]]

    def signal(self, s):
        a = {'name': s['name']}
        if s['deprecated']:
            a['deprecated'] = '1'
        for k, w in (('run_first', 'first'), ('run_last', 'last'), ('run_cleanup', 'cleanup')):
            if s[k]:
                a['when'] = w
                break
        for k, n in (('no_recurse', 'no-recurse'), ('detailed', 'detailed'), ('action', 'action'), ('no_hooks', 'no-hooks')):
            if s[k]:
                a[n] = '1'
        return ['glib:signal', a, self.callable(a, s['signature'], s['offset'], s['signature']['throws'])]

    def vfunc(self, v, holder):
        a = {'name': v['name']}
        if v['must_chain_up']:
            a['must-chain-up'] = '1'
        if v['must_be_implemented']:
            a['override'] = 'always'
        elif v['must_not_be_implemented']:
            a['override'] = 'never'
        a['offset'] = str(v['struct_offset'])
        if v['invoker'] != 0x3ff:
            a['invoker'] = _by_index(holder['methods'], v['invoker'])
        return ['virtual-method', a, self.callable(a, v['signature'], v['offset'], v['signature']['throws'] or v['throws'])]

    def gtype(self, a, b):
        if b['gtype_name'] is not None:
            a['glib:type-name'] = b['gtype_name']
        if b['gtype_init'] is not None:
            a['glib:get-type'] = b['gtype_init']

    def members(self, b, k):
        ch = []
        if 'fields' in b:
            ch += [self.field(f) for f in b['fields']]
        ch += [self.function(f, b, k) for f in b['methods']]
        ch += [self.property(p, b) for p in b['properties']]
        ch += [self.signal(s) for s in b['signals']]
        ch += [self.vfunc(v, b) for v in b['vfuncs']]
        ch += [self.constant(c) for c in b['constants']]
        return ch

    def entry(self, e):
        b = e['blob']
        k = e['blob_type_name']
        if k == 'function':
            return self.function(b)
        if k == 'callback':
            return self.callback(b)
        if k == 'constant':
            return self.constant(b)
        a = {}
        if k == 'boxed':
            a['glib:name'] = b['name']
        else:
            a['name'] = b['name']
        if b['deprecated']:
            a['deprecated'] = '1'
        notes = self.annotations(b['offset'])
        if k in ('struct', 'boxed'):
            self.gtype(a, b)
            if b['is_gtype_struct']:
                a['glib:is-gtype-struct'] = '1'
            if b['copy_func']:
                a['copy-function'] = b['copy_func']
            if b['free_func']:
                a['free-function'] = b['free_func']
            if b['foreign']:
                a['foreign'] = '1'
            return ['glib:boxed' if k == 'boxed' else 'record', a,
                    notes + [self.field(f) for f in b['fields']] + [self.function(f, b, k) for f in b['methods']]]
        if k == 'union':
            self.gtype(a, b)
            if b['copy_func']:
                a['copy-function'] = b['copy_func']
            if b['free_func']:
                a['free-function'] = b['free_func']
            return ['union', a, notes + [self.field(f) for f in b['fields']] + [self.function(f, b, k) for f in b['functions']]]
        if k in ('enum', 'flags'):
            self.gtype(a, b)
            if b['error_domain'] is not None:
                a['glib:error-domain'] = b['error_domain']
            ch = list(notes)
            for v in b['values']:
                va = {'name': v['name'], 'value': str(v['value_effective'])}
                if v['deprecated']:
                    va['deprecated'] = '1'
                ch.append(['member', va, self.annotations(v['offset'])])
            ch += [self.function(f, b, k) for f in b['methods']]
            return ['enumeration' if k == 'enum' else 'bitfield', a, ch]
        if k == 'object':
            if b['parent_ref'] is not None:
                a['parent'] = self.refname(b['parent_ref'])
            if b['gtype_struct_ref'] is not None:
                a['glib:type-struct'] = self.refname(b['gtype_struct_ref'])
            for key, n in (('abstract', 'abstract'), ('final', 'final'), ('fundamental', 'glib:fundamental')):
                if b[key]:
                    a[n] = '1'
            self.gtype(a, b)
            for key, n in (('unref_func', 'glib:unref-func'), ('ref_func', 'glib:ref-func'),
                           ('set_value_func', 'glib:set-value-func'), ('get_value_func', 'glib:get-value-func')):
                if b[key]:
                    a[n] = b[key]
            ch = notes + [['implements', {'name': self.refname(r)}, []] for r in b['interfaces_refs']]
            return ['class', a, ch + self.members(b, k)]
        if k == 'interface':
            self.gtype(a, b)
            if b['gtype_struct_ref'] is not None:
                a['glib:type-struct'] = self.refname(b['gtype_struct_ref'])
            ch = notes + [['prerequisite', {'name': self.refname(r)}, []] for r in b['prerequisites_refs']]
            return ['interface', a, ch + self.members(b, k)]
        raise HarnessError('C09: entry kind %r' % k)

    def repository(self, dirmaps):
        self.ctx_dirmaps = dirmaps
        h = self.T.header
        na = {'name': self.ns, 'version': h['nsversion']}
        if h['shared_library']:
            na['shared-library'] = h['shared_library']
        if h['c_prefix']:
            na['c:identifier-prefixes'] = h['c_prefix']
        incs = []
        for dep in h['dependencies']:
            n, _, v = dep.partition('-')
            incs.append(['include', {'name': n, 'version': v}, []])
        return ['repository', {}, incs + [['namespace', na, [self.entry(e) for e in self.T.entries if e['local']]]]]


class XMismatch(Exception):
    def __init__(self, path, what, exp, got):
        Exception.__init__(self, what)
        self.path, self.what, self.exp, self.got = path, what, exp, got


def _norm_got_attrs(tag, a):
    a = dict(a)
    for k in list(a):
        if k in BOOL_DEFAULT_FALSE and a[k] == '0':
            del a[k]
    if a.get('readable') == '1':
        del a['readable']
    if 'when' in a:
        a['when'] = a['when'].lower()
    if tag == 'type' and a.get('name') == 'any':
        a['name'] = 'gpointer'
    if tag == 'repository':
        a.pop('version', None)
    if tag == 'namespace' and 'c:prefix' in a and 'c:identifier-prefixes' not in a:
        a['c:identifier-prefixes'] = a.pop('c:prefix')
    return a


def _name_of(node):
    return node[1].get('name') or node[1].get('glib:name')


def xml_diff(exp, got, path):
    """exp/got: [tag, attrs, children]; children are compared per tag, in order."""
    tag = exp[0]
    here = path + [tag]
    ea = exp[1]
    ga = _norm_got_attrs(got[0], got[1])
    if exp[2] is None:
        # a reference spelled as an inline copy (named callback type of a field): only the name is compared
        if ea.get('name') != ga.get('name'):
            raise XMismatch(here, '@name', ea.get('name'), ga.get('name'))
        return
    for k in sorted(set(ea) | set(ga)):
        ev, gv = ea.get(k), ga.get(k)
        if ev is not None and gv is not None:
            ev, gv = _attrnorm(ev), _attrnorm(gv)
            if ev == gv:
                continue
            if tag == 'constant' and k == 'value' and _is_float_constant(exp):
                try:
                    if abs(float(ev) - float(gv)) <= 5.1e-7:
                        continue
                except ValueError:
                    pass
            if tag == 'constant' and k == 'value' and _is_bool_constant(exp) and (gv in ('1', 'true')) == (ev in ('1', 'true')):
                continue
        if tag == 'virtual-method' and k == 'offset' and gv is None:
            continue            # not an attribute of the GIR schema: compared only when written
        raise XMismatch(here, '@' + k, ev, gv)
    groups_e, groups_g = {}, {}
    for c in exp[2]:
        groups_e.setdefault(c[0], []).append(c)
    for c in got[2]:
        groups_g.setdefault(c[0], []).append(c)
    for t in sorted(set(groups_e) | set(groups_g)):
        le, lg = groups_e.get(t, []), groups_g.get(t, [])
        if len(le) != len(lg):
            raise XMismatch(here, '<%s>#' % t, [_name_of(c) for c in le], [_name_of(c) for c in lg])
        for i, (x, g) in enumerate(zip(le, lg)):
            xml_diff(x, g, here + ['%s' % (_name_of(x) or i)])


def _const_type(node):
    for c in node[2] or []:
        if c[0] in ('type', 'array'):
            return c[1].get('name')
    return None


def _is_float_constant(node):
    return _const_type(node) in ('gfloat', 'gdouble')


def _is_bool_constant(node):
    return _const_type(node) == 'gboolean'


def _gir_clause(path, what):
    tags = [p for i, p in enumerate(path) if i % 2 == 0]        # path alternates tag, name
    return 'gir:%s%s' % ('/'.join(tags[2:] or tags), what)


# ============================================================================ running the tools
def _hex(s):
    return s.encode('utf-8', 'surrogateescape').hex() or '-'


def _abort_summary(err):
    lines = [l for l in err.splitlines() if l.strip()]
    keyl = [l for l in lines if ('ERROR' in l or 'runtime error' in l or 'SUMMARY' in l or 'fatal' in l
                                 or 'assertion' in l or 'CRITICAL' in l or 'WARNING' in l)]
    return ' | '.join((keyl or lines)[:4])[:900]


_FRAME = re.compile(r'^\s*#\d+\s+0x[0-9a-f]+\s+in\s+(\S+)', re.M)


def _crash_bucket(err):
    frames = [f for f in _FRAME.findall(err) if not f.startswith(('__', 'g_assertion', 'g_log', 'abort', 'raise', '_g_log', 'g_logv'))][:2]
    m = re.search(r'(AddressSanitizer|runtime error): ([^\n]{0,50})', err)
    msg = ''
    if m:
        msg = re.sub(r'0x[0-9a-f]+', 'ADDR', m.group(2))
        msg = re.sub(r'\d+', 'N', msg)
    else:
        m = re.search(r'(CRITICAL|WARNING|ERROR)[^:]*: ([^\n]{0,60})', err)
        if m:
            msg = re.sub(r"'[^']*'", "'..'", m.group(2))
            msg = re.sub(r'\d+', 'N', msg)
    return '%s:%s' % (msg.strip(), '>'.join(frames))


def load_order(main_path, T, cdir, fx):
    """Paths of the transitive dependencies (dependencies first) and {ns: {name: blob type}} of each."""
    order, dirmaps, seen = [], {}, set()

    def visit(dep):
        if dep in seen:
            return
        seen.add(dep)
        p = os.path.join(cdir, dep + '.typelib')
        if os.path.exists(p):
            info = _info_of(_decode_file(p))
        else:
            p = os.path.join(fx, dep + '.typelib')
            if not os.path.exists(p):
                raise HarnessError('C09: no typelib for dependency %s' % dep)
            info = _fixture_info(p)
        for d in info['deps']:
            visit(d)
        order.append(p)
        dirmaps[info['ns']] = info['names']
    for d in T.header['dependencies']:
        visit(d)
    return order, dirmaps


def run_walk(b, paths, keys, probes, ns):
    script = ''.join('load %s\n' % p for p in paths)
    script += 'keys %s\nnames %s\nwalk %s\n' % (' '.join(_hex(k) for k in keys), ' '.join(_hex(p) for p in probes), ns)
    rc, out, err = b.run([b.driver('walk')], input=script, timeout=300)
    lines = out.splitlines()
    n_cmds = len(paths) + 3
    if rc != 0 or len(lines) != n_cmds:
        if rc == -9:
            raise Violation('walk-hang', '%s: driver killed after 300 s' % ns)
        stage = 'load' if len(lines) < len(paths) else 'walk'
        raise Violation('walk-crash:%s:%s' % (stage, _crash_bucket(err)),
                        '%s: driver exit %d after %d of %d commands: %s' % (ns, rc, len(lines), n_cmds, _abort_summary(err)))
    res = []
    for l in lines:
        try:
            res.append(json.loads(l))
        except ValueError as e:
            raise HarnessError('C09: walk driver printed a non-JSON line (%s): %r' % (e, l[:300]))
    for r, p in zip(res, paths):
        if not r.get('ok'):
            raise Violation('load-failed:' + str(r.get('stage')), '%s: %s' % (p, r.get('error')))
        if r['log']:
            raise Violation('glib-diagnostic:load', '%s: %r' % (p, r['log'][:3]))
    w = res[-1]
    if 'error' in w:
        raise HarnessError('C09: walk driver: %r' % w['error'])
    return w


# ============================================================================ the oracle
def shape_of(b, kind):
    """(count of interfaces/prerequisites, tuple of bools: section non-empty) of an object/interface blob."""
    if kind == 'object':
        return b['n_interfaces'], tuple(bool(b['n_' + s]) for s in SECTIONS)
    return b['n_prerequisites'], tuple(bool(b['n_' + s]) for s in SECTIONS[1:])


def _choose_keys(T):
    stored = []
    for a in T.attributes:
        if a['name'] is not None and a['name'] not in stored:
            stored.append(a['name'])
    stored = stored[:40]
    absent = []
    cands = ['', 'nokey', 'Plain', 'plain ', 'plai', 'org.verif.a0', 'org.verif.a11', 'c:identifie', 'c:identifierx', 'value']
    for s in stored[:6]:
        cands += [s + 'x', s[:-1], s.upper()]
    for c in cands:
        if c not in stored and c not in absent and '\0' not in c:
            absent.append(c)
    return stored, absent[:12]


def _choose_probes(T):
    """names for find_* / find_by_name: absent names and names of members of OTHER kinds"""
    out = ['nosuch', '', 'NoSuchEntry']
    seen = {}
    for e in T.entries:
        if not e['local']:
            continue
        b = e['blob']
        seen.setdefault('entry', e['name'])
        for sec in ('fields', 'methods', 'functions', 'properties', 'signals', 'vfuncs', 'constants', 'values'):
            for m in b.get(sec, [])[:1]:
                seen.setdefault(sec, m['name'])
    for k in sorted(seen):
        for c in (seen[k], seen[k] + 'x', seen[k][:-1]):
            if c not in out and '\0' not in c:
                out.append(c)
    return out[:30]


def check_typelib(ctx, b, path, data, cdir, fx, what):
    try:
        T = typelib.Typelib(data, strict=True)
    except typelib.FormatError as ex:
        ctx.label('typelib-undecodable')
        raise Discard()
    ns = T.header['namespace']
    order, dirmaps = load_order(path, T, cdir, fx)
    dirmaps[ns] = dict((e['name'], e['blob_type']) for e in T.entries if e['local'])
    stored, absent = _choose_keys(T)
    keys = stored + absent
    probes = _choose_probes(T)
    if T.header['n_local_entries'] == 0 and ctx.known('find-by-name-in-empty-namespace'):
        probes = []             # g_irepository_find_by_name reads past the (empty) hash table

    # ---- (2) the public API
    api = Api(T, dirmaps, keys, probes, ctx)
    exp = api.namespace()
    if api.unresolved and ctx.known('unresolved-reference-get-namespace'):
        # g_base_info_get_namespace on a GIUnresolvedInfo reads its name as a GITypelib: neither tool is run
        ctx.label('typelibs-with-unresolved-reference')
        return False
    boxed = [e for e in T.entries if e['local'] and e['blob_type_name'] == 'boxed']
    boxed_excluded = bool(boxed) and ctx.known('boxed-rejected-by-struct-copy-free')
    apply_known_api(ctx, T, exp, boxed_excluded)
    got = run_walk(b, order + [path], keys, probes, ns)
    log = list(got.get('log') or [])
    if boxed_excluded:
        for msg in BOXED_CRITICALS:
            for i in range(len(boxed)):
                if msg in log:
                    log.remove(msg)
    if log:
        raise Violation('glib-diagnostic:walk', '%s: the library logged %r' % (what, log[:3]))
    got['log'] = []
    unmask_known_api(ctx, exp, got)
    try:
        deep_diff(exp, got, [])
    except Mismatch as m:
        raise Violation(_api_clause(m.path, exp), '%s: %s: the bytes say %r, the API reports %r'
                        % (what, _where(m.path, exp), m.exp, m.got))

    # ---- (3) g-ir-generate
    if boxed_excluded:
        ctx.label('generate-not-run:boxed-entry')       # it aborts on the same g_return_val_if_fail (criticals are fatal there)
        return _bookkeeping(ctx, T, api, dirmaps)
    rc, out, err = b.generate_gir(path, includedirs=[cdir, fx], timeout=300)
    if rc != 0:
        if rc == -9:
            raise Violation('generate-hang', '%s: g-ir-generate killed after 300 s' % what)
        raise Violation('generate-crash:' + _crash_bucket(err), '%s: g-ir-generate exit %d: %s' % (what, rc, _abort_summary(err)))
    try:
        root = ET.fromstring(out)
    except ET.ParseError as ex:
        raise Violation('gir:not-well-formed', '%s: %s' % (what, ex))
    gtree = xml_tree(root)
    etree = Gir(T, ctx).repository(dirmaps)
    apply_known_gir(ctx, T, etree)
    # entry order = directory order
    e_ns = [c for c in etree[2] if c[0] == 'namespace'][0]
    g_nss = [c for c in gtree[2] if c[0] == 'namespace']
    if len(g_nss) != 1:
        raise Violation('gir:namespace#', '%s: %d <namespace> elements' % (what, len(g_nss)))
    e_seq = [(c[0], _name_of(c)) for c in e_ns[2]]
    g_seq = [(c[0], _name_of(c)) for c in g_nss[0][2]]
    if e_seq != g_seq:
        raise Violation('gir:entries', '%s: the directory holds %r, the GIR lists %r' % (what, e_seq[:40], g_seq[:40]))
    try:
        xml_diff(etree, gtree, [])
    except XMismatch as m:
        raise Violation(_gir_clause(m.path, m.what), '%s: %s %s: the bytes say %r, g-ir-generate wrote %r'
                        % (what, '/'.join(m.path), m.what, m.exp, m.got))
    if err.strip():
        raise Violation('generate-stderr', '%s: exit 0 but stderr: %s' % (what, err.strip()[:400]))

    ctx.label('generate-compared')
    return _bookkeeping(ctx, T, api, dirmaps)


BOXED_CRITICALS = ["g_struct_info_get_copy_function: assertion 'GI_IS_STRUCT_INFO (info)' failed",
                   "g_struct_info_get_free_function: assertion 'GI_IS_STRUCT_INFO (info)' failed"]


def _bookkeeping(ctx, T, api, dirmaps):
    ctx.label('typelibs')
    nontrivial = False
    kinds = set()
    for e in T.entries:
        if not e['local']:
            continue
        k = e['blob_type_name']
        kinds.add(k)
        bl = e['blob']
        if k in ('object', 'interface'):
            n, mask = shape_of(bl, k)
            bits = ''.join('1' if x else '0' for x in mask)
            ctx.label('shape:%s:%d:%s' % (k, n if n <= 3 else (3 if n % 2 else 2), bits))
            if n % 2:
                ctx.label('odd-interface-count' if k == 'object' else 'odd-prerequisite-count')
            if (1 if n else 0) + sum(mask) >= 3:
                nontrivial = True
                ctx.label('rich-compound')
            if k == 'object' and bl['n_field_callbacks'] and sum(mask[1:]):
                ctx.label('object-field-callback-before-sections')
        if k in ('struct', 'boxed') and any(f['has_embedded_type'] for f in bl['fields']):
            ctx.label('struct-field-callback')
            if bl['n_methods']:
                ctx.label('struct-field-callback-before-methods')
        if k in ('enum', 'flags') and bl['n_methods']:
            ctx.label('enum-methods')
        if k == 'union' and bl['n_fields'] and bl['n_functions']:
            ctx.label('union-fields-and-methods')
    for k in sorted(kinds):
        ctx.label('k:' + k)
    offsets = set(a['offset'] for a in T.attributes)
    if T.attributes:
        ctx.label('attributes-present')
    if len(offsets) >= 2:
        nontrivial = True
        ctx.label('attribute-lookup-on-non-first-node')
    for k in sorted(api.attr_kinds):
        ctx.label('attr-on:' + k)
    if api.absent_lookups:
        ctx.label('absent-key-lookups')
    if api.stored_lookups:
        ctx.label('stored-key-lookups')
    for t in sorted(api.const_tags):
        ctx.label('const:%s' % typelib.TYPE_TAG_NAMES[t])
    if len(dirmaps) > 1 and any(not e['local'] for e in T.entries):
        ctx.label('cross-namespace-refs')
    ex = ctx.extra.setdefault('lookups', {})
    ex['by-name-stored'] = ex.get('by-name-stored', 0) + api.stored_lookups
    ex['by-name-absent'] = ex.get('by-name-absent', 0) + api.absent_lookups
    return nontrivial


# ---------------------------------------------------------------------------- known findings (exact shapes)
def apply_known_api(ctx, T, exp, boxed_excluded):
    """Adjust the expectation for OPEN known findings (exactly their shape; counted by ctx.known)."""
    for info, e in zip(exp['infos'], [x for x in T.entries if x['local']]):
        b = e['blob']
        if e['blob_type_name'] == 'boxed' and boxed_excluded:
            info['copy'] = info['free'] = None
        if e['blob_type_name'] == 'union':
            if b['deprecated'] and ctx.known('union-deprecated-not-reported'):
                info['dep'] = False
            if (b['copy_func_offset'] != 0) and ctx.known('union-discriminator-type-reads-copy-func'):
                info['disc_type'] = '<excluded>'


def unmask_known_api(ctx, exp, got):
    for i, info in enumerate(exp['infos']):
        if info.get('disc_type') == '<excluded>' and i < len(got.get('infos', [])) and isinstance(got['infos'][i], dict):
            got['infos'][i]['disc_type'] = '<excluded>'


def apply_known_gir(ctx, T, etree):
    ns = [c for c in etree[2] if c[0] == 'namespace'][0]
    for node, e in zip(ns[2], [x for x in T.entries if x['local']]):
        b = e['blob']
        k = e['blob_type_name']
        a = node[1]
        if k == 'union':
            if b['deprecated'] and ctx.known('union-deprecated-not-reported'):
                a.pop('deprecated', None)
            if (b['gtype_name'] is not None or b['gtype_init'] is not None) and ctx.known('generate:union-gtype-attribute-names'):
                for old, new in (('glib:type-name', 'type-name'), ('glib:get-type', 'get-type')):
                    if old in a:
                        a[new] = a.pop(old)
        if k in ('enum', 'flags') and b['n_methods'] and ctx.known('generate:enum-methods-dropped'):
            node[2] = [c for c in node[2] if c[0] not in ('function', 'method', 'constructor')]
        if k == 'object':
            have = [n for n in ('glib:unref-func', 'glib:ref-func', 'glib:set-value-func', 'glib:get-value-func') if n in a]
            if have and ctx.known('generate:class-func-attribute-names'):
                for n in have:
                    a[n + 'tion'] = a.pop(n)
        if k in ('struct', 'boxed') and b['foreign'] and T.attributes_for(b['offset']) and ctx.known('generate:foreign-after-attributes'):
            a.pop('foreign', None)
        consts = [(node, b)] if k == 'constant' else []
        if k in ('object', 'interface'):
            cn = [c for c in node[2] if c[0] == 'constant']
            consts = list(zip(cn, b['constants']))
        for cnode, cb in consts:
            if cb['deprecated'] and ctx.known('generate:constant-deprecated-dropped'):
                cnode[1].pop('deprecated', None)


def _nested_types(T):
    for key in ('elem',):
        if T.get(key) is not None:
            yield T, key, None
            for x in _nested_types(T[key]):
                yield x
    if T.get('kv') is not None:
        for i in (0, 1):
            yield T, 'kv', i
            for x in _nested_types(T['kv'][i]):
                yield x


def in_domain(case):
    """Generator-side domain restriction: a GLib.List/SList/HashTable without element types NESTED in
    another container makes g-ir-compiler abort (open C06 finding bare-nested-container-assert);
    it is replaced by gpointer.  (The other aborting shapes are not generated with rare=False / bias.)"""
    def types_of(doc):
        def callables(members):
            for m in members:
                if 'callable' in m:
                    yield m['callable']
                if m.get('callback') is not None:
                    yield m['callback']['callable']
        for e in doc['entries']:
            cs = [e['callable']] if 'callable' in e else []
            for key in ('members', 'funcs'):
                cs += list(callables(e.get(key, [])))
            for c in cs:
                yield c['ret']['type']
                for p in c['params']:
                    yield p['type']
            for m in e.get('members', []):
                if m.get('type') is not None and m.get('m') in ('field', 'property'):
                    yield m['type']
    for doc in case['docs']:
        for T in types_of(doc):
            for parent, key, i in list(_nested_types(T)):
                sub = parent[key] if i is None else parent[key][i]
                if sub['t'] in ('list', 'hash') and sub.get('elem') is None and sub.get('kv') is None:
                    repl = {'t': 'basic', 'name': 'gpointer', 'ctype': 'gpointer'}
                    if i is None:
                        parent[key] = repl
                    else:
                        parent[key][i] = repl
    return case


def strategy(max_entries, shapes=None, salt=None):
    """Cases in container-shape mode.  `shapes`: forced on the first class/interface of the main namespace.
    `salt` (quick tier): the first class/interface gets a shape sampled from the grid; the all-minimal
    example Hypothesis starts every shard with then differs from shard to shard."""
    if salt is not None:
        g = grid()
        return st.integers(0, len(g) - 1).flatmap(
            lambda j: girmodel.cases(max_entries=max_entries, rare=False, bias={'shapes': [g[(j + 37 * salt) % len(g)]]})).map(in_domain)
    return girmodel.cases(max_entries=max_entries, rare=False, bias={'shapes': shapes or []}).map(in_domain)


def check_case(case, ctx):
    b = _build()
    fx = fixture_dir(b)
    scratch = ctx.mkscratch()
    cdir = os.path.join(scratch, 'case')
    shutil.rmtree(cdir, ignore_errors=True)
    os.makedirs(cdir)
    try:
        nontrivial = False
        for doc in case['docs']:
            base = '%s-%s' % (doc['name'], doc['version'])
            gir = os.path.join(cdir, girmodel.gir_filename(doc))
            with open(gir, 'w') as f:
                f.write(girmodel.render_xml(doc))
            out = os.path.join(cdir, base + '.typelib')
            rc, so, se = b.compile_gir(gir, out, includedirs=[cdir, cbuild.FIXTURES], timeout=300)
            if rc != 0 or not os.path.exists(out):
                # outside this property's domain ("typelibs produced by the compiler"); C06 owns it
                ctx.label('compile-failed')
                ctx.extra.setdefault('compile_failures', []).append((se.strip().splitlines() or ['rc %d' % rc])[-1][:160])
                raise Discard()
            with open(out, 'rb') as f:
                data = f.read()
            if check_typelib(ctx, b, out, data, cdir, fx, base):
                nontrivial = True
        if nontrivial:
            ctx.note_nontrivial(case)
            ctx.sample({'gir_excerpt': girmodel.render_xml(case['docs'][-1])[:1200]}, 2)
    finally:
        shutil.rmtree(cdir, ignore_errors=True)


# ============================================================================ plan / shards / health
def grid():
    """Every container shape: classes 4 x 2^6, interfaces 4 x 2^5."""
    out = []
    for kind, secs in (('class', SECTIONS), ('interface', SECTIONS[1:])):
        for n in range(4):
            for m in range(1 << len(secs)):
                sh = {'k': kind, 'n': n}
                for j, s in enumerate(SECTIONS):
                    sh[s] = bool(s in secs and (m >> secs.index(s)) & 1) if s in secs else False
                out.append(sh)
    return out


def plan(tier):
    if tier == 'quick':
        return [{'n': 14, 'max_entries': 10} for i in range(16)]
    g = grid()
    return [{'n': 500, 'max_entries': 14, 'grid': [j for j in range(len(g)) if j % 16 == i]} for i in range(16)]


def run_shard(ctx, spec):
    import hypothesis.internal.conjecture.engine as engine
    engine.MAX_SHRINKING_SECONDS = 60 if ctx.tier == 'quick' else 240
    g = grid()
    for j in spec.get('grid', []):
        ctx.hyp(strategy(4, [g[j]]), 2, name='grid')
    if spec.get('grid'):
        ctx.extra['grid_shapes_forced'] = len(spec['grid'])
    ctx.hyp(strategy(spec['max_entries'], salt=ctx.shard), spec['n'])


_GATES = [('k:function', 0.05), ('k:callback', 0.05), ('k:struct', 0.5), ('k:union', 0.06), ('k:enum', 0.06), ('k:flags', 0.05),
          ('k:object', 0.8), ('k:interface', 0.8), ('k:constant', 0.06), ('union-fields-and-methods', 0.03),
          ('odd-interface-count', 0.25),
          ('odd-prerequisite-count', 0.5), ('rich-compound', 1.0), ('struct-field-callback', 0.4),
          ('struct-field-callback-before-methods', 0.3), ('object-field-callback-before-sections', 0.06), ('enum-methods', 0.08),
          ('attributes-present', 0.8), ('attribute-lookup-on-non-first-node', 0.8), ('attr-on:entry', 0.5),
          ('attr-on:member', 0.5), ('attr-on:arg', 0.5), ('attr-on:return', 0.5), ('absent-key-lookups', 0.9),
          ('stored-key-lookups', 0.8), ('cross-namespace-refs', 0.3), ('generate-compared', 0.8), ('const:utf8', 0.02),
          ('const:double', 0.02), ('const:int64', 0.02), ('const:boolean', 0.02), ('const:uint8', 0.02), ('const:int16', 0.03)]


def health(agg, tier):
    lab = agg['labels']
    n = max(1, lab.get('typelibs', 0))
    probs = []
    if n < (200 if tier == 'quick' else 8000):
        probs.append('only %d typelibs checked' % n)
    for name, frac in _GATES:
        if lab.get(name, 0) < frac * n:
            probs.append('%s in %d of %d typelibs (gate %.0f%%)' % (name, lab.get(name, 0), n, frac * 100))
    if len(agg['nontrivial']) < 0.5 * max(1, agg['evals'] - agg['discards']):
        probs.append('only %d non-trivial of %d cases' % (len(agg['nontrivial']), agg['evals']))
    if agg['discards'] > 0.05 * max(1, agg['evals']):
        probs.append('discard rate %d/%d (compile failures: %r)' % (agg['discards'], agg['evals'], agg['extra'].get('compile_failures', [])[:3]))
    if tier == 'thorough':
        missing = []
        for sh in grid():
            kind = 'object' if sh['k'] == 'class' else 'interface'
            secs = SECTIONS if kind == 'object' else SECTIONS[1:]
            key = 'shape:%s:%d:%s' % (kind, sh['n'], ''.join('1' if sh[s] else '0' for s in secs))
            if not lab.get(key):
                missing.append(key)
        if missing:
            probs.append('%d of %d container shapes never produced, e.g. %r' % (len(missing), len(grid()), missing[:5]))
    return probs
